// Package verifcodec exists only in /verif/overlay (go build -overlay adds it to the module at build time; /repo is never
// written).  It is the shared part of the C21 recorders: the schema and the JSON form of a value by reflection, value and
// byte-string generators, and the loop that calls a generated codec and the reflection encoder side by side and logs one
// record per call for specs/codec/CodecRecords.tla.
package verifcodec

import (
	"bufio"
	"encoding/json"
	"fmt"
	"math/rand"
	"os"
	"path/filepath"
	"reflect"
	"strconv"
	"strings"

	"github.com/skycoin/skycoin/src/cipher/encoder"
)

// Codec is one generated codec, wrapped by the package that owns it
type Codec struct {
	Name string
	New  func() interface{}                       // pointer to a zero value
	Enc  func(obj interface{}) ([]byte, error)    // encodeX
	Size func(obj interface{}) uint64             // encodeSizeX
	Dec  func(b []byte, obj interface{}) (uint64, error) // decodeX
	DecX func(b []byte, obj interface{}) error    // decodeXExact
}

type M map[string]interface{}

func encoded(f reflect.StructField) bool {
	tag := f.Tag.Get("enc")
	return f.PkgPath == "" && !(len(tag) > 0 && tag[0] == '-') && f.Name != "_"
}

func tagMax(f reflect.StructField) int {
	for _, p := range strings.Split(f.Tag.Get("enc"), ",") {
		if strings.HasPrefix(p, "maxlen=") {
			n, _ := strconv.Atoi(p[len("maxlen="):])
			return n
		}
	}
	return 0
}

func tagOmit(f reflect.StructField) bool {
	for _, p := range strings.Split(f.Tag.Get("enc"), ",")[1:] {
		if p == "omitempty" {
			return true
		}
	}
	return false
}

// Schema describes the wire shape of t: ints by width, arrays, slices and strings with their maximum length, structs
func Schema(t reflect.Type, max int) M {
	switch t.Kind() {
	case reflect.Uint8, reflect.Int8:
		return M{"k": "int", "n": 1}
	case reflect.Uint16, reflect.Int16:
		return M{"k": "int", "n": 2}
	case reflect.Uint32, reflect.Int32:
		return M{"k": "int", "n": 4}
	case reflect.Uint64, reflect.Int64:
		return M{"k": "int", "n": 8}
	case reflect.Array:
		if t.Elem().Kind() == reflect.Uint8 {
			return M{"k": "barray", "len": t.Len()} // bytes, written flat
		}
		return M{"k": "array", "len": t.Len(), "e": Schema(t.Elem(), 0)}
	case reflect.Slice:
		if t.Elem().Kind() == reflect.Uint8 {
			return M{"k": "bslice", "max": max}
		}
		return M{"k": "slice", "max": max, "e": Schema(t.Elem(), 0)}
	case reflect.String:
		return M{"k": "bslice", "max": max} // a string is its bytes behind a length
	case reflect.Struct:
		fs := []M{}
		omit := false
		for i := 0; i < t.NumField(); i++ {
			f := t.Field(i)
			if !encoded(f) {
				continue
			}
			fs = append(fs, Schema(f.Type, tagMax(f)))
			omit = tagOmit(f)
		}
		return M{"k": "struct", "f": fs, "omit": omit}
	}
	panic("verifcodec: kind not handled: " + t.Kind().String())
}

func le(x uint64, n int) []int {
	out := make([]int, n)
	for i := 0; i < n; i++ {
		out[i] = int(byte(x >> uint(8*i)))
	}
	return out
}

// Value is the JSON form of v: integers as little-endian byte arrays, sequences as arrays, structs as arrays of their encoded fields
func Value(v reflect.Value) interface{} {
	switch v.Kind() {
	case reflect.Uint8, reflect.Uint16, reflect.Uint32, reflect.Uint64:
		return le(v.Uint(), int(v.Type().Size()))
	case reflect.Int8, reflect.Int16, reflect.Int32, reflect.Int64:
		return le(uint64(v.Int()), int(v.Type().Size()))
	case reflect.String:
		return Ints([]byte(v.String()))
	case reflect.Array, reflect.Slice:
		if v.Type().Elem().Kind() == reflect.Uint8 {
			out := make([]int, v.Len())
			for i := range out {
				out[i] = int(v.Index(i).Uint())
			}
			return out
		}
		out := make([]interface{}, v.Len())
		for i := range out {
			out[i] = Value(v.Index(i))
		}
		return out
	case reflect.Struct:
		out := []interface{}{}
		for i := 0; i < v.NumField(); i++ {
			if encoded(v.Type().Field(i)) {
				out = append(out, Value(v.Field(i)))
			}
		}
		return out
	case reflect.Ptr:
		return Value(v.Elem())
	}
	panic("verifcodec: kind not handled: " + v.Kind().String())
}

// Pfx is one length prefix in an encoding: its byte offset and the maximum length of the field it belongs to (0 = none)
type Pfx struct{ Off, Max int }

// Prefixes returns the length prefixes in the encoding of v (which starts at offset `at`; max = the field's maximum) and the encoding's end
func Prefixes(v reflect.Value, at int, max int, out *[]Pfx) int {
	switch v.Kind() {
	case reflect.Uint8, reflect.Uint16, reflect.Uint32, reflect.Uint64, reflect.Int8, reflect.Int16, reflect.Int32, reflect.Int64:
		return at + int(v.Type().Size())
	case reflect.String:
		*out = append(*out, Pfx{at, max})
		return at + 4 + v.Len()
	case reflect.Array, reflect.Slice:
		if v.Kind() == reflect.Slice {
			*out = append(*out, Pfx{at, max})
			at += 4
		}
		for i := 0; i < v.Len(); i++ {
			at = Prefixes(v.Index(i), at, 0, out)
		}
		return at
	case reflect.Struct:
		n := v.NumField()
		for i := 0; i < n; i++ {
			f := v.Type().Field(i)
			if !encoded(f) {
				continue
			}
			fv := v.Field(i)
			if tagOmit(f) && fv.Len() == 0 {
				continue
			}
			at = Prefixes(fv, at, tagMax(f), out)
		}
		return at
	case reflect.Ptr:
		return Prefixes(v.Elem(), at, 0, out)
	}
	panic("verifcodec: kind not handled: " + v.Kind().String())
}

func Ints(b []byte) []int {
	out := make([]int, len(b))
	for i, x := range b {
		out[i] = int(x)
	}
	return out
}

// Fill sets v to a random value: slice lengths around `around` (0 = empty or nil), extreme integers now and then
func Fill(rng *rand.Rand, v reflect.Value, around int, max int) {
	switch v.Kind() {
	case reflect.Uint8, reflect.Uint16, reflect.Uint32, reflect.Uint64:
		v.SetUint(extreme(rng, v.Type().Bits()))
	case reflect.Int8, reflect.Int16, reflect.Int32, reflect.Int64:
		v.SetInt(int64(extreme(rng, v.Type().Bits())))
	case reflect.String:
		b := make([]byte, length(rng, around, max))
		rng.Read(b)
		v.SetString(string(b))
	case reflect.Array:
		for i := 0; i < v.Len(); i++ {
			Fill(rng, v.Index(i), around, 0)
		}
	case reflect.Slice:
		n := length(rng, around, max)
		if n == 0 && rng.Intn(2) == 0 {
			v.Set(reflect.Zero(v.Type())) // nil
			return
		}
		s := reflect.MakeSlice(v.Type(), n, n)
		inner := around / 2 // nested sequences get shorter
		if n > 8 {
			inner = 0 // and long slices of structs stay small
		}
		for i := 0; i < n; i++ {
			Fill(rng, s.Index(i), inner, 0)
		}
		v.Set(s)
	case reflect.Struct:
		for i := 0; i < v.NumField(); i++ {
			f := v.Type().Field(i)
			if encoded(f) {
				Fill(rng, v.Field(i), around, tagMax(f))
			}
		}
	default:
		panic("verifcodec: kind not handled: " + v.Kind().String())
	}
}

func extreme(rng *rand.Rand, bits int) uint64 {
	mask := uint64(1)<<uint(bits) - 1
	if bits == 64 {
		mask = ^uint64(0)
	}
	switch rng.Intn(6) {
	case 0:
		return 0
	case 1:
		return mask
	case 2:
		return mask >> 1
	case 3:
		return (mask >> 1) + 1
	}
	return rng.Uint64() & mask
}

// noLimit keeps slices away from their maximum length: the value the systematic part multiplies by every length prefix
// and boundary length must stay small (a value with 256 transactions has some 770 prefixes: gigabytes of records)
var noLimit = false

// exactlyOne makes every sequence one element long
var exactlyOne = false

// Force, when not 99, makes every slice with a small maximum length exactly max+Force long (the systematic part of a run)
var Force = 99

func length(rng *rand.Rand, around, max int) int {
	if exactlyOne {
		return 1
	}
	if max > 0 && max <= 600 && Force != 99 {
		return max + Force
	}
	if max > 0 && max <= 600 && !noLimit && rng.Intn(6) == 0 {
		return max - 1 + rng.Intn(3) // at the limit: max-1, max, max+1
	}
	switch rng.Intn(5) {
	case 0:
		return 0
	case 1:
		return 1
	}
	if around <= 0 {
		return 0
	}
	return rng.Intn(2*around + 1)
}

func kind(err error) string {
	switch err {
	case nil:
		return ""
	case encoder.ErrBufferUnderflow:
		return "underflow"
	case encoder.ErrMaxLenExceeded:
		return "maxlen"
	case encoder.ErrRemainingBytes:
		return "remaining"
	case encoder.ErrBufferOverflow:
		return "overflow"
	}
	return "other:" + err.Error()
}

func guard(f func()) (p string) {
	defer func() {
		if r := recover(); r != nil {
			p = fmt.Sprint(r)
		}
	}()
	f()
	return ""
}

// one decoding, by the generated codec or by the reflection decoder
func decode(c Codec, b []byte, gen bool) M {
	out := M{"err": "", "n": 0, "value": []interface{}{}, "reenc": []int{}, "xerr": "", "panic": ""}
	obj := c.New()
	var n uint64
	var err error
	if p := guard(func() {
		if gen {
			n, err = c.Dec(b, obj)
		} else {
			n, err = encoder.DeserializeRaw(b, obj)
		}
	}); p != "" {
		out["panic"] = p
		return out
	}
	out["err"], out["n"] = kind(err), int(n)
	if err == nil {
		out["value"] = Value(reflect.ValueOf(obj))
		// what the decoded value encodes to (canonical decoding: the bytes that were consumed)
		var re []byte
		var rerr error
		if p := guard(func() {
			if gen {
				re, rerr = c.Enc(obj)
			} else {
				re = encoder.Serialize(obj)
			}
		}); p != "" {
			out["panic"] = "re-encode: " + p
			return out
		}
		if rerr != nil {
			out["reenc"] = []int{-1}
		} else {
			out["reenc"] = Ints(re)
		}
	}
	obj2 := c.New()
	var xerr error
	if p := guard(func() {
		if gen {
			xerr = c.DecX(b, obj2)
		} else {
			xerr = encoder.DeserializeRawExact(b, obj2)
		}
	}); p != "" {
		out["panic"] = "exact: " + p
		return out
	}
	out["xerr"] = kind(xerr)
	return out
}

var lengths = []uint32{0, 1, 2, 3, 127, 128, 255, 256, 257, 511, 512, 513, 65535, 65536, 0x7fffffff, 0x80000000, 0xffffffff}

func mutate(rng *rand.Rand, good []byte) []byte {
	b := append([]byte{}, good...)
	switch rng.Intn(9) {
	case 0:
		return b
	case 1: // cut anywhere
		return b[:rng.Intn(len(b)+1)]
	case 2: // cut inside the last bytes
		k := rng.Intn(6)
		if k > len(b) {
			k = len(b)
		}
		return b[:len(b)-k]
	case 3: // bytes appended
		x := make([]byte, 1+rng.Intn(8))
		if rng.Intn(2) == 0 {
			rng.Read(x)
		}
		return append(b, x...)
	case 4, 5: // a 4-byte window (perhaps a length prefix) set to a boundary value
		if len(b) >= 4 {
			i := rng.Intn(len(b) - 3)
			l := lengths[rng.Intn(len(lengths))]
			if rng.Intn(3) == 0 {
				l = uint32(len(b)-i-4) + uint32(rng.Intn(3)) - 1 // what is left, give or take one
			}
			b[i], b[i+1], b[i+2], b[i+3] = byte(l), byte(l>>8), byte(l>>16), byte(l>>24)
		}
		return b
	case 6: // one byte changed
		if len(b) > 0 {
			b[rng.Intn(len(b))] = byte(rng.Intn(256))
		}
		return b
	case 7: // random bytes
		x := make([]byte, rng.Intn(80))
		rng.Read(x)
		return x
	}
	// the tail cut and an explicit zero length appended (the written-out form of an empty last field)
	return append(b, 0, 0, 0, 0)
}

// Run records `count` calls per codec into $VERIF_OUT/codec-<pkg>.ndjson
func Run(pkg string, codecs []Codec) error {
	out := os.Getenv("VERIF_OUT")
	seed, _ := strconv.ParseInt(os.Getenv("VERIF_SEED"), 10, 64)
	count, _ := strconv.Atoi(os.Getenv("VERIF_COUNT"))
	big := os.Getenv("VERIF_BIG") != ""
	f, err := os.Create(filepath.Join(out, "codec-"+pkg+".ndjson"))
	if err != nil {
		return err
	}
	defer f.Close()
	w := bufio.NewWriterSize(f, 1<<20)
	defer w.Flush()
	enc := json.NewEncoder(w)
	sf, err := os.Create(filepath.Join(out, "schemas-"+pkg+".ndjson"))
	if err != nil {
		return err
	}
	defer sf.Close()
	senc := json.NewEncoder(sf)
	for ci, c := range codecs {
		rng := rand.New(rand.NewSource(seed*131 + int64(ci)))
		c.Name = pkg + "." + c.Name // names repeat across packages
		t := reflect.TypeOf(c.New()).Elem()
		schema := Schema(t, 0)
		if err := senc.Encode(M{"type": c.Name, "schema": schema}); err != nil {
			return err
		}
		decBoth := func(b []byte) error {
			return enc.Encode(M{"fn": "dec", "pkg": pkg, "type": c.Name, "bytes": Ints(b), "gen": decode(c, b, true), "ref": decode(c, b, false)})
		}
		// ---- the systematic part: every length prefix of a small value set to every boundary length, cuts and tails around
		// the end, and values whose bounded slices are exactly at, one below and one above their maximum
		for bi := 0; bi < 2; bi++ { // two small values: a random one, and one with exactly one element in every sequence (all nested prefixes exist)
			obj := c.New()
			noLimit, exactlyOne = true, bi == 1
			Fill(rng, reflect.ValueOf(obj).Elem(), 1, 0)
			noLimit, exactlyOne = false, false
			base := encoder.Serialize(obj)
			pfxs := []Pfx{}
			Prefixes(reflect.ValueOf(obj), 0, 0, &pfxs)
			for _, px := range pfxs {
				o := px.Off
				if px.Max >= 1000 {
					// a length just beyond a large maximum WITH that many bytes behind it: not a truncation (the bytes are there), the
					// maximum is what is exceeded - whatever the element size
					for _, l := range []uint32{uint32(px.Max) + 1} {
						b := append(append([]byte{}, base[:o]...), byte(l), byte(l>>8), byte(l>>16), byte(l>>24))
						b = append(b, make([]byte, int(l)+rng.Intn(3))...)
						if err := decBoth(b); err != nil {
							return err
						}
					}
				}
				left := uint32(len(base) - o - 4)
				for _, l := range append([]uint32{left - 1, left, left + 1}, lengths...) {
					b := append([]byte{}, base...)
					b[o], b[o+1], b[o+2], b[o+3] = byte(l), byte(l>>8), byte(l>>16), byte(l>>24)
					if err := decBoth(b); err != nil {
						return err
					}
				}
			}
			for k := 1; k <= 5; k++ {
				tail := make([]byte, k)
				if err := decBoth(append(append([]byte{}, base...), tail...)); err != nil {
					return err
				}
				rng.Read(tail)
				if err := decBoth(append(append([]byte{}, base...), tail...)); err != nil {
					return err
				}
				if k <= len(base) {
					if err := decBoth(base[:len(base)-k]); err != nil {
						return err
					}
				}
			}
		}
		for i := 0; i < count+3; i++ {
			obj := c.New()
			around := []int{0, 1, 2, 4, 9}[rng.Intn(5)]
			Force = 99
			if i >= count {
				Force, around = i-count-1, 0 // -1, 0, +1 around every small maximum length
			}
			if big && i%50 == 0 {
				around = 60
			}
			Fill(rng, reflect.ValueOf(obj).Elem(), around, 0)
			var gb []byte
			var gerr error
			var gsize, rsize uint64
			var rb []byte
			r := M{"fn": "enc", "pkg": pkg, "type": c.Name, "value": Value(reflect.ValueOf(obj)), "panic": ""}
			if p := guard(func() { gb, gerr = c.Enc(obj); gsize = c.Size(obj) }); p != "" {
				r["panic"] = "generated: " + p
			}
			if p := guard(func() { rb = encoder.Serialize(obj); rsize = encoder.Size(obj) }); p != "" {
				r["panic"] = "reflection: " + p
			}
			r["genErr"], r["gen"], r["genSize"], r["ref"], r["refSize"] = kind(gerr), Ints(gb), int(gsize), Ints(rb), int(rsize)
			if err := enc.Encode(r); err != nil {
				return err
			}
			// byte strings derived from this encoding, decoded by both
			Force = 99
			for k := 0; k < 2; k++ {
				b := mutate(rng, rb)
				if i == 0 && k == 1 {
					b = append(append([]byte{}, rb...), 0, 0, 0, 0) // always: the written-out form of an empty last field
				}
				if err := decBoth(b); err != nil {
					return err
				}
			}
		}
	}
	return nil
}
