package gnet

// Overlaid into /repo/src/daemon/gnet at build time by /verif/check (go test -overlay); never
// written to /repo.  TestVerifWire drives the real receive path (bytes.Buffer + decodeData, as
// readLoop does, and convertToMessage) and logs one record per call for specs/wire/WireRecords.tla.

import (
	"bufio"
	"bytes"
	"encoding/json"
	"fmt"
	"math/rand"
	"net"
	"os"
	"path/filepath"
	"strconv"
	"testing"
	"time"

	"github.com/skycoin/skycoin/src/cipher/encoder"
)

type vwMsg struct {
	A uint32
	B []byte
}

var vwPrefix = MessagePrefix{'V', 'W', 'M', 'S'}

func (m *vwMsg) EncodeSize() uint64 { return uint64(encoder.Size(m)) }
func (m *vwMsg) Encode(buf []byte) error {
	b := encoder.Serialize(m)
	if len(buf) < len(b) {
		return fmt.Errorf("short buffer")
	}
	copy(buf, b)
	return nil
}
func (m *vwMsg) Decode(buf []byte) (uint64, error)              { return encoder.DeserializeRaw(buf, m) }
func (m *vwMsg) Handle(c *MessageContext, x interface{}) error {
	if st, ok := x.(*vwState); ok {
		st.got <- vwGot{addr: c.Addr, a: m.A}
	}
	return nil
}

// what a real pool delivered (the pool's message state of the connection part of TestVerifWire)
type vwGot struct {
	addr string
	a    uint32
}

type vwState struct{ got chan vwGot }

func vwInts(b []byte) []int {
	out := make([]int, len(b))
	for i, x := range b {
		out[i] = int(x)
	}
	return out
}

func vwIntss(bs [][]byte) [][]int {
	out := make([][]int, len(bs))
	for i, b := range bs {
		out[i] = vwInts(b)
	}
	return out
}

func vwErr(err error) string {
	switch err {
	case nil:
		return "none"
	case ErrDisconnectInvalidMessageLength:
		return "invalid-length"
	}
	return "other:" + err.Error()
}

func vwFrame(body []byte) []byte {
	n := len(body)
	return append([]byte{byte(n), byte(n >> 8), byte(n >> 16), byte(n >> 24)}, body...)
}

func TestVerifWire(t *testing.T) {
	out := os.Getenv("VERIF_OUT")
	if out == "" {
		t.Skip("VERIF_OUT not set")
	}
	seed, _ := strconv.ParseInt(os.Getenv("VERIF_SEED"), 10, 64)
	count, _ := strconv.Atoi(os.Getenv("VERIF_COUNT"))
	rng := rand.New(rand.NewSource(seed))
	f, err := os.Create(filepath.Join(out, "wire.ndjson"))
	if err != nil {
		t.Fatal(err)
	}
	w := bufio.NewWriter(f)
	enc := json.NewEncoder(w)
	emit := func(r map[string]interface{}) {
		if err := enc.Encode(r); err != nil {
			t.Fatal(err)
		}
	}
	randBody := func(max int) []byte {
		n := 4 + rng.Intn(max-3)
		b := make([]byte, n)
		for i := range b {
			b[i] = byte(rng.Intn(256))
			if rng.Intn(3) == 0 {
				b[i] = byte(rng.Intn(9)) // make bodies that look like length prefixes
			}
		}
		return b
	}
	safeDecode := func(buf *bytes.Buffer, max int) (res [][]byte, e string) {
		defer func() {
			if r := recover(); r != nil {
				res, e = nil, "panic"
			}
		}()
		d, err := decodeData(buf, max)
		return d, vwErr(err)
	}
	for i := 0; i < count; i++ {
		max := 8 + rng.Intn(24)
		nm := rng.Intn(5)
		var msgs [][]byte
		var stream []byte
		for k := 0; k < nm; k++ {
			b := randBody(max)
			msgs = append(msgs, b)
			stream = append(stream, vwFrame(b)...)
		}
		// one in three streams ends in a frame with an invalid length or raw garbage
		switch rng.Intn(9) {
		case 0:
			stream = append(stream, vwFrame(make([]byte, rng.Intn(4)))...)
			stream = append(stream, 7, 7)
		case 1:
			stream = append(stream, vwFrame(make([]byte, max+1+rng.Intn(3)))...)
		case 2:
			g := make([]byte, 1+rng.Intn(12))
			rng.Read(g)
			stream = append(stream, g...)
		}
		cuts := []int{}
		for rem := len(stream); rem > 0; {
			k := 1 + rng.Intn(rem)
			if rng.Intn(2) == 0 {
				k = 1 + rng.Intn(6)
			}
			if k > rem {
				k = rem
			}
			cuts = append(cuts, k)
			rem -= k
		}
		buf := &bytes.Buffer{}
		var delivered [][]byte
		rest := stream
		streamErr := "none"
		for _, k := range cuts {
			chunk := rest[:k]
			rest = rest[k:]
			pre := append([]byte{}, buf.Bytes()...)
			buf.Write(chunk)
			d, e := safeDecode(buf, max)
			post := append([]byte{}, buf.Bytes()...)
			if d == nil {
				d = [][]byte{}
			}
			emit(map[string]interface{}{"fn": "decode", "max": max, "pre": vwInts(pre), "chunk": vwInts(chunk),
				"out": vwIntss(d), "err": e, "post": vwInts(post)})
			if e != "none" {
				streamErr = e
				break
			}
			delivered = append(delivered, d...)
		}
		emit(map[string]interface{}{"fn": "stream", "max": max, "bytes": vwInts(stream), "cuts": cuts, "nmsgs": len(msgs),
			"delivered": vwIntss(delivered), "err": streamErr})
	}

	// dispatch of delivered messages
	EraseMessages()
	RegisterMessage(vwPrefix, vwMsg{})
	VerifyMessages()
	convert := func(b []byte) (res string, m Message) {
		defer func() {
			if r := recover(); r != nil {
				res, m = "panic", nil
			}
		}()
		m, err := convertToMessage(1, b, false)
		if err != nil {
			return "disconnect", nil
		}
		return "message", m
	}
	for i := 0; i < count; i++ {
		msg := &vwMsg{A: rng.Uint32(), B: make([]byte, rng.Intn(10))}
		rng.Read(msg.B)
		full, err := EncodeMessage(msg)
		if err != nil {
			t.Fatal(err)
		}
		valid := full[4:]
		kind := []string{"valid", "trailing", "truncated", "unknown-id", "short-id"}[rng.Intn(5)]
		var in []byte
		switch kind {
		case "valid":
			in = valid
		case "trailing":
			in = append(append([]byte{}, valid...), make([]byte, 1+rng.Intn(4))...)
		case "truncated":
			in = valid[:4+rng.Intn(len(valid)-4)]
		case "unknown-id":
			in = append([]byte{'V', 'W', 'M', 'X'}, valid[4:]...)
		case "short-id":
			in = valid[:rng.Intn(4)]
		}
		res, _ := convert(in)
		emit(map[string]interface{}{"fn": "convert", "kind": kind, "res": res, "len": len(in)})

		fz := make([]byte, rng.Intn(24))
		rng.Read(fz)
		if rng.Intn(4) != 0 {
			fz = append([]byte{'V', 'W', 'M', 'S'}, fz...)
			if len(fz) >= 12 && rng.Intn(2) == 0 { // plausible length field
				fz[8], fz[9], fz[10], fz[11] = byte(rng.Intn(len(fz))), 0, 0, 0
			}
		}
		res, m := convert(fz)
		canonical := false
		if res == "message" {
			re, err := EncodeMessage(m)
			canonical = err == nil && bytes.Equal(re[4:], fz)
		}
		emit(map[string]interface{}{"fn": "fuzz", "bytes": vwInts(fz), "res": res, "canonical": canonical})
	}

	// the sender's size check (sendMessage) against the same limit the receiver applies
	orig := sendByteMessage
	defer func() { sendByteMessage = orig }()
	sendByteMessage = func(conn net.Conn, msg []byte, tm time.Duration) error { return nil }
	for i := 0; i < count; i++ {
		msg := &vwMsg{A: rng.Uint32(), B: make([]byte, rng.Intn(40))}
		n := 12 + len(msg.B) // id + A + length of B + B
		max := n + rng.Intn(9) - 4
		res := "sent"
		if err := sendMessage(nil, msg, 0, max); err == ErrMsgExceedsMaxLen {
			res = "exceeds"
		} else if err != nil {
			res = "other:" + err.Error()
		}
		emit(map[string]interface{}{"fn": "send", "len": n, "max": max, "res": res})
	}
	// connections one after the other on a REAL pool: what an earlier connection left unfinished (half a frame, a refused
	// length, the first bytes of a prefix) must not reach the messages of the next one
	sendByteMessage = orig
	st := &vwState{got: make(chan vwGot, 64)}
	cfg := NewConfig()
	cfg.Address, cfg.Port = "127.0.0.1", 0
	pool, err := NewConnectionPool(cfg, st)
	if err != nil {
		t.Fatal(err)
	}
	runDone := make(chan struct{})
	go func() { _ = pool.Run(); close(runDone) }()
	var la string
	for i := 0; i < 400 && la == ""; i++ {
		pool.listenerLock.Lock()
		if pool.listener != nil {
			la = pool.listener.Addr().String()
		}
		pool.listenerLock.Unlock()
		time.Sleep(5 * time.Millisecond)
	}
	if la == "" {
		t.Fatal("the pool does not listen")
	}
	body := func(a uint32) []byte {
		return vwFrame(append(append([]byte{}, vwPrefix[:]...), encoder.Serialize(&vwMsg{A: a, B: []byte{byte(a), 2, 3}})...))
	}
	waitEmpty := func() {
		for i := 0; i < 4000; i++ { // up to 20 s on a loaded machine; returns as soon as the pool is empty
			if n, err := pool.Size(); err == nil && n == 0 {
				return
			}
			time.Sleep(5 * time.Millisecond)
		}
	}
	nconn := count / 20
	if nconn < 12 {
		nconn = 12
	}
	for i := 0; i < nconn; i++ {
		left := []string{"half-frame", "bad-length", "frame-and-prefix-bytes", "nothing", "prefix-only"}[i%5]
		if ca, err := net.DialTimeout("tcp", la, 10*time.Second); err == nil {
			fr := body(uint32(1000 + i))
			switch left {
			case "half-frame":
				_, _ = ca.Write(fr[:len(fr)/2])
			case "bad-length":
				_, _ = ca.Write([]byte{0xff, 0xff, 0xff, 0x7f, 1, 2, 3})
			case "frame-and-prefix-bytes":
				_, _ = ca.Write(append(append([]byte{}, fr...), 9, 0))
			case "prefix-only":
				_, _ = ca.Write([]byte{40, 0, 0, 0})
			}
			time.Sleep(20 * time.Millisecond)
			ca.Close()
		}
		waitEmpty()
		for len(st.got) > 0 {
			<-st.got // what the first connection may have delivered
		}
		sent := []int{2*i + 1, 2*i + 2}
		delivered := []int{}
		if cb, err := net.DialTimeout("tcp", la, 10*time.Second); err == nil {
			_, _ = cb.Write(append(body(uint32(sent[0])), body(uint32(sent[1]))...))
			deadline := time.After(30 * time.Second) // only ever waited out when a message is really lost
		recv:
			for len(delivered) < 2 {
				select {
				case g := <-st.got:
					delivered = append(delivered, int(g.a))
				case <-deadline:
					break recv
				}
			}
			cb.Close()
		} else {
			t.Fatalf("cannot connect to the pool under test: %v", err) // the harness's failure, not a verdict
		}
		waitEmpty()
		emit(map[string]interface{}{"fn": "conns", "left": left, "sent": sent, "delivered": delivered})
	}
	pool.Shutdown()
	<-runDone
	w.Flush()
	f.Close()
}
