package gnet

// Overlaid into /repo/src/daemon/gnet at build time by /verif/check (built with -race); never written to /repo.
// TestVerifPoolRun (C32): a real ConnectionPool (listening on 127.0.0.1, port chosen by the system) is used by several
// goroutines at once (connect to a local echo listener, disconnect, size and connection queries, broadcast) while
// Shutdown is called after a seeded delay - including right at the start of Run.  One record per run for
// specs/pool/PoolRecords.tla: did Shutdown return (watchdog), did every call return, with which class of result, is
// any connection left registered.  Data races are reported by the race detector on stderr.

import (
	"bufio"
	"encoding/json"
	"math/rand"
	"net"
	"os"
	"path/filepath"
	"runtime"
	"sort"
	"strconv"
	"sync"
	"testing"
	"time"

	"github.com/skycoin/skycoin/src/cipher/encoder"
)

type vpRunRec struct {
	Iter             int      `json:"iter"`
	DelayUs          int      `json:"delayUs"`
	Callers          int      `json:"callers"`
	ShutdownReturned bool     `json:"shutdownReturned"`
	RunReturned      bool     `json:"runReturned"`
	CallsReturned    bool     `json:"callsReturned"`
	Calls            int      `json:"calls"`
	Results          []string `json:"results"`
	Registered       int      `json:"registered"`
	Addresses        int      `json:"addresses"`
	Procs            int      `json:"procs"`
	After            []string `json:"after"`
	AfterReturned    bool     `json:"afterReturned"`
	Offline          bool     `json:"offline"`
}

var vpBig = make([]byte, 2<<20)

func TestVerifPoolRun(t *testing.T) {
	out := os.Getenv("VERIF_OUT")
	if out == "" {
		t.Skip("VERIF_OUT not set")
	}
	seed, _ := strconv.ParseInt(os.Getenv("VERIF_SEED"), 10, 64)
	count, _ := strconv.Atoi(os.Getenv("VERIF_COUNT"))
	f, err := os.Create(filepath.Join(out, "pool.ndjson"))
	if err != nil {
		t.Fatal(err)
	}
	w := bufio.NewWriter(f)
	enc := json.NewEncoder(w)
	rng := rand.New(rand.NewSource(seed))

	// a peer to connect to: accepts and holds connections
	ln, err := net.Listen("tcp", "127.0.0.1:0")
	if err != nil {
		t.Fatal(err)
	}
	defer ln.Close()
	prng := rand.New(rand.NewSource(seed + 7))
	var pmu sync.Mutex
	go func() {
		for {
			c, err := ln.Accept()
			if err != nil {
				return
			}
			// network events: a peer that reads, one that does not read at all (our writes block once the buffers
			// are full), and both kinds may keep sending us frames
			pmu.Lock()
			reads, writes := prng.Intn(3) > 0, prng.Intn(2) == 0
			pmu.Unlock()
			if reads {
				go func() {
					buf := make([]byte, 1024)
					for {
						if _, err := c.Read(buf); err != nil {
							c.Close()
							return
						}
					}
				}()
			}
			if writes {
				go func() {
					fr := vwFrame(append(append([]byte{}, vwPrefix[:]...), encoder.Serialize(&vwMsg{A: 7, B: []byte{1}})...))
					for {
						if _, err := c.Write(fr); err != nil {
							c.Close()
							return
						}
						time.Sleep(50 * time.Microsecond)
					}
				}()
			}
			if !reads && !writes {
				go func() {
					time.Sleep(2 * time.Second)
					c.Close()
				}()
			}
		}
	}()
	peer := ln.Addr().String()
	// an address nobody listens on (a listener opened and closed again)
	dl, err := net.Listen("tcp", "127.0.0.1:0")
	if err != nil {
		t.Fatal(err)
	}
	deadPeer := dl.Addr().String()
	dl.Close()
	EraseMessages()
	RegisterMessage(vwPrefix, vwMsg{})
	VerifyMessages()
	frame := func(m *vwMsg) []byte {
		b := append(append([]byte{}, vwPrefix[:]...), encoder.Serialize(m)...)
		return vwFrame(b)
	}

	hung := 0
	for it := 0; it < count && hung < 3; it++ { // three lifetimes that never end are verdict enough (each costs its watchdogs)
		cfg := NewConfig()
		cfg.Address = "127.0.0.1"
		cfg.Port = 0
		cfg.DialTimeout = 500 * time.Millisecond
		// the per-connection write queue: the default, or so short that a peer that does not read fills it at once
		cfg.ConnectionWriteQueueSize = []int{1, 2, cfg.ConnectionWriteQueueSize}[rng.Intn(3)]
		cfg.MaxOutgoingMessageLength = 8 << 20
		p, err := NewConnectionPool(cfg, nil)
		if err != nil {
			t.Fatal(err)
		}
		r := vpRunRec{Iter: it, Callers: 1 + rng.Intn(4), Results: []string{}, After: []string{}}
		r.Procs = []int{1, 2, 4, 8, 16}[rng.Intn(5)]
		prev := runtime.GOMAXPROCS(r.Procs)
		// the delay before Shutdown: zero (overlapping the start of Run), microseconds, or a few milliseconds
		switch rng.Intn(4) {
		case 0:
			r.DelayUs = 0
		case 1:
			r.DelayUs = rng.Intn(200)
		case 2:
			r.DelayUs = 200 + rng.Intn(2000)
		default:
			r.DelayUs = 2000 + rng.Intn(8000)
		}
		if rng.Intn(6) == 0 {
			r.DelayUs = 20000 + rng.Intn(40000) // long enough for a stalled peer's socket and write queue to fill up
		}
		runDone := make(chan struct{})
		// one lifetime in five is the "no incoming connections" mode: requests are processed, nothing listens
		r.Offline = rng.Intn(5) == 0
		go func() {
			if r.Offline {
				_ = p.RunOffline()
			} else {
				_ = p.Run()
			}
			close(runDone)
		}()
		var mu sync.Mutex
		results := map[string]bool{}
		calls := 0
		note := func(kind string, err error) {
			mu.Lock()
			calls++
			switch err {
			case nil:
				results[kind+":ok"] = true
			case ErrConnectionPoolClosed:
				results[kind+":closed"] = true
			default:
				results[kind+":err"] = true
			}
			mu.Unlock()
		}
		stop := make(chan struct{})
		var wg sync.WaitGroup
		for c := 0; c < r.Callers; c++ {
			wg.Add(1)
			crng := rand.New(rand.NewSource(seed*1000 + int64(it*10+c)))
			go func() {
				defer wg.Done()
				for {
					select {
					case <-stop:
						return
					default:
					}
					// scheduling noise
					switch crng.Intn(8) {
					case 0:
						runtime.Gosched()
					case 1:
						time.Sleep(time.Duration(crng.Intn(100)) * time.Microsecond)
					}
					switch crng.Intn(13) {
					case 12:
						// a peer that is not there: the dial is refused
						note("connect-refused", p.Connect(deadPeer))
					case 6:
						if k := crng.Intn(16); k == 0 {
							note("send", p.SendMessage(peer, &vwMsg{A: 1, B: vpBig})) // a few of these are more than the socket of a peer that does not read takes
						} else if k < 6 {
							note("send", p.SendMessage(peer, &vwMsg{A: 1, B: make([]byte, 200*1024)}))
						} else {
							note("send", p.SendMessage(peer, &vwMsg{A: 1, B: []byte{1, 2, 3}}))
						}
					case 7:
						_, err := p.BroadcastMessage(&vwMsg{A: 2}, []string{peer, "127.0.0.1:1"})
						note("broadcast", err)
					case 8:
						note("pings", p.SendPings(0, &vwMsg{A: 3}))
					case 9:
						_, err := p.ListeningAddress()
						if err != nil {
							err = nil // not listening (yet, or any more)
						}
						note("listening", err)
					case 10:
						// a network event: somebody connects to us, sends a message and perhaps garbage, and leaves
						p.listenerLock.Lock()
						var la string
						if p.listener != nil {
							la = p.listener.Addr().String()
						}
						p.listenerLock.Unlock()
						if la != "" {
							if c, err := net.DialTimeout("tcp", la, 200*time.Millisecond); err == nil {
								c.Write(frame(&vwMsg{A: 4, B: []byte{9}})) // nolint: errcheck
								if crng.Intn(2) == 0 {
									c.Write([]byte{0xff, 0xff, 0xff, 0xff, 1}) // nolint: errcheck
								}
								if crng.Intn(2) == 0 {
									time.Sleep(time.Duration(crng.Intn(300)) * time.Microsecond)
								}
								c.Close()
							}
						}
						note("incoming", nil)
					case 11:
						note("clearstale", func() error { _, err := p.GetStaleConnections(0); return err }())
					case 0:
						note("connect", p.Connect(peer))
					case 1:
						_, err := p.Size()
						note("size", err)
					case 2:
						_, err := p.GetConnections()
						note("connections", err)
					case 3:
						note("disconnect", p.Disconnect(peer, ErrDisconnectMalformedMessage))
					case 4:
						_, err := p.GetConnection(peer)
						note("connection", err)
					case 5:
						_, err := p.GetStaleConnections(time.Hour)
						note("stale", err)
					}
				}
			}()
		}
		time.Sleep(time.Duration(r.DelayUs) * time.Microsecond)
		shutDone := make(chan struct{})
		go func() {
			p.Shutdown()
			close(shutDone)
		}()
		select {
		case <-shutDone:
			r.ShutdownReturned = true
		case <-time.After(30 * time.Second):
		}
		close(stop)
		callersDone := make(chan struct{})
		go func() { wg.Wait(); close(callersDone) }()
		select {
		case <-callersDone:
			r.CallsReturned = true
		case <-time.After(30 * time.Second):
		}
		select {
		case <-runDone:
			r.RunReturned = true
		case <-time.After(6 * time.Second):
		}
		if r.ShutdownReturned && r.CallsReturned {
			r.Registered, r.Addresses = len(p.pool), len(p.addresses)
		}
		// once Shutdown has returned every operation answers, and answers that the pool is closed
		if r.ShutdownReturned && r.CallsReturned {
			afterDone := make(chan struct{})
			var after []string
			go func() {
				cls := func(kind string, err error) {
					switch err {
					case nil:
						after = append(after, kind+":ok")
					case ErrConnectionPoolClosed:
						after = append(after, kind+":closed")
					default:
						after = append(after, kind+":err")
					}
				}
				cls("connect", p.Connect(peer))
				_, err := p.Size()
				cls("size", err)
				_, err = p.GetConnections()
				cls("connections", err)
				cls("disconnect", p.Disconnect(peer, ErrDisconnectMalformedMessage))
				cls("send", p.SendMessage(peer, &vwMsg{A: 1}))
				_, err = p.BroadcastMessage(&vwMsg{A: 2}, []string{peer})
				cls("broadcast", err)
				cls("pings", p.SendPings(0, &vwMsg{A: 3}))
				close(afterDone)
			}()
			select {
			case <-afterDone:
				r.AfterReturned = true
				r.After = after
			case <-time.After(30 * time.Second):
			}
		}
		runtime.GOMAXPROCS(prev)
		mu.Lock()
		r.Calls = calls
		for k := range results {
			r.Results = append(r.Results, k)
		}
		sort.Strings(r.Results)
		mu.Unlock()
		if err := enc.Encode(r); err != nil {
			t.Fatal(err)
		}
		w.Flush()
		if !r.ShutdownReturned {
			hung++
			// a hung pool keeps its listener: make it let go so that the next iteration is not disturbed
			p.listenerLock.Lock()
			if p.listener != nil {
				p.listener.Close()
			}
			p.listenerLock.Unlock()
		}
	}
	w.Flush()
	f.Close()
}
