package pex

// Overlaid into /repo/src/daemon/pex at build time by /verif/check; never written to /repo.
// TestVerifPex runs seeded random operation sequences on a real Pex (peers.json in a scratch directory) and writes one
// record per operation {pre, op, args, res, post} for specs/pex/PexRecords.tla.  Address arguments are built from classes
// (what the address IS is logged, the verdict is TLC's); peers are aged by setting LastSeen, which is what time does.

import (
	"bufio"
	"encoding/json"
	"fmt"
	"github.com/skycoin/skycoin/src/util/useragent"
	"io/ioutil"
	"math/rand"
	"os"
	"path/filepath"
	"regexp"
	"sort"
	"strconv"
	"testing"
	"time"
)

type vxArg struct {
	Raw   string `json:"raw"`
	Clean string `json:"clean"`
	Class string `json:"class"`
	Port  int    `json:"port"`
}

type vxPeer struct {
	Addr    string `json:"addr"`
	Trusted bool   `json:"trusted"`
	Ago     int64  `json:"ago"`
	Retry   int    `json:"retry"`
}

type vxRec struct {
	Seq        int      `json:"seq"`
	Step       int      `json:"step"`
	Op         string   `json:"op"`
	Max        int      `json:"max"`
	AllowLocal bool     `json:"allowLocal"`
	Expiration int64    `json:"expiration"`
	Args       []vxArg  `json:"args"`
	Res        string   `json:"res"`
	N          int      `json:"n"`
	Pre        []vxPeer `json:"pre"`
	Post       []vxPeer `json:"post"`
}

var vxWS = regexp.MustCompile(`\s`)

func vxMkArg(rng *rand.Rand) vxArg {
	type ipc struct{ ip, class string }
	ips := []ipc{{"8.8.8.8", "unicast4"}, {"10.0.0.5", "unicast4"}, {"192.168.1.7", "unicast4"}, {"52.1.2.3", "unicast4"}, {"172.16.9.9", "unicast4"},
		{"8.8.4.4", "unicast4"}, {"9.9.9.9", "unicast4"}, {"127.0.0.1", "loopback"}, {"127.9.8.7", "loopback"}, {"0.0.0.0", "unspecified"},
		{"224.0.0.1", "multicast"}, {"255.255.255.255", "broadcast"}, {"169.254.1.1", "linklocal"}, {"2001:db8::1", "ipv6"}, {"[2001:db8::1]", "ipv6"},
		{"::1", "ipv6"}, {"example.com", "notip"}, {"1.2.3", "notip"}, {"256.1.1.1", "notip"}, {"", "notip"}, {"1.2.3.4.5", "notip"}}
	x := ips[rng.Intn(len(ips))]
	if rng.Intn(3) > 0 {
		x = ips[rng.Intn(7)]
	}
	ports := []string{"6000", "6001", "1024", "65535", "1023", "0", "65536", "-1", "x", "", "80", "99999", "6000 ", "06000"}
	ps := ports[rng.Intn(len(ports))]
	if rng.Intn(3) > 0 {
		ps = ports[rng.Intn(4)]
	}
	raw := x.ip + ":" + ps
	switch rng.Intn(14) {
	case 0:
		raw = x.ip // no port
		x.class = "notip"
	case 1:
		raw = x.ip + ":" + ps + ":1"
		x.class = "notip"
	case 2:
		raw = " " + x.ip + " :" + ps + "\t" // whitespace is removed before parsing
	}
	clean := vxWS.ReplaceAllString(raw, "")
	port := -1
	if n, err := strconv.ParseUint(vxWS.ReplaceAllString(ps, ""), 10, 16); err == nil {
		port = int(n)
	}
	return vxArg{Raw: raw, Clean: clean, Class: x.class, Port: port}
}

func vxProj(px *Pex) []vxPeer {
	now := time.Now().UTC().Unix()
	out := []vxPeer{}
	px.RLock()
	for _, p := range px.peerlist.peers {
		ago := now - p.LastSeen
		if ago < 3600 {
			ago = 0 // the seconds this run takes do not matter; assigned ages are hours apart
		} else {
			ago = (ago + 5) / 10 * 10 // assigned ages are multiples of 10 s
		}
		out = append(out, vxPeer{Addr: p.Addr, Trusted: p.Trusted, Ago: ago, Retry: p.RetryTimes})
	}
	px.RUnlock()
	sort.Slice(out, func(i, j int) bool { return out[i].Addr < out[j].Addr })
	return out
}

func TestVerifPex(t *testing.T) {
	out := os.Getenv("VERIF_OUT")
	if out == "" {
		t.Skip("VERIF_OUT not set")
	}
	seed, _ := strconv.ParseInt(os.Getenv("VERIF_SEED"), 10, 64)
	nseq, _ := strconv.Atoi(os.Getenv("VERIF_COUNT"))
	f, err := os.Create(filepath.Join(out, "pex.ndjson"))
	if err != nil {
		t.Fatal(err)
	}
	w := bufio.NewWriter(f)
	enc := json.NewEncoder(w)
	for s := 0; s < nseq; s++ {
		rng := rand.New(rand.NewSource(seed*5000011 + int64(s)))
		dir, err := ioutil.TempDir("", "verifpex")
		if err != nil {
			t.Fatal(err)
		}
		cfg := NewConfig()
		cfg.DataDirectory = dir
		cfg.Max = []int{2, 3, 4, 0}[rng.Intn(4)]
		if rng.Intn(8) > 0 && cfg.Max == 0 {
			cfg.Max = 3
		}
		cfg.AllowLocalhost = rng.Intn(2) == 0
		cfg.DownloadPeerList = false
		cfg.Expiration = 7 * 24 * time.Hour
		cfg.DefaultConnections = nil
		px, err := New(cfg)
		if err != nil {
			t.Fatal(err)
		}
		ageN := 0
		// a burst of failed connection attempts to one peer (more than the retry limit), preferably a trusted one, then a clean-up
		burstLeft, burstAddr, burst := 0, "", s%3 == 0
		for step := 0; step < 30; step++ {
			r := vxRec{Seq: s, Step: step, Max: cfg.Max, AllowLocal: cfg.AllowLocalhost, Expiration: int64(cfg.Expiration / time.Second), Args: []vxArg{}, Pre: vxProj(px)}
			known := func() string {
				if len(r.Pre) == 0 || rng.Intn(6) == 0 {
					return vxMkArg(rng).Raw
				}
				return r.Pre[rng.Intn(len(r.Pre))].Addr
			}
			k := rng.Intn(24)
			if burst && step == 12 && len(r.Pre) > 0 {
				burstLeft, burstAddr = 12, r.Pre[rng.Intn(len(r.Pre))].Addr
				for _, p := range r.Pre {
					if p.Trusted {
						burstAddr = p.Addr
					}
				}
			}
			if burstLeft > 0 {
				k = 14
			} else if burst && step == 24 {
				k = 18 // clear old
			}
			switch {
			case k < 7:
				r.Op = "add"
				a := vxMkArg(rng)
				if rng.Intn(5) == 0 && len(r.Pre) > 0 {
					p := r.Pre[rng.Intn(len(r.Pre))]
					a = vxArg{Raw: p.Addr, Clean: p.Addr, Class: "known", Port: 0}
				}
				r.Args = []vxArg{a}
				switch err := px.AddPeer(a.Raw); err {
				case nil:
					r.Res = "ok"
				case ErrInvalidAddress:
					r.Res = "invalid"
				case ErrPeerlistFull:
					r.Res = "full"
				default:
					r.Res = "other:" + err.Error()
				}
			case k < 10:
				r.Op = "bulk"
				var raws []string
				for i := 0; i < 1+rng.Intn(5); i++ {
					a := vxMkArg(rng)
					if rng.Intn(4) == 0 && len(r.Pre) > 0 {
						// a peer that is already listed (a trusted one if there is any) named again in a peers message
						p := r.Pre[rng.Intn(len(r.Pre))]
						for _, q := range r.Pre {
							if q.Trusted && rng.Intn(2) == 0 {
								p = q
							}
						}
						a = vxArg{Raw: p.Addr, Clean: p.Addr, Class: "known", Port: 0}
					}
					r.Args = append(r.Args, a)
					raws = append(raws, a.Raw)
				}
				r.N = px.AddPeers(raws)
				r.Res = "ok"
			case k < 12:
				r.Op = "remove"
				a := known()
				r.Args = []vxArg{{Raw: a, Clean: a}}
				px.RemovePeer(a)
				r.Res = "ok"
			case k < 14:
				r.Op = "trust"
				a := known()
				r.Args = []vxArg{{Raw: a, Clean: vxWS.ReplaceAllString(a, "")}}
				if err := px.setTrusted(a); err != nil {
					r.Res = "err"
				} else {
					r.Res = "ok"
				}
			case k < 15:
				r.Op = "retry"
				a := known()
				if burstLeft > 0 {
					a = burstAddr
					burstLeft--
				}
				r.Args = []vxArg{{Raw: a, Clean: a}}
				px.IncreaseRetryTimes(a)
				r.Res = "ok"
			case k < 16:
				r.Op = "resetretry"
				a := known()
				r.Args = []vxArg{{Raw: a, Clean: a}}
				px.ResetRetryTimes(a)
				r.Res = "ok"
			case k < 18:
				// time passes for one peer: it was last seen a day+ or a week+ ago (distinct ages, 10 s apart)
				r.Op = "age"
				if len(r.Pre) == 0 {
					continue
				}
				a := r.Pre[rng.Intn(len(r.Pre))].Addr
				ageN++
				ago := int64(86400 + 600 + 10*ageN)
				if rng.Intn(2) == 0 {
					ago = int64(7*86400 + 600 + 10*ageN)
				}
				r.Args = []vxArg{{Raw: a, Clean: a, Port: int(ago)}}
				px.Lock()
				px.peerlist.peers[a].LastSeen = time.Now().UTC().Unix() - ago
				px.Unlock()
				r.Res = "ok"
			case k < 19:
				// what Run does on its timer
				r.Op = "clear"
				px.Lock()
				px.peerlist.clearOld(px.Config.Expiration)
				px.Unlock()
				r.Res = "ok"
			case k == 20 || k == 21:
				// what the daemon records about a peer after its introduction: only a listed peer, only that peer, is touched
				a := known()
				if rng.Intn(4) == 0 {
					a = " " + a + " "
				}
				r.Args = []vxArg{{Raw: a, Clean: vxWS.ReplaceAllString(a, "")}}
				var err error
				if k == 20 {
					r.Op = "hasport"
					err = px.SetHasIncomingPort(a, rng.Intn(2) == 0)
				} else {
					r.Op = "useragent"
					ua := useragent.Data{Coin: "skycoin", Version: "0.27.0"}
					if rng.Intn(3) == 0 {
						ua = useragent.Data{Coin: "sky coin\n", Version: "x"} // cannot be built into a user agent string
						r.N = 1
					}
					err = px.SetUserAgent(a, ua)
				}
				r.Res = "ok"
				if err != nil {
					r.Res = "err"
				}
			case k == 22:
				r.Op = "resetall"
				px.ResetAllRetryTimes()
				r.Res = "ok"
			case k == 23:
				r.Op = "isfull"
				r.Res = fmt.Sprint(px.IsFull())
				r.N = len(px.AllTrusted())
			default:
				// restart: the list is saved and a new Pex loads it
				r.Op = "reload"
				if err := px.save(); err != nil {
					t.Fatal(err)
				}
				px2, err := New(cfg)
				if err != nil {
					r.Res = "err:" + err.Error()
				} else {
					px = px2
					r.Res = "ok"
				}
			}
			r.Post = vxProj(px)
			if err := enc.Encode(r); err != nil {
				t.Fatal(err)
			}
		}
		os.RemoveAll(dir)
	}
	w.Flush()
	f.Close()
	_ = fmt.Sprint
}
