package api

// Overlaid into /repo/src/api at build time by /verif/check; never written to /repo.
// TestVerifGate (C27): the real server mux (api.create) is asked every documented route x method under seeded
// configurations and header classes.  The gateway behind it is the package's stub: if an endpoint's logic is reached
// and calls it, the stub panics, which is caught here and logged as "reached".  One record per request for
// specs/api/ApiRecords.tla.  The route list is read from the specification's table (VERIF_ROUTES), not from the code.

import (
	"bufio"
	"crypto/hmac"
	"crypto/sha256"
	"encoding/base64"
	"encoding/json"
	"io/ioutil"
	"math/rand"
	"net/http"
	"net/http/httptest"
	"os"
	"path/filepath"
	"strconv"
	"strings"
	"testing"
	"time"
)

type vgCfg struct {
	Enabled            []string `json:"enabled"`
	DisableCSRF        bool     `json:"disableCSRF"`
	DisableHeaderCheck bool     `json:"disableHeaderCheck"`
	Creds              bool     `json:"creds"`
	Public             bool     `json:"public"`
}

type vgRec struct {
	URI     string `json:"uri"`
	Method  string `json:"method"`
	Cfg     vgCfg  `json:"cfg"`
	Auth    string `json:"auth"`
	Host    string `json:"host"`
	Origin  string `json:"origin"`
	Referer string `json:"referer"`
	Token   string `json:"token"`
	Ctype   string `json:"ctype"`
	Status  int    `json:"status"`
	Gate    string `json:"gate"`
	Reached bool   `json:"reached"`
	Body    string `json:"body"`
}

func TestVerifGate(t *testing.T) {
	out := os.Getenv("VERIF_OUT")
	if out == "" {
		t.Skip("VERIF_OUT not set")
	}
	seed, _ := strconv.ParseInt(os.Getenv("VERIF_SEED"), 10, 64)
	count, _ := strconv.Atoi(os.Getenv("VERIF_COUNT"))
	raw, err := ioutil.ReadFile(os.Getenv("VERIF_ROUTES"))
	if err != nil {
		t.Fatal(err)
	}
	var routes []string
	if err := json.Unmarshal(raw, &routes); err != nil {
		t.Fatal(err)
	}
	f, err := os.Create(filepath.Join(out, "gate.ndjson"))
	if err != nil {
		t.Fatal(err)
	}
	w := bufio.NewWriter(f)
	enc := json.NewEncoder(w)
	rng := rand.New(rand.NewSource(seed))
	allSets := []string{EndpointsRead, EndpointsStatus, EndpointsTransaction, EndpointsWallet, EndpointsInsecureWalletSeed, "PROMETHEUS", EndpointsNetCtrl, EndpointsStorage}
	const white = "trusted.example.com"
	for c := 0; c < count; c++ {
		// the interface the API is bound to: loopback (Host header checked, both localhost spellings are the node's own origin)
		// or a public address (no Host check; only the configured host and the whitelist are acceptable origins)
		cfg := vgCfg{Enabled: []string{}, DisableCSRF: rng.Intn(4) == 0, DisableHeaderCheck: rng.Intn(4) == 0, Creds: rng.Intn(3) == 0, Public: rng.Intn(3) == 0}

		enabled := map[string]struct{}{}
		for _, s := range allSets {
			if rng.Intn(3) == 0 {
				enabled[s] = struct{}{}
				cfg.Enabled = append(cfg.Enabled, s)
			}
		}
		if c < 2 {
			// two fixed configurations that every run contains: only WALLET / only INSECURE_WALLET_SEED enabled, all checks on
			cfg = vgCfg{Enabled: []string{[]string{EndpointsWallet, EndpointsInsecureWalletSeed}[c]}}
			enabled = map[string]struct{}{cfg.Enabled[0]: {}}
		}
		host := "127.0.0.1:6420"
		if cfg.Public {
			host = "192.168.1.5:6420"
		}
		conf := Config{DisableCSRF: cfg.DisableCSRF, DisableHeaderCheck: cfg.DisableHeaderCheck, DisableCSP: true, EnabledAPISets: enabled, HostWhitelist: []string{white}}
		if cfg.Creds {
			conf.Username, conf.Password = "user", "pass"
		}
		srv, err := create(host, conf, &MockGatewayer{})
		if err != nil {
			t.Fatal(err)
		}
		// in the very first configuration of the process nothing has issued a CSRF token yet when the first requests arrive:
		// a token forged under the empty key must be refused then as well (whatever is set up lazily must not be missing)
		older := ""
		if c > 0 {
			older, _ = newCSRFToken()
		}
		for k := 0; k < 60; k++ {
			if c == 0 && k == 3 {
				older, _ = newCSRFToken()
			}
			r := vgRec{URI: routes[rng.Intn(len(routes))], Method: []string{"GET", "POST", "PUT", "DELETE", "GET", "POST"}[rng.Intn(6)], Cfg: cfg}
			pick := func(good string, others ...string) string {
				if rng.Intn(4) > 0 {
					return good
				}
				return others[rng.Intn(len(others))]
			}
			if cfg.Creds {
				r.Auth = pick("exact", "none", "wrong-pass", "wrong-user", "split", "empty")
			} else {
				r.Auth = pick("none", "exact", "empty")
			}
			r.Host = pick("configured", "localhost-name", "foreign", "whitelisted", "empty")
			r.Origin = pick("none", "own", "foreign", "unparsable", "whitelisted", "localhost-alias", "loopback-alias")
			r.Referer = pick("none", "own", "foreign", "whitelisted", "localhost-alias")
			r.Token = pick("valid", "none", "expired", "garbage", "tampered", "older", "forged-empty-key", "forged-other-key")
			r.Ctype = pick("json", "json-charset", "text", "none")
			k0 := k
			if c == 0 {
				k0 = k - 3 // the first three requests of the process are the forged-token probes below
			}
			if c < 2 && k0 >= 0 && k0 < 2 {
				// ... and in them a fully valid POST to the wallet-recover endpoint, once with the newest and once with an older token
				r.URI, r.Method, r.Auth, r.Host, r.Origin, r.Referer, r.Ctype, r.Token = "/api/v2/wallet/recover", "POST", "none", "configured", "none", "none", "json", "valid"
				if k0 == 1 {
					r.URI, r.Token = "/api/v1/wallet/create", "older"
				}
			}
			if c == 0 && k < 3 {
				r.URI, r.Method, r.Auth, r.Host, r.Origin, r.Referer, r.Ctype = []string{"/api/v1/wallet/create", "/api/v1/wallet/unload", "/api/v1/wallet/encrypt"}[k], "POST", "none", "configured", "none", "none", "json"
				r.Token = []string{"forged-empty-key", "forged-empty-key", "forged-other-key"}[k]
			}
			req := httptest.NewRequest(r.Method, "http://"+host+r.URI, strings.NewReader("{}"))
			switch r.Auth {
			case "exact":
				req.SetBasicAuth("user", "pass")
			case "wrong-pass":
				req.SetBasicAuth("user", "pasS")
			case "wrong-user":
				req.SetBasicAuth("usex", "pass")
			case "split":
				req.SetBasicAuth("userp", "ass") // the same characters, split differently
			case "empty":
				req.SetBasicAuth("", "")
			}
			req.Host = map[string]string{"configured": host, "localhost-name": "localhost:6420", "foreign": "evil.example.com", "whitelisted": white, "empty": ""}[r.Host]
			hv := map[string]string{"own": "http://" + host, "foreign": "http://evil.example.com", "unparsable": "http://[::bad", "whitelisted": "http://" + white + "/x",
				"localhost-alias": "http://localhost:6420", "loopback-alias": "http://127.0.0.1:6420"}
			if r.Origin != "none" {
				req.Header.Set("Origin", hv[r.Origin])
			}
			if r.Referer != "none" {
				req.Header.Set("Referer", hv[r.Referer]+"/page")
			}
			switch r.Token {
			case "valid":
				tok, _ := newCSRFToken() // the most recently issued token
				req.Header.Set(CSRFHeaderName, tok)
			case "older":
				_, _ = newCSRFToken() // a newer one exists
				req.Header.Set(CSRFHeaderName, older)
			case "expired":
				tok, _ := newCSRFTokenWithTime(time.Now().Add(-time.Second))
				req.Header.Set(CSRFHeaderName, tok)
			case "forged-empty-key", "forged-other-key":
				// a well-formed, unexpired token that this node did not issue: signed under the empty key / under somebody else's key
				key := []byte{}
				if r.Token == "forged-other-key" {
					key = []byte("a key this node never had, sixty-four bytes long if that mattered..")
				}
				tj, _ := json.Marshal(&CSRFToken{Nonce: []byte("0123456789abcdef0123456789abcdef0123456789abcdef0123456789abcdef"), ExpiresAt: time.Now().Add(20 * time.Second)})
				h := hmac.New(sha256.New, key)
				_, _ = h.Write(tj)
				req.Header.Set(CSRFHeaderName, base64.RawURLEncoding.EncodeToString(tj)+"."+base64.RawURLEncoding.EncodeToString(h.Sum(nil)))
			case "garbage":
				req.Header.Set(CSRFHeaderName, "not-a-token")
			case "tampered":
				tok, _ := newCSRFToken()
				b := []byte(tok)
				b[len(b)-3] ^= 1
				req.Header.Set(CSRFHeaderName, string(b))
			}
			switch r.Ctype {
			case "json":
				req.Header.Set("Content-Type", "application/json")
			case "json-charset":
				req.Header.Set("Content-Type", "application/json; charset=utf-8")
			case "text":
				req.Header.Set("Content-Type", "text/plain")
			}
			rec := httptest.NewRecorder()
			func() {
				defer func() {
					if p := recover(); p != nil {
						r.Reached = true // the stub gateway was called: the endpoint's logic ran
					}
				}()
				srv.server.Handler.ServeHTTP(rec, req)
			}()
			if r.Reached {
				r.Status = 200
			} else {
				r.Status = rec.Code
				body := rec.Body.String()
				if len(body) > 200 {
					body = body[:200]
				}
				r.Body = strings.TrimSpace(body)
				switch {
				case strings.Contains(body, "Invalid Host"):
					r.Gate = "host"
				case strings.Contains(body, "Invalid Origin or Referer"), strings.Contains(body, "Invalid URL in Origin or Referer header"):
					r.Gate = "origin"
				case strings.Contains(body, "Endpoint is disabled"):
					r.Gate = "disabled"
				case strings.Contains(strings.ToLower(body), "csrf"), strings.Contains(body, "illegal base64"), strings.Contains(body, "invalid character"):
					r.Gate = "csrf"
				}
			}
			if err := enc.Encode(r); err != nil {
				t.Fatal(err)
			}
		}
	}
	w.Flush()
	f.Close()
	_ = http.StatusOK
}
