package skycoin

// Overlaid into /repo/src/skycoin at build time by /verif/check (go test -overlay); never written to /repo.
// TestVerifStartup runs the node's real start-up sequence on a database file (visor.OpenDB, checkAndUpdateDB with
// the real dbVerify, visor.New, Init) for seeded sequences of node binaries - release, pre-release and build-tagged
// versions, with and without -verify-db - each stopped abruptly after one of its commits (the file is copied by the
// commit hook) or after all of them.  One "start" record per start for specs/startup/StartupRecords.tla: the version
// recorded in the file before and after (the raw text, parsed here - not by the semver library), whether the start
// was let through, how often the integrity verification ran, whether the rest of the start-up succeeded.

import (
	"bufio"
	"encoding/json"
	"fmt"
	"io"
	"io/ioutil"
	"math/rand"
	"os"
	"path/filepath"
	"strconv"
	"strings"
	"testing"

	"github.com/blang/semver"

	"github.com/skycoin/skycoin/src/cipher"
	"github.com/skycoin/skycoin/src/coin"
	"github.com/skycoin/skycoin/src/params"
	"github.com/skycoin/skycoin/src/util/logging"
	"github.com/skycoin/skycoin/src/visor"
	"github.com/skycoin/skycoin/src/visor/dbutil"
)

type vsID struct {
	Num bool  `json:"num"`
	N   int   `json:"n"`
	Cs  []int `json:"cs"`
}

type vsVer struct {
	None  bool   `json:"none"`
	Text  string `json:"text"`
	Core  []int  `json:"core"`
	Pre   []vsID `json:"pre"`
	Build []vsID `json:"build"`
}

func vsIDs(s string) []vsID {
	out := []vsID{}
	if s == "" {
		return out
	}
	for _, f := range strings.Split(s, ".") {
		id := vsID{Cs: []int{}}
		n, err := strconv.Atoi(f)
		if err == nil && n >= 0 && (f == "0" || f[0] != '0') && f[0] != '+' {
			id.Num, id.N = true, n
		} else {
			for _, c := range []byte(f) {
				id.Cs = append(id.Cs, int(c))
			}
		}
		out = append(out, id)
	}
	return out
}

// vsParse reads MAJOR.MINOR.PATCH[-pre][+build] (the texts used here are well formed)
func vsParse(text string) vsVer {
	v := vsVer{Text: text, Core: []int{}, Pre: []vsID{}, Build: []vsID{}}
	rest := text
	if i := strings.Index(rest, "+"); i >= 0 {
		v.Build = vsIDs(rest[i+1:])
		rest = rest[:i]
	}
	if i := strings.Index(rest, "-"); i >= 0 {
		v.Pre = vsIDs(rest[i+1:])
		rest = rest[:i]
	}
	for _, f := range strings.Split(rest, ".") {
		n, _ := strconv.Atoi(f)
		v.Core = append(v.Core, n)
	}
	return v
}

func vsStored(t *testing.T, path string) vsVer {
	db, err := visor.OpenDB(path, true)
	if err != nil {
		t.Fatal(err)
	}
	defer db.Close()
	var raw []byte
	_ = db.View("verif version", func(tx *dbutil.Tx) error {
		b, err := dbutil.GetBucketValue(tx, visor.MetaBkt, []byte("version"))
		if err == nil && b != nil {
			raw = append([]byte{}, b...)
		}
		return nil
	})
	if raw == nil {
		return vsVer{None: true, Core: []int{}, Pre: []vsID{}, Build: []vsID{}}
	}
	return vsParse(string(raw))
}

type vsCounting struct {
	dbVerify
	checks int
	enter  func() // called when the verification is entered
}

func (c *vsCounting) CheckDatabase(db *dbutil.DB) error {
	c.checks++
	c.enter()
	return c.dbVerify.CheckDatabase(db)
}

func (c *vsCounting) ResetCorruptDB(db *dbutil.DB) (*dbutil.DB, error) {
	c.checks++
	c.enter()
	return c.dbVerify.ResetCorruptDB(db)
}

// one line of startup_trace.ndjson (specs/startup/TraceStartup.tla)
type vsEvent struct {
	Ev         string `json:"ev"`
	Seq        int    `json:"seq"`
	Step       int    `json:"step"`
	App        vsVer  `json:"app"`
	Checkpoint vsVer  `json:"checkpoint"`
	Stored     vsVer  `json:"stored"`
	Force      bool   `json:"force"`
	Refused    bool   `json:"refused"`
}

func vsCopy(t *testing.T, src, dst string) {
	in, err := os.Open(src)
	if err != nil {
		t.Fatal(err)
	}
	defer in.Close()
	out, err := os.Create(dst)
	if err != nil {
		t.Fatal(err)
	}
	if _, err := io.Copy(out, in); err != nil {
		t.Fatal(err)
	}
	out.Close()
}

type vsRec struct {
	Fn          string   `json:"fn"`
	Seq         int      `json:"seq"`
	Step        int      `json:"step"`
	App         vsVer    `json:"app"`
	Checkpoint  vsVer    `json:"checkpoint"`
	Force       bool     `json:"force"`
	Reset       bool     `json:"reset"`
	Before      vsVer    `json:"before"`
	After       vsVer    `json:"after"`
	Opened      bool     `json:"opened"`
	Err         string   `json:"err"`
	VerifyCalls int      `json:"verifyCalls"`
	InitOK      bool     `json:"initOK"`
	InitErr     string   `json:"initErr"`
	HeadSeq     int      `json:"headSeq"`
	ExpectHead  int      `json:"expectHead"`
	Commits     []string `json:"commits"`
	CrashAfter  int      `json:"crashAfter"`
	SameAsLast  bool     `json:"sameAsLastWriter"`
}

func TestVerifStartup(t *testing.T) {
	out := os.Getenv("VERIF_OUT")
	if out == "" {
		t.Skip("VERIF_OUT not set")
	}
	if os.Getenv("VERIF_LOG") == "" {
		logging.Disable()
	}
	seed, _ := strconv.ParseInt(os.Getenv("VERIF_SEED"), 10, 64)
	nseq, _ := strconv.Atoi(os.Getenv("VERIF_COUNT"))
	f, err := os.Create(filepath.Join(out, "startup.ndjson"))
	if err != nil {
		t.Fatal(err)
	}
	w := bufio.NewWriter(f)
	defer func() { w.Flush(); f.Close() }()
	enc := json.NewEncoder(w)
	tf, err := os.Create(filepath.Join(out, "startup_trace.ndjson"))
	if err != nil {
		t.Fatal(err)
	}
	tw := bufio.NewWriter(tf)
	defer func() { tw.Flush(); tf.Close() }()
	tenc := json.NewEncoder(tw)
	noVer := vsVer{None: true, Core: []int{}, Pre: []vsID{}, Build: []vsID{}}

	pool := []string{"0.26.0", "0.27.0-1", "0.27.0-2", "0.27.0-10", "0.27.0-alpha", "0.27.0-alpha.1", "0.27.0-alpha.beta", "0.27.0-beta", "0.27.0-beta.2", "0.27.0-beta.11",
		"0.27.0-rc1", "0.27.0-rc.1", "0.27.0-rc.1+b7", "0.27.0-rc.2", "0.27.0", "0.27.0+build.5", "0.27.1-rc1", "0.27.1-rc1+exp.sha.5114f85", "0.27.1", "0.28.0-rc.1", "1.0.0-0.3.7", "1.0.0-x.7.z.92", "1.0.0"}
	checkpoints := []string{"0.25.0", "0.27.0-rc.1", "0.27.0", "0.27.1", DBVerifyCheckpointVersion}

	for s := 0; s < nseq; s++ {
		rng := rand.New(rand.NewSource(seed*1000003 + int64(s)))
		dir, err := ioutil.TempDir("", "verifstart")
		if err != nil {
			t.Fatal(err)
		}
		file := filepath.Join(dir, "data.db")
		bpk, bsk := cipher.MustGenerateDeterministicKeyPair([]byte(fmt.Sprintf("pub-%d", rng.Int63())))
		gpk, gsk := cipher.MustGenerateDeterministicKeyPair([]byte(fmt.Sprintf("gen-%d", rng.Int63())))
		gaddr := cipher.AddressFromPubKey(gpk)
		vcfg := visor.NewConfig()
		vcfg.IsBlockPublisher = true
		vcfg.BlockchainPubkey = bpk
		vcfg.BlockchainSeckey = bsk
		vcfg.GenesisAddress = gaddr
		vcfg.GenesisTimestamp = 1000000
		vcfg.GenesisCoinVolume = 100e12
		vcfg.Distribution = params.MainNetDistribution
		checkpoint := checkpoints[rng.Intn(len(checkpoints))]
		// the binaries of this file's life: a few versions, mostly the same one again (a restart), sometimes another
		mine := []string{pool[rng.Intn(len(pool))], pool[rng.Intn(len(pool))], pool[rng.Intn(len(pool))]}
		app := mine[0]
		lastWriter := ""
		expectHead := 0
		when := uint64(1000000)
		nsteps := 4 + rng.Intn(5)
		emitEv := func(e vsEvent) {
			e.Seq = s
			if e.App.Core == nil {
				e.App = noVer
			}
			if e.Checkpoint.Core == nil {
				e.Checkpoint = noVer
			}
			if e.Stored.Core == nil {
				e.Stored = noVer
			}
			if err := tenc.Encode(e); err != nil {
				t.Fatal(err)
			}
		}
		emitEv(vsEvent{Ev: "reset", Checkpoint: vsParse(checkpoint)})
		for step := 0; step < nsteps; step++ {
			if step > 0 && rng.Intn(3) == 0 {
				app = mine[rng.Intn(len(mine))]
			}
			r := vsRec{Fn: "start", Seq: s, Step: step, App: vsParse(app), Checkpoint: vsParse(checkpoint), Force: rng.Intn(4) == 0, Reset: rng.Intn(6) == 0,
				Commits: []string{}, SameAsLast: app == lastWriter, ExpectHead: expectHead}
			if _, err := os.Stat(file); err == nil {
				r.Before = vsStored(t, file)
			} else {
				r.Before = vsVer{None: true, Core: []int{}, Pre: []vsID{}, Build: []vsID{}}
			}
			// images of the file right after each commit of this start
			var images []string
			gateSeen := false
			passGate := func() {
				if !gateSeen {
					gateSeen = true
					emitEv(vsEvent{Ev: "gate", Step: step, Refused: false})
				}
			}
			dbutil.VerifCommitHook = func(name string) {
				img := filepath.Join(dir, fmt.Sprintf("img-%d-%d", step, len(images)))
				vsCopy(t, file, img)
				images = append(images, img)
				r.Commits = append(r.Commits, name)
				if name == "SetDBVersion" {
					passGate()
					emitEv(vsEvent{Ev: "store", Step: step, Stored: vsStored(t, img)}) // what the file holds right after this commit
				}
			}
			emitEv(vsEvent{Ev: "begin", Step: step, App: vsParse(app), Force: r.Force})
			db, err := visor.OpenDB(file, false)
			if err != nil {
				t.Fatal(err)
			}
			appV, cpV := semver.MustParse(app), semver.MustParse(checkpoint)
			dv := &vsCounting{dbVerify: dbVerify{blockchainPubkey: bpk, logger: logging.MustGetLogger("verif"), quit: make(chan struct{})}}
			dv.enter = func() {
				passGate()
				emitEv(vsEvent{Ev: "verify", Step: step})
			}
			db2, err := checkAndUpdateDB(db, dbCheckConfig{ForceVerify: r.Force, ResetCorruptDB: r.Reset, AppVersion: &appV, DBCheckpointVersion: &cpV}, dv)
			r.VerifyCalls = dv.checks
			if err != nil {
				r.Err = err.Error()
				db.Close()
				if !gateSeen {
					emitEv(vsEvent{Ev: "gate", Step: step, Refused: true})
				} else {
					emitEv(vsEvent{Ev: "failed-after-gate", Step: step})
				}
			} else {
				r.Opened = true
				db = db2
				func() {
					defer func() {
						if p := recover(); p != nil {
							r.InitErr = fmt.Sprint("PANIC ", p)
						}
					}()
					v, err := visor.New(vcfg, db, nil)
					if err == nil {
						err = v.Init()
					}
					if err != nil {
						r.InitErr = err.Error()
						return
					}
					head, err := v.GetHeadBlock()
					if err != nil {
						r.InitErr = err.Error()
						return
					}
					r.InitOK, r.HeadSeq = true, int(head.Seq())
					// the node's life: sometimes a block
					if rng.Intn(2) == 0 {
						m, err := v.GetUnspentsOfAddrs([]cipher.Address{gaddr})
						if err == nil && len(m[gaddr]) > 0 {
							ux := m[gaddr][0]
							var txn coin.Transaction
							_ = txn.PushInput(ux.Hash())
							_ = txn.PushOutput(gaddr, ux.Body.Coins, 0)
							txn.SignInputs([]cipher.SecKey{gsk})
							_ = txn.UpdateHeader()
							when += 3600 * 10
							if b, err := v.CreateBlockFromTxns(coin.Transactions{txn}, when); err == nil {
								sb := coin.SignedBlock{Block: b, Sig: cipher.MustSignHash(b.HashHeader(), bsk)}
								_ = v.ExecuteSignedBlock(sb)
							}
						}
					}
				}()
				db.Close()
			}
			dbutil.VerifCommitHook = nil
			r.After = vsStored(t, file)
			// the abrupt stop: after one of this start's commits (the image taken then), or after all of them
			r.CrashAfter = len(images)
			if r.Opened && len(images) > 0 && rng.Intn(2) == 0 {
				r.CrashAfter = 1 + rng.Intn(len(images))
				vsCopy(t, images[r.CrashAfter-1], file)
			}
			if r.Opened {
				if !r.InitOK {
					emitEv(vsEvent{Ev: "start-up-failed", Step: step})
				} else if r.CrashAfter < len(images) {
					emitEv(vsEvent{Ev: "crash", Step: step})
				} else {
					emitEv(vsEvent{Ev: "finish", Step: step})
				}
			}
			if r.Opened {
				// what this binary recorded (the version commit is the first one of a start)
				lastWriter = app
			}
			for _, img := range images {
				os.Remove(img)
			}
			// the chain as the next start must find it
			if hv, err := vsHead(file, vcfg); err == nil {
				expectHead = hv
			}
			if err := enc.Encode(r); err != nil {
				t.Fatal(err)
			}
		}
		os.RemoveAll(dir)
	}
}

// vsHead reads the head sequence number from the block store read-only (no start-up logic involved); -1 if there is no chain yet
func vsHead(path string, cfg visor.Config) (int, error) {
	db, err := visor.OpenDB(path, true)
	if err != nil {
		return 0, err
	}
	defer db.Close()
	n := -1
	err = db.View("verif head", func(tx *dbutil.Tx) error {
		b := tx.Bucket([]byte("blocks"))
		if b == nil {
			return nil
		}
		n = b.Stats().KeyN - 1
		return nil
	})
	return n, err
}
