package visor

// Overlaid into /repo/src/visor at build time by /verif/check (go test -overlay); never written
// to /repo.  TestVerifPaginate calls the real txnHashesContainer.Pagination (the slicing step of
// GetTransactions) with de-duplicated lists and boundary page numbers, and logs one "paginate"
// record per call for specs/fn/FnRecords.tla.

import (
	"bufio"
	"encoding/binary"
	"encoding/json"
	"math"
	"math/rand"
	"os"
	"path/filepath"
	"strconv"
	"testing"

	"github.com/skycoin/skycoin/src/cipher"
)

func vpLimbs(x uint64) []int {
	out := []int{}
	for x > 0 {
		out = append(out, int(x%10000))
		x /= 10000
	}
	return out
}

func TestVerifPaginate(t *testing.T) {
	out := os.Getenv("VERIF_OUT")
	if out == "" {
		t.Skip("VERIF_OUT not set")
	}
	seed, _ := strconv.ParseInt(os.Getenv("VERIF_SEED"), 10, 64)
	count, _ := strconv.Atoi(os.Getenv("VERIF_COUNT"))
	rng := rand.New(rand.NewSource(seed))
	f, err := os.Create(filepath.Join(out, "paginate.ndjson"))
	if err != nil {
		t.Fatal(err)
	}
	w := bufio.NewWriter(f)
	enc := json.NewEncoder(w)
	for i := 0; i < count; i++ {
		n := rng.Intn(40)
		if i%7 == 0 {
			n = rng.Intn(260)
		}
		c := newTxnHashesContainer()
		index := map[cipher.SHA256]int{}
		for k := 1; k <= n; k++ {
			var h cipher.SHA256
			binary.BigEndian.PutUint64(h[:8], uint64(k))
			binary.BigEndian.PutUint64(h[8:16], rng.Uint64())
			c.Add(h, true, uint64(k))
			if rng.Intn(5) == 0 {
				c.Add(h, false, uint64(k+1)) // duplicates must not enter the list
			}
			index[h] = k
		}
		size := uint64(rng.Intn(int(MaxTxnPageSize)) + 1)
		if rng.Intn(3) == 0 {
			size = uint64(rng.Intn(6) + 1)
		}
		var page uint64
		switch rng.Intn(5) {
		case 0:
			page = uint64(rng.Intn(4) + 1)
		case 1:
			page = uint64(n)/size + uint64(rng.Intn(4))
			if page == 0 {
				page = 1
			}
		case 2:
			page = math.MaxUint64/size + uint64(rng.Intn(5)) - 1
		case 3:
			page = (uint64(1)<<uint(64-rng.Intn(8)))/size*uint64(rng.Intn(3)+1) + uint64(rng.Intn(3))
			if page == 0 {
				page = 1
			}
		default:
			page = rng.Uint64()>>uint(rng.Intn(64)) + 1
		}
		if page == 0 {
			page = 1
		}
		pi, err := NewPageIndex(size, page)
		if err != nil {
			t.Fatalf("NewPageIndex(%d,%d): %v", size, page, err)
		}
		rec := map[string]interface{}{"fn": "paginate", "n": vpLimbs(uint64(n)), "size": vpLimbs(size), "page": vpLimbs(page)}
		func() {
			defer func() {
				if r := recover(); r != nil {
					rec["err"] = true
					rec["items"] = []int{}
					rec["total"] = []int{}
					rec["panic"] = true
				}
			}()
			res, total, err := c.Pagination(pi)
			rec["err"] = err != nil
			items := []int{}
			if err == nil {
				for _, it := range res.items {
					items = append(items, index[it.hash])
				}
			}
			rec["items"] = items
			rec["total"] = vpLimbs(total)
		}()
		if err := enc.Encode(rec); err != nil {
			t.Fatal(err)
		}
	}
	w.Flush()
	f.Close()
}
