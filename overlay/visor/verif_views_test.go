package visor

// Overlaid into /repo/src/visor at build time by /verif/check; never written to /repo.
// View records (C07, C29): at chosen points of a pool history every query view of the node is read through the
// public Visor API and logged next to the chain (as read back block by block), the unspent projection and the
// pool.  specs/ledger/ViewRecords.tla derives every view from chain + pool and compares.

import (
	"crypto/sha256"
	"encoding/binary"
	"fmt"
	"sort"
	"testing"

	"github.com/skycoin/skycoin/src/cipher"
	"github.com/skycoin/skycoin/src/coin"
)

type vwTxn struct {
	Hash string   `json:"hash"`
	Ins  []string `json:"ins"`
	Outs []vlOut  `json:"outs"`
}

type vwBlock struct {
	Seq  uint64  `json:"seq"`
	Hash string  `json:"hash"`
	Time uint64  `json:"time"`
	Txns []vwTxn `json:"txns"`
}

type vwUnspentsOf struct {
	Addr string   `json:"addr"`
	IDs  []string `json:"ids"`
}

type vwUxOut struct {
	ID       string `json:"id"`
	Known    bool   `json:"known"`
	SpentSeq uint64 `json:"spentSeq"`
	SpentTxn string `json:"spentTxn"`
}

type vwBalance struct {
	Addr string `json:"addr"`
	CC   []int  `json:"cc"`
	CH   []int  `json:"ch"`
	PC   []int  `json:"pc"`
	PH   []int  `json:"ph"`
}

type vwPaged struct {
	Filter  string     `json:"filter"`
	Order   string     `json:"order"`
	Size    uint64     `json:"size"`
	Unpaged []string   `json:"unpaged"`
	Pages   [][]string `json:"pages"`
	Totals  []uint64   `json:"totals"`
}

type vwVIn struct {
	ID    string `json:"id"`
	Addr  string `json:"addr"`
	Coins []int  `json:"coins"`
	Hours []int  `json:"hours"`
	Calc  []int  `json:"calc"`
}

type vwVTxn struct {
	Hash string  `json:"hash"`
	Ins  []vwVIn `json:"ins"`
}

type vwVBlock struct {
	Hash string   `json:"hash"`
	Txns []vwVTxn `json:"txns"`
}

type vwStatus struct {
	Hash      string  `json:"hash"`
	Found     bool    `json:"found"`
	Confirmed bool    `json:"confirmed"`
	Height    uint64  `json:"height"`
	BlockSeq  uint64  `json:"blockSeq"`
	Time      uint64  `json:"time"`
	Verbose   bool    `json:"verbose"`
	Ins       []vwVIn `json:"ins"`
}

// further views (block queries by sequence list / since / verbose, transaction status, pool queries, summary, rich list)
type vwMore struct {
	Seqs          []uint64   `json:"seqs"`
	BySeqs        []string   `json:"bySeqs"`
	MissingSeqErr bool       `json:"missingSeqErr"`
	SinceSeq      uint64     `json:"sinceSeq"`
	SinceCt       uint64     `json:"sinceCt"`
	Since         []string   `json:"since"`
	MetaHeadSeq   uint64     `json:"metaHeadSeq"`
	MetaHeadHash  string     `json:"metaHeadHash"`
	MetaUnspents  uint64     `json:"metaUnspents"`
	MetaPool      uint64     `json:"metaPool"`
	PoolFlags     []vpEntry  `json:"poolFlags"`
	ValidPool     []string   `json:"validPool"`
	KnownQ        []string   `json:"knownQ"`
	Known         []string   `json:"known"`
	Unknown       []string   `json:"unknown"`
	Status        []vwStatus `json:"status"`
	VFrom         uint64     `json:"vFrom"`
	VTo           uint64     `json:"vTo"`
	VRange        []vwVBlock `json:"vRange"`
	VLastN        uint64     `json:"vLastN"`
	VLast         []vwVBlock `json:"vLast"`
	SumFilter     []string   `json:"sumFilter"`
	SumOK         bool       `json:"sumOK"`
	SumConfirmed  []string   `json:"sumConfirmed"`
	SumOutgoing   []string   `json:"sumOutgoing"`
	SumIncoming   []string   `json:"sumIncoming"`
	RichOK        bool       `json:"richOK"`
	RichAll       []vwRich   `json:"richAll"`
	RichNoDist    []vwRich   `json:"richNoDist"`
	DistAddrs     []string   `json:"distAddrs"`
	LockedAddrs   []string   `json:"lockedAddrs"`
	ByHash        []vwByHash `json:"byHash"`
	BySeqV        []vwByHash `json:"bySeqV"`
	SeqsV         []vwVBlock `json:"seqsV"`
	OneBySeq      []vwByHash `json:"oneBySeq"`
	Lookup        []vwLookup `json:"lookup"`
	PoolVerbose   []vwVTxn   `json:"poolVerbose"`
	PoolVerboseOK bool       `json:"poolVerboseOK"`
	PayQ          []string   `json:"payQ"`
	Paying        []string   `json:"paying"`
	RecvQ         []string   `json:"recvQ"`
	Recv          []string   `json:"recv"`
	SpendsOK      bool       `json:"spendsOK"`
	Spends        []string   `json:"spends"`
	Errs          []string   `json:"errs"`
}

// a single block asked for by hash or by sequence number (Seq is the number asked for, or -1)
type vwByHash struct {
	Asked   string   `json:"asked"`
	Seq     int      `json:"seq"`
	Found   bool     `json:"found"`
	Refused bool     `json:"refused"`
	Verbose bool     `json:"verbose"`
	Block   vwVBlock `json:"block"`
}

type vwLookup struct {
	Hash      string `json:"hash"`
	Confirmed bool   `json:"confirmed"`
	Pending   bool   `json:"pending"`
}

type vwRich struct {
	Addr   string `json:"addr"`
	Coins  []int  `json:"coins"`
	Locked bool   `json:"locked"`
}

type vwRec struct {
	More        vwMore         `json:"more"`
	Ev          string         `json:"ev"`
	Hist        int            `json:"hist"`
	Step        int            `json:"step"`
	Node        string         `json:"node"`
	Phase       string         `json:"phase"`
	St          vlState        `json:"st"`
	Pool        []vwTxn        `json:"pool"`
	Chain       []vwBlock      `json:"chain"`
	Addrs       []string       `json:"addrs"`
	UnspentsOf  []vwUnspentsOf `json:"unspentsOf"`
	AddrCount   uint64         `json:"addrCount"`
	UxHashOK    bool           `json:"uxhashOK"`
	UxOuts      []vwUxOut      `json:"uxouts"`
	TxAddr      []string       `json:"txAddr"`
	TxAddrConf  []string       `json:"txAddrConf"`
	TxAddrUnc   []string       `json:"txAddrUnc"`
	TxAll       []string       `json:"txAll"`
	Balances    []vwBalance    `json:"balances"`
	BlocksLast  []string       `json:"blocksLast"`
	LastN       uint64         `json:"lastN"`
	BlocksRange []string       `json:"blocksRange"`
	RangeFrom   uint64         `json:"rangeFrom"`
	RangeTo     uint64         `json:"rangeTo"`
	Paged       []vwPaged      `json:"paged"`
	Errs        []string       `json:"errs"`
	ErrText     []string       `json:"errText"`
}

// the unspent-set checksum recomputed independently: xor over sha256 of a fixed 85-byte layout of every output
// (source transaction, address version+key, coins, hours | time, block seq) - not the repository's encoder
func vwUxHash(uxs coin.UxArray) string {
	var acc [32]byte
	for _, ux := range uxs {
		buf := make([]byte, 0, 85)
		var b8 [8]byte
		buf = append(buf, ux.Body.SrcTransaction[:]...)
		buf = append(buf, ux.Body.Address.Version)
		buf = append(buf, ux.Body.Address.Key[:]...)
		binary.LittleEndian.PutUint64(b8[:], ux.Body.Coins)
		buf = append(buf, b8[:]...)
		binary.LittleEndian.PutUint64(b8[:], ux.Body.Hours)
		buf = append(buf, b8[:]...)
		binary.LittleEndian.PutUint64(b8[:], ux.Head.Time)
		buf = append(buf, b8[:]...)
		binary.LittleEndian.PutUint64(b8[:], ux.Head.BkSeq)
		buf = append(buf, b8[:]...)
		h := sha256.Sum256(buf)
		for i := range acc {
			acc[i] ^= h[i]
		}
	}
	return fmt.Sprintf("%x", acc[:])
}

func vwHashes(txns []Transaction) []string {
	o := []string{}
	for _, t := range txns {
		o = append(o, t.Transaction.Hash().Hex())
	}
	return o
}

// a failed query is logged as "<query>:<kind>" (kind: panic | error) and the message goes to ErrText
func vwTry(errs *[]string, name string, f func() error) {
	defer func() {
		if r := recover(); r != nil {
			*errs = append(*errs, name+":panic")
			vwErrText = append(vwErrText, fmt.Sprintf("%s: PANIC %v", name, r))
		}
	}()
	if err := f(); err != nil {
		*errs = append(*errs, name+":error")
		vwErrText = append(vwErrText, fmt.Sprintf("%s: %v", name, err))
	}
}

var vwErrText []string

func vwViews(t *testing.T, N *vlNode, node, phase string, addrs []cipher.Address, seed int) (r vwRec) {
	r = vwRec{Ev: "views", Node: node, Phase: phase, St: N.state(t), Pool: []vwTxn{}, Chain: []vwBlock{}, Addrs: []string{}, UnspentsOf: []vwUnspentsOf{},
		UxOuts: []vwUxOut{}, TxAddr: []string{}, TxAddrConf: []string{}, TxAddrUnc: []string{}, TxAll: []string{}, Balances: []vwBalance{}, BlocksLast: []string{},
		BlocksRange: []string{}, Paged: []vwPaged{}, Errs: []string{}}
	vwErrText = []string{}
	defer func() { r.ErrText = vwErrText }()
	head := N.head(t)
	_, ptxns := N.poolEntries(t)
	for _, txn := range ptxns {
		vt := vwTxn{Hash: txn.Hash().Hex(), Ins: []string{}, Outs: []vlOut{}}
		for _, in := range txn.In {
			vt.Ins = append(vt.Ins, in.Hex())
		}
		for _, ux := range coin.CreateUnspents(head.Head, txn) {
			vt.Outs = append(vt.Outs, vlOut{ID: ux.Hash().Hex(), Addr: ux.Body.Address.String(), Coins: vlLimbs(ux.Body.Coins), Hours: vlLimbs(ux.Body.Hours)})
		}
		r.Pool = append(r.Pool, vt)
	}
	// the chain, read back block by block
	var allIDs []cipher.SHA256
	for seq := uint64(0); seq <= head.Head.BkSeq; seq++ {
		sb, err := N.v.GetSignedBlockBySeq(seq)
		if err != nil || sb == nil {
			r.Errs = append(r.Errs, fmt.Sprintf("GetSignedBlockBySeq(%d): %v", seq, err))
			continue
		}
		vb := vwBlock{Seq: sb.Head.BkSeq, Hash: sb.HashHeader().Hex(), Time: sb.Head.Time, Txns: []vwTxn{}}
		for _, txn := range sb.Body.Transactions {
			vt := vwTxn{Hash: txn.Hash().Hex(), Ins: []string{}, Outs: []vlOut{}}
			for _, in := range txn.In {
				vt.Ins = append(vt.Ins, in.Hex())
			}
			for _, ux := range coin.CreateUnspents(sb.Head, txn) {
				vt.Outs = append(vt.Outs, vlOut{ID: ux.Hash().Hex(), Addr: ux.Body.Address.String(), Coins: vlLimbs(ux.Body.Coins), Hours: vlLimbs(ux.Body.Hours)})
				allIDs = append(allIDs, ux.Hash())
			}
			vb.Txns = append(vb.Txns, vt)
		}
		r.Chain = append(r.Chain, vb)
	}
	for _, a := range addrs {
		r.Addrs = append(r.Addrs, a.String())
	}
	vwTry(&r.Errs, "GetUnspentsOfAddrs", func() error {
		m, err := N.v.GetUnspentsOfAddrs(addrs)
		if err != nil {
			return err
		}
		for _, a := range addrs {
			u := vwUnspentsOf{Addr: a.String(), IDs: []string{}}
			for _, ux := range m[a] {
				u.IDs = append(u.IDs, ux.Hash().Hex())
			}
			sort.Strings(u.IDs)
			r.UnspentsOf = append(r.UnspentsOf, u)
		}
		return nil
	})
	vwTry(&r.Errs, "AddressCount", func() error {
		var err error
		r.AddrCount, err = N.v.AddressCount()
		return err
	})
	vwTry(&r.Errs, "GetAllUnspentOutputs", func() error {
		uxs, err := N.v.GetAllUnspentOutputs()
		if err != nil {
			return err
		}
		r.UxHashOK = vwUxHash(uxs) == r.St.UxHash
		return nil
	})
	var unknown cipher.SHA256
	unknown[0], unknown[5] = byte(seed), 7
	for _, id := range append(allIDs, unknown) {
		id := id
		vwTry(&r.Errs, "GetUxOutByID", func() error {
			o, _, err := N.v.GetUxOutByID(id)
			if err != nil && id == unknown {
				o, err = nil, nil // an unknown id is answered with an error (or nil): both mean "not known"
			}
			if err != nil {
				return err
			}
			x := vwUxOut{ID: id.Hex(), Known: o != nil}
			if o != nil {
				x.SpentSeq = o.SpentBlockSeq
				if !o.SpentTxnID.Null() {
					x.SpentTxn = o.SpentTxnID.Hex()
				}
			}
			r.UxOuts = append(r.UxOuts, x)
			return nil
		})
	}
	q := addrs
	if len(q) > 2 {
		q = addrs[seed%len(addrs):][:1+seed%2]
		if len(q) == 0 {
			q = addrs[:1]
		}
	}
	r.Addrs = []string{}
	for _, a := range q {
		r.Addrs = append(r.Addrs, a.String())
	}
	get := func(name string, flts []TxFilter, dst *[]string) {
		vwTry(&r.Errs, name, func() error {
			txns, _, err := N.v.GetTransactions(flts, AscOrder, nil)
			if err != nil {
				return err
			}
			*dst = vwHashes(txns)
			return nil
		})
	}
	get("GetTransactions(addr)", []TxFilter{NewAddrsFilter(q)}, &r.TxAddr)
	get("GetTransactions(addr,confirmed)", []TxFilter{NewAddrsFilter(q), NewConfirmedTxFilter(true)}, &r.TxAddrConf)
	get("GetTransactions(addr,unconfirmed)", []TxFilter{NewAddrsFilter(q), NewConfirmedTxFilter(false)}, &r.TxAddrUnc)
	get("GetTransactions()", nil, &r.TxAll)
	vwTry(&r.Errs, "GetBalanceOfAddresses", func() error {
		bps, err := N.v.GetBalanceOfAddresses(addrs)
		if err != nil {
			return err
		}
		for i, bp := range bps {
			r.Balances = append(r.Balances, vwBalance{Addr: addrs[i].String(), CC: vlLimbs(bp.Confirmed.Coins), CH: vlLimbs(bp.Confirmed.Hours),
				PC: vlLimbs(bp.Predicted.Coins), PH: vlLimbs(bp.Predicted.Hours)})
		}
		return nil
	})
	r.LastN = uint64(1 + seed%4)
	vwTry(&r.Errs, "GetLastBlocks", func() error {
		bs, err := N.v.GetLastBlocks(r.LastN)
		for _, b := range bs {
			r.BlocksLast = append(r.BlocksLast, b.HashHeader().Hex())
		}
		return err
	})
	r.RangeFrom, r.RangeTo = uint64(seed%3), uint64(seed%3+seed%5)
	vwTry(&r.Errs, "GetBlocksInRange", func() error {
		bs, err := N.v.GetBlocksInRange(r.RangeFrom, r.RangeTo)
		for _, b := range bs {
			r.BlocksRange = append(r.BlocksRange, b.HashHeader().Hex())
		}
		return err
	})
	// paging: pages 1..N+2 of every kind of query, both orders
	type pq struct {
		name string
		flts []TxFilter
	}
	for i, p := range []pq{{"all", nil}, {"conf", []TxFilter{NewConfirmedTxFilter(true)}}, {"unconf", []TxFilter{NewConfirmedTxFilter(false)}},
		{"addr", []TxFilter{NewAddrsFilter(q)}}, {"addr-unconf", []TxFilter{NewAddrsFilter(q), NewConfirmedTxFilter(false)}}} {
		for _, order := range []SortOrder{AscOrder, DescOrder} {
			if (seed+i)%2 == 0 && order == DescOrder && p.name != "unconf" {
				continue
			}
			p, order := p, order
			vwTry(&r.Errs, "GetTransactions(paged "+p.name+")", func() error {
				pg := vwPaged{Filter: p.name, Order: map[SortOrder]string{AscOrder: "asc", DescOrder: "desc"}[order], Size: uint64(1 + (seed+i)%3), Pages: [][]string{}, Totals: []uint64{}}
				all, _, err := N.v.GetTransactions(p.flts, order, nil)
				if err != nil {
					return err
				}
				pg.Unpaged = vwHashes(all)
				npages := (uint64(len(all)) + pg.Size - 1) / pg.Size
				for n := uint64(1); n <= npages+2; n++ {
					pi, err := NewPageIndex(pg.Size, n)
					if err != nil {
						return err
					}
					txns, total, err := N.v.GetTransactions(p.flts, order, pi)
					if err != nil {
						return err
					}
					pg.Pages = append(pg.Pages, vwHashes(txns))
					pg.Totals = append(pg.Totals, total)
				}
				r.Paged = append(r.Paged, pg)
				return nil
			})
			// the same pages through the query that also resolves the inputs (verbose=1): it pages through the same list
			vwTry(&r.Errs, "GetTransactionsWithInputs(paged "+p.name+")", func() error {
				pg := vwPaged{Filter: p.name + "-verbose", Order: map[SortOrder]string{AscOrder: "asc", DescOrder: "desc"}[order], Size: uint64(1 + (seed+i+1)%3), Pages: [][]string{}, Totals: []uint64{}}
				all, _, err := N.v.GetTransactions(p.flts, order, nil)
				if err != nil {
					return err
				}
				pg.Unpaged = vwHashes(all)
				npages := (uint64(len(all)) + pg.Size - 1) / pg.Size
				for n := uint64(1); n <= npages+2; n++ {
					pi, err := NewPageIndex(pg.Size, n)
					if err != nil {
						return err
					}
					txns, ins, total, err := N.v.GetTransactionsWithInputs(p.flts, order, pi)
					if err != nil {
						return err
					}
					if len(ins) != len(txns) {
						return fmt.Errorf("%d input lists for %d transactions", len(ins), len(txns))
					}
					pg.Pages = append(pg.Pages, vwHashes(txns))
					pg.Totals = append(pg.Totals, total)
				}
				r.Paged = append(r.Paged, pg)
				return nil
			})
		}
	}
	r.More = vwMoreViews(N, head, ptxns, r.Chain, addrs, seed)
	return r
}

func vwVIns(ins []TransactionInput) []vwVIn {
	o := []vwVIn{}
	for _, in := range ins {
		o = append(o, vwVIn{ID: in.UxOut.Hash().Hex(), Addr: in.UxOut.Body.Address.String(), Coins: vlLimbs(in.UxOut.Body.Coins), Hours: vlLimbs(in.UxOut.Body.Hours), Calc: vlLimbs(in.CalculatedHours)})
	}
	return o
}

func vwVBlocks(bs []coin.SignedBlock, ins [][][]TransactionInput) ([]vwVBlock, error) {
	o := []vwVBlock{}
	if len(bs) != len(ins) {
		return o, fmt.Errorf("%d input lists for %d blocks", len(ins), len(bs))
	}
	for i, b := range bs {
		vb := vwVBlock{Hash: b.HashHeader().Hex(), Txns: []vwVTxn{}}
		if len(ins[i]) != len(b.Body.Transactions) {
			return o, fmt.Errorf("block %d: %d input lists for %d transactions", b.Head.BkSeq, len(ins[i]), len(b.Body.Transactions))
		}
		for k, txn := range b.Body.Transactions {
			vb.Txns = append(vb.Txns, vwVTxn{Hash: txn.Hash().Hex(), Ins: vwVIns(ins[i][k])})
		}
		o = append(o, vb)
	}
	return o, nil
}

func vwMoreViews(N *vlNode, head coin.SignedBlock, ptxns coin.Transactions, chain []vwBlock, addrs []cipher.Address, seed int) vwMore {
	m := vwMore{Seqs: []uint64{}, BySeqs: []string{}, Since: []string{}, PoolFlags: []vpEntry{}, ValidPool: []string{}, KnownQ: []string{}, Known: []string{}, Unknown: []string{},
		Status: []vwStatus{}, VRange: []vwVBlock{}, VLast: []vwVBlock{}, SumFilter: []string{}, SumConfirmed: []string{}, SumOutgoing: []string{}, SumIncoming: []string{},
		RichAll: []vwRich{}, RichNoDist: []vwRich{}, DistAddrs: []string{}, LockedAddrs: []string{}, Errs: []string{},
		ByHash: []vwByHash{}, BySeqV: []vwByHash{}, SeqsV: []vwVBlock{}, OneBySeq: []vwByHash{}, Lookup: []vwLookup{}, PoolVerbose: []vwVTxn{}, PayQ: []string{}, Paying: []string{},
		RecvQ: []string{}, Recv: []string{}, Spends: []string{}}
	n := head.Head.BkSeq + 1
	// blocks by a list of sequence numbers (any order, repeats), and a list with a sequence number beyond the head
	for k := 0; k < 1+seed%4; k++ {
		m.Seqs = append(m.Seqs, uint64(seed*(k+3)+k)%n)
	}
	vwTry(&m.Errs, "GetBlocks", func() error {
		bs, err := N.v.GetBlocks(m.Seqs)
		for _, b := range bs {
			m.BySeqs = append(m.BySeqs, b.HashHeader().Hex())
		}
		if err == nil {
			_, e2 := N.v.GetBlocks(append(append([]uint64{}, m.Seqs...), n+uint64(seed%3)))
			m.MissingSeqErr = e2 != nil
		}
		return err
	})
	m.SinceSeq, m.SinceCt = uint64(seed%5), uint64(seed%7)
	vwTry(&m.Errs, "GetSignedBlocksSince", func() error {
		bs, err := N.v.GetSignedBlocksSince(m.SinceSeq, m.SinceCt)
		for _, b := range bs {
			m.Since = append(m.Since, b.HashHeader().Hex())
		}
		return err
	})
	vwTry(&m.Errs, "GetBlockchainMetadata", func() error {
		bm, err := N.v.GetBlockchainMetadata()
		if err != nil {
			return err
		}
		m.MetaHeadSeq, m.MetaHeadHash, m.MetaUnspents, m.MetaPool = bm.HeadBlock.Head.BkSeq, bm.HeadBlock.HashHeader().Hex(), bm.Unspents, bm.Unconfirmed
		return nil
	})
	// the pool: validity flags as stored, the valid hashes, known / unknown of a mixed list
	vwTry(&m.Errs, "GetAllUnconfirmedTransactions", func() error {
		us, err := N.v.GetAllUnconfirmedTransactions()
		for _, u := range us {
			m.PoolFlags = append(m.PoolFlags, vpEntry{Hash: u.Transaction.Hash().Hex(), Valid: u.IsValid == 1})
		}
		return err
	})
	vwTry(&m.Errs, "GetAllValidUnconfirmedTxHashes", func() error {
		hs, err := N.v.GetAllValidUnconfirmedTxHashes()
		for _, h := range hs {
			m.ValidPool = append(m.ValidPool, h.Hex())
		}
		return err
	})
	var q []cipher.SHA256
	var strange cipher.SHA256
	strange[1], strange[9] = byte(seed), 3
	for i, txn := range ptxns {
		if (i+seed)%3 != 0 {
			q = append(q, txn.Hash())
		}
	}
	q = append(q, strange)
	var confirmed []cipher.SHA256
	for _, b := range chain {
		for _, txn := range b.Txns {
			confirmed = append(confirmed, cipher.MustSHA256FromHex(txn.Hash))
		}
	}
	q = append(q, confirmed[seed%len(confirmed)])
	for _, h := range q {
		m.KnownQ = append(m.KnownQ, h.Hex())
	}
	vwTry(&m.Errs, "GetKnownUnconfirmed", func() error {
		ts, err := N.v.GetKnownUnconfirmed(q)
		for _, txn := range ts {
			m.Known = append(m.Known, txn.Hash().Hex())
		}
		return err
	})
	vwTry(&m.Errs, "FilterKnownUnconfirmed", func() error {
		hs, err := N.v.FilterKnownUnconfirmed(q)
		for _, h := range hs {
			m.Unknown = append(m.Unknown, h.Hex())
		}
		return err
	})
	// the status of single transactions: some confirmed ones (the genesis transaction among them), the pending ones, a strange one
	sq := []cipher.SHA256{confirmed[0], strange}
	for k := 0; k < 4 && k < len(confirmed); k++ {
		sq = append(sq, confirmed[(seed*7+k*5)%len(confirmed)])
	}
	for i, txn := range ptxns {
		if i < 4 {
			sq = append(sq, txn.Hash())
		}
	}
	for i, h := range sq {
		h, verbose := h, (i+seed)%2 == 0
		vwTry(&m.Errs, "GetTransaction", func() error {
			st := vwStatus{Hash: h.Hex(), Verbose: verbose, Ins: []vwVIn{}}
			var txn *Transaction
			var err error
			if verbose {
				var ins []TransactionInput
				txn, ins, err = N.v.GetTransactionWithInputs(h)
				st.Ins = vwVIns(ins)
			} else {
				txn, err = N.v.GetTransaction(h)
			}
			if err != nil {
				return err
			}
			if txn != nil {
				if txn.Transaction.Hash() != h {
					return fmt.Errorf("asked for %s, got %s", h.Hex(), txn.Transaction.Hash().Hex())
				}
				st.Found, st.Confirmed, st.Height, st.BlockSeq, st.Time = true, txn.Status.Confirmed, txn.Status.Height, txn.Status.BlockSeq, txn.Time
			}
			m.Status = append(m.Status, st)
			return nil
		})
	}
	// verbose block queries: every input resolved to the output it spends, its hours as of the block before
	m.VFrom, m.VTo = uint64(seed%3), uint64(seed%3+seed%4)
	vwTry(&m.Errs, "GetBlocksInRangeVerbose", func() error {
		bs, ins, err := N.v.GetBlocksInRangeVerbose(m.VFrom, m.VTo)
		if err != nil {
			return err
		}
		m.VRange, err = vwVBlocks(bs, ins)
		return err
	})
	m.VLastN = uint64(1 + seed%3)
	vwTry(&m.Errs, "GetLastBlocksVerbose", func() error {
		bs, ins, err := N.v.GetLastBlocksVerbose(m.VLastN)
		if err != nil {
			return err
		}
		m.VLast, err = vwVBlocks(bs, ins)
		return err
	})
	// single blocks: by hash (plain and verbose; a hash that is no block's), by sequence number (verbose; one beyond the head),
	// GetBlock (which refuses numbers beyond the head), and the verbose form of the sequence list
	noBlock := vwVBlock{Txns: []vwVTxn{}}
	one := func(b *coin.SignedBlock, ins [][]TransactionInput, verbose bool) (vwVBlock, error) {
		if !verbose {
			return vwVBlock{Hash: b.HashHeader().Hex(), Txns: []vwVTxn{}}, nil
		}
		vb, err := vwVBlocks([]coin.SignedBlock{*b}, [][][]TransactionInput{ins})
		if err != nil {
			return noBlock, err
		}
		return vb[0], nil
	}
	hq := []cipher.SHA256{strange}
	for k := 0; k < 3 && k < len(chain); k++ {
		hq = append(hq, cipher.MustSHA256FromHex(chain[(seed*5+k*3)%len(chain)].Hash))
	}
	for i, h := range hq {
		h, verbose := h, (i+seed)%2 == 0
		vwTry(&m.Errs, "GetSignedBlockByHash", func() error {
			x := vwByHash{Asked: h.Hex(), Seq: -1, Verbose: verbose, Block: noBlock}
			var b *coin.SignedBlock
			var ins [][]TransactionInput
			var err error
			if verbose {
				b, ins, err = N.v.GetSignedBlockByHashVerbose(h)
			} else {
				b, err = N.v.GetSignedBlockByHash(h)
			}
			if err != nil {
				return err
			}
			if b != nil {
				x.Found = true
				if x.Block, err = one(b, ins, verbose); err != nil {
					return err
				}
			}
			m.ByHash = append(m.ByHash, x)
			return nil
		})
	}
	for _, q := range []uint64{uint64(seed) % n, n + uint64(seed%2)} {
		q := q
		vwTry(&m.Errs, "GetSignedBlockBySeqVerbose", func() error {
			x := vwByHash{Seq: int(q), Verbose: true, Block: noBlock}
			b, ins, err := N.v.GetSignedBlockBySeqVerbose(q)
			if err != nil {
				return err
			}
			if b != nil {
				x.Found = true
				if x.Block, err = one(b, ins, true); err != nil {
					return err
				}
			}
			m.BySeqV = append(m.BySeqV, x)
			return nil
		})
		x := vwByHash{Seq: int(q), Block: noBlock}
		func() {
			defer func() {
				if p := recover(); p != nil {
					m.Errs = append(m.Errs, "GetBlock:panic")
				}
			}()
			b, err := N.v.GetBlock(q)
			if err != nil {
				x.Refused = true
			} else if b != nil {
				x.Found = true
				x.Block.Hash = b.HashHeader().Hex()
			}
		}()
		m.OneBySeq = append(m.OneBySeq, x)
	}
	vwTry(&m.Errs, "GetBlocksVerbose", func() error {
		bs, ins, err := N.v.GetBlocksVerbose(m.Seqs)
		if err != nil {
			return err
		}
		m.SeqsV, err = vwVBlocks(bs, ins)
		return err
	})
	// is this hash a confirmed transaction / a pending one
	for _, h := range sq {
		h := h
		vwTry(&m.Errs, "GetConfirmedTransaction/GetUnconfirmedTxn", func() error {
			ct, err := N.v.GetConfirmedTransaction(h)
			if err != nil {
				return err
			}
			ut, err := N.v.GetUnconfirmedTxn(h)
			if err != nil {
				return err
			}
			if ct != nil && ct.Hash() != h || ut != nil && ut.Transaction.Hash() != h {
				return fmt.Errorf("asked for %s, got another transaction", h.Hex())
			}
			m.Lookup = append(m.Lookup, vwLookup{Hash: h.Hex(), Confirmed: ct != nil, Pending: ut != nil})
			return nil
		})
	}
	// the pool, every input resolved and valued at the head time; pending transactions paying / outputs going to given addresses
	func() {
		defer func() {
			if p := recover(); p != nil {
				m.Errs = append(m.Errs, "GetAllUnconfirmedTransactionsVerbose:panic")
			}
		}()
		us, ins, err := N.v.GetAllUnconfirmedTransactionsVerbose()
		if err != nil || len(us) != len(ins) {
			return
		}
		m.PoolVerboseOK = true
		for i, u := range us {
			m.PoolVerbose = append(m.PoolVerbose, vwVTxn{Hash: u.Transaction.Hash().Hex(), Ins: vwVIns(ins[i])})
		}
	}()
	if len(addrs) > 0 {
		pa := append([]cipher.Address{}, addrs[(seed*3)%len(addrs):][:1]...)
		if seed%3 == 0 && len(addrs) > 1 {
			pa = append(pa, addrs[(seed*3+1)%len(addrs)])
		}
		for _, a := range pa {
			m.PayQ = append(m.PayQ, a.String())
		}
		vwTry(&m.Errs, "GetUnconfirmedTransactions(SendsToAddresses)", func() error {
			us, err := N.v.GetUnconfirmedTransactions(SendsToAddresses(pa))
			for _, u := range us {
				m.Paying = append(m.Paying, u.Transaction.Hash().Hex())
			}
			return err
		})
		m.RecvQ = m.PayQ
		vwTry(&m.Errs, "RecvOfAddresses", func() error {
			aux, err := N.v.RecvOfAddresses(pa)
			for _, uxs := range aux {
				for _, ux := range uxs {
					m.Recv = append(m.Recv, ux.Hash().Hex())
				}
			}
			return err
		})
		func() {
			defer func() {
				if p := recover(); p != nil {
					m.Errs = append(m.Errs, "UnconfirmedSpendsOfAddresses:panic")
				}
			}()
			aux, err := N.v.UnconfirmedSpendsOfAddresses(pa)
			if err != nil {
				return
			}
			m.SpendsOK = true
			for _, uxs := range aux {
				for _, ux := range uxs {
					m.Spends = append(m.Spends, ux.Hash().Hex())
				}
			}
		}()
	}
	// the outputs summary (all, or of some addresses) and the rich list; both fail as a whole while the pool still holds a
	// transaction whose input a block has spent (logged, not a view of a listed property)
	var flts []OutputsFilter
	if seed%2 == 0 && len(addrs) > 0 {
		fa := addrs[seed%len(addrs):][:1]
		flts = append(flts, FbyAddresses(fa))
		m.SumFilter = append(m.SumFilter, fa[0].String())
	}
	func() {
		defer func() {
			if p := recover(); p != nil {
				m.Errs = append(m.Errs, "GetUnspentOutputsSummary:panic")
			}
		}()
		sum, err := N.v.GetUnspentOutputsSummary(flts)
		if err != nil {
			return
		}
		m.SumOK = true
		for _, o := range sum.Confirmed {
			m.SumConfirmed = append(m.SumConfirmed, o.Hash().Hex())
		}
		for _, o := range sum.Outgoing {
			m.SumOutgoing = append(m.SumOutgoing, o.Hash().Hex())
		}
		for _, o := range sum.Incoming {
			m.SumIncoming = append(m.SumIncoming, o.Hash().Hex())
		}
	}()
	for _, a := range N.v.Config.Distribution.AddressesDecoded() {
		m.DistAddrs = append(m.DistAddrs, a.String())
	}
	for _, a := range N.v.Config.Distribution.LockedAddressesDecoded() {
		m.LockedAddrs = append(m.LockedAddrs, a.String())
	}
	func() {
		defer func() {
			if p := recover(); p != nil {
				m.Errs = append(m.Errs, "GetRichlist:panic")
			}
		}()
		all, err := N.v.GetRichlist(true)
		if err != nil {
			return
		}
		nod, err := N.v.GetRichlist(false)
		if err != nil {
			return
		}
		m.RichOK = true
		for _, b := range all {
			m.RichAll = append(m.RichAll, vwRich{Addr: b.Address.String(), Coins: vlLimbs(b.Coins), Locked: b.Locked})
		}
		for _, b := range nod {
			m.RichNoDist = append(m.RichNoDist, vwRich{Addr: b.Address.String(), Coins: vlLimbs(b.Coins), Locked: b.Locked})
		}
	}()
	return m
}
