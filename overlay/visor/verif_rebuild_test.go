package visor

// Overlaid into /repo/src/visor at build time by /verif/check (with -tags verif: the dbutil commit hook); never written to /repo.
// TestVerifRebuild (C08): the restart that has to rebuild derived data.  A chain of VERIF_REBUILD_BLOCKS blocks is built; the
// history's height marker and / or the per-address unspent index are removed from a copy of the file (what makes the next
// start rebuild them); the node is started on it and the commit hook copies the file at EVERY commit of that start (the
// rebuild and what follows).  Every image - the disk after a crash right there - is verified under a watchdog, restarted,
// given the one remaining block, and must end in the state of a node that never lost anything.  One record per image for
// specs/crash/CrashRecords.tla (the same clauses as for the other crash plans).

import (
	"bufio"
	"encoding/json"
	"fmt"
	"io/ioutil"
	"math/rand"
	"os"
	"path/filepath"
	"strconv"
	"testing"
	"time"

	"github.com/skycoin/skycoin/src/cipher"
	"github.com/skycoin/skycoin/src/coin"
	"github.com/skycoin/skycoin/src/params"
	"github.com/skycoin/skycoin/src/visor/dbutil"
)

type vrRec struct {
	Fn       string   `json:"fn"`
	What     string   `json:"what"`
	Blocks   int      `json:"blocks"`
	Plan     []int    `json:"plan"`
	After    []string `json:"after"`
	Commits  []string `json:"commits"`
	Verify   bool     `json:"verify"`
	Check    string   `json:"check"`
	CheckMs  int64    `json:"checkMs"`
	Restart  string   `json:"restart"`
	Final    vcFinal  `json:"final"`
	Expected vcFinal  `json:"expected"`
}

func TestVerifRebuild(t *testing.T) {
	out := os.Getenv("VERIF_OUT")
	if out == "" {
		t.Skip("VERIF_OUT not set")
	}
	seed, _ := strconv.ParseInt(os.Getenv("VERIF_SEED"), 10, 64)
	nblocks, _ := strconv.Atoi(os.Getenv("VERIF_REBUILD_BLOCKS"))
	rng := rand.New(rand.NewSource(seed))
	f, err := os.Create(filepath.Join(out, "rebuild.ndjson"))
	if err != nil {
		t.Fatal(err)
	}
	w := bufio.NewWriter(f)
	defer func() { w.Flush(); f.Close() }()
	enc := json.NewEncoder(w)
	dir, err := ioutil.TempDir("", "verifrebuild")
	if err != nil {
		t.Fatal(err)
	}
	defer os.RemoveAll(dir)
	saved := vcWatchdog
	vcWatchdog = 120 * time.Second // a long chain takes its time to verify, more so on a busy machine
	defer func() { vcWatchdog = saved }()

	pub, sec, _ := cipher.GenerateDeterministicKeyPair([]byte(fmt.Sprintf("publisher-%d", rng.Int63())))
	op, osec, _ := cipher.GenerateDeterministicKeyPair([]byte(fmt.Sprintf("owner-%d", rng.Int63())))
	addr := cipher.AddressFromPubKey(op)
	cfg := NewConfig()
	cfg.BlockchainPubkey = pub
	cfg.GenesisAddress = addr
	cfg.GenesisTimestamp = vlGenesisTime
	cfg.GenesisCoinVolume = vlVolume
	cfg.Distribution = params.MainNetDistribution
	pcfg := cfg
	pcfg.IsBlockPublisher = true
	pcfg.BlockchainSeckey = sec
	ppath := filepath.Join(dir, "p.db")
	P := vlOpen(t, ppath, pcfg)
	gb, _ := P.v.GetSignedBlockBySeq(0)
	cfg.GenesisSignature = gb.Sig
	now := vlGenesisTime
	base := filepath.Join(dir, "base.db")
	var last coin.SignedBlock
	for i := 0; i <= nblocks; i++ {
		if i == nblocks {
			if err := vcCopy(ppath, base); err != nil { // the chain every scenario starts from; one more block is still to come
				t.Fatal(err)
			}
		}
		now += 3600 * uint64(1+rng.Intn(5))
		uxs, _ := P.v.GetAllUnspentOutputs()
		// the largest output that has hours to burn (two large outputs take turns: the one made by the head block has earned nothing yet)
		head := P.head(t)
		var in coin.UxOut
		var h uint64
		for _, ux := range uxs {
			if hh, err := ux.CoinHours(head.Head.Time); err == nil && hh >= 4 && ux.Body.Coins > in.Body.Coins {
				in, h = ux, hh
			}
		}
		var txn coin.Transaction
		_ = txn.PushInput(in.Hash())
		if i == 0 {
			half := in.Body.Coins / 2 / 1e6 * 1e6
			txn.Out = append(txn.Out, coin.TransactionOutput{Address: addr, Coins: half, Hours: h / 4}, coin.TransactionOutput{Address: addr, Coins: in.Body.Coins - half, Hours: h / 5})
		} else {
			txn.Out = append(txn.Out, coin.TransactionOutput{Address: addr, Coins: in.Body.Coins - 1e6, Hours: h / 4}, coin.TransactionOutput{Address: addr, Coins: 1e6, Hours: 0})
		}
		if i%7 == 3 {
			// now and then the small outputs are swept together again (inputs created by many different blocks)
			var small []coin.UxOut
			for _, ux := range uxs {
				if ux.Hash() != in.Hash() && ux.Body.Coins <= 1e6 && len(small) < 5 {
					small = append(small, ux)
				}
			}
			for _, ux := range small {
				_ = txn.PushInput(ux.Hash())
				txn.Out[0].Coins += ux.Body.Coins
			}
		}
		keys := make([]cipher.SecKey, len(txn.In))
		for k := range keys {
			keys[k] = osec
		}
		txn.SignInputs(keys)
		_ = txn.UpdateHeader()
		b, err := P.v.CreateBlockFromTxns(coin.Transactions{txn}, now)
		if err != nil {
			_, soft, herr := P.v.InjectForeignTransaction(txn)
			t.Fatalf("block %d (input hours %d, %d inputs): %v (as a foreign transaction: %v / %v)", i, h, len(txn.In), err, soft, herr)
		}
		sb := coin.SignedBlock{Block: b, Sig: cipher.MustSignHash(b.HashHeader(), sec)}
		if err := P.v.ExecuteSignedBlock(sb); err != nil {
			t.Fatal(err)
		}
		last = sb
	}
	P.db.Close()
	steps := []vcStep{{kind: "block", blk: last}}

	// the node that never lost anything
	clean := filepath.Join(dir, "clean.db")
	if err := vcCopy(base, clean); err != nil {
		t.Fatal(err)
	}
	_, _, restart, expected, _ := vcRun(t, clean, cfg, steps, false, pub, nil, nil)
	if restart != "ok" {
		t.Fatalf("the clean copy does not run: %s", restart)
	}
	expected = vcNN(expected)
	os.Remove(clean)

	for wi, what := range []string{"history", "index", "both"} {
		spoiled := filepath.Join(dir, fmt.Sprintf("spoiled-%d.db", wi))
		if err := vcCopy(base, spoiled); err != nil {
			t.Fatal(err)
		}
		db, err := OpenDB(spoiled, false)
		if err != nil {
			t.Fatal(err)
		}
		err = db.Update("verif spoil", func(tx *dbutil.Tx) error {
			if what != "history" {
				if err := dbutil.Reset(tx, []byte("unspent_pool_addr_index")); err != nil {
					return err
				}
				if err := dbutil.Delete(tx, []byte("unspent_meta"), []byte("addr_index_height")); err != nil {
					return err
				}
			}
			if what != "index" {
				return dbutil.Delete(tx, []byte("history_meta"), []byte("parsed_height"))
			}
			return nil
		})
		if err != nil {
			t.Fatal(err)
		}
		db.Close()
		// the start that rebuilds; an image of the file after every one of its commits
		var images, commits []string
		hook := func(name string, _ int) {
			img := filepath.Join(dir, fmt.Sprintf("img-%d-%d.db", wi, len(images)))
			if err := vcCopy(spoiled, img); err != nil {
				t.Fatal(err)
			}
			images = append(images, img)
			commits = append(commits, name)
		}
		_, _, restart, fin, _ := vcRun(t, spoiled, cfg, steps, false, pub, hook, nil)
		r := vrRec{Fn: "rebuild", What: what, Blocks: nblocks, Plan: []int{}, After: []string{}, Commits: commits, Check: "skipped", Restart: restart, Final: vcNN(fin), Expected: expected}
		if r.Commits == nil {
			r.Commits = []string{}
		}
		if err := enc.Encode(r); err != nil {
			t.Fatal(err)
		}
		os.Remove(spoiled)
		for k, img := range images {
			check, ms, restart, fin, _ := vcRun(t, img, cfg, steps, true, pub, nil, nil)
			r := vrRec{Fn: "rebuild", What: what, Blocks: nblocks, Plan: []int{k}, After: commits[:k+1], Commits: commits, Verify: true, Check: check, CheckMs: ms, Restart: restart,
				Final: vcNN(fin), Expected: expected}
			if err := enc.Encode(r); err != nil {
				t.Fatal(err)
			}
			os.Remove(img)
		}
	}
}
