package visor

// Overlaid into /repo/src/visor at build time by /verif/check (go test -overlay); never written
// to /repo.  TestVerifLedger runs seeded random histories: a real publisher visor builds valid
// blocks, and a real follower visor is offered, before each valid block, mutated variants of it
// (re-signed with the publisher key unless the mutation is the signature).  Every offer is one
// edge record {pre, blk, res, post} for specs/ledger/LedgerEdges.tla.

import (
	"bufio"
	"encoding/json"
	"fmt"
	"io/ioutil"
	"math/rand"
	"os"
	"path/filepath"
	"sort"
	"strconv"
	"testing"

	"github.com/skycoin/skycoin/src/cipher"
	"github.com/skycoin/skycoin/src/coin"
	"github.com/skycoin/skycoin/src/params"
	"github.com/skycoin/skycoin/src/visor/dbutil"
)

type vlUx struct {
	ID    string `json:"id"`
	Addr  string `json:"addr"`
	Coins []int  `json:"coins"`
	Hours []int  `json:"hours"`
	Time  uint64 `json:"time"`
}

type vlState struct {
	Len         uint64   `json:"len"`
	HeadSeq     uint64   `json:"headSeq"`
	HeadTime    uint64   `json:"headTime"`
	HeadHash    string   `json:"headHash"`
	GenesisHash string   `json:"genesisHash"`
	UxHash      string   `json:"uxhash"`
	Unspent     []vlUx   `json:"unspent"`
	Pool        []string `json:"pool"`
	NTxns       uint64   `json:"ntxns"`
}

type vlOut struct {
	ID    string `json:"id"`
	Addr  string `json:"addr"`
	Coins []int  `json:"coins"`
	Hours []int  `json:"hours"`
}

type vlTxn struct {
	Hash   string   `json:"hash"`
	SigsOK bool     `json:"sigsOK"`
	Ins    []string `json:"ins"`
	Outs   []vlOut  `json:"outs"`
}

type vlBlk struct {
	Hash   string  `json:"hash"`
	SigOK  bool    `json:"sigOK"`
	BodyOK bool    `json:"bodyOK"`
	Seq    uint64  `json:"seq"`
	Time   uint64  `json:"time"`
	Prev   string  `json:"prev"`
	UxHash string  `json:"uxhash"`
	Txns   []vlTxn `json:"txns"`
}

type vlStored struct {
	SigOK bool   `json:"sigOK"`
	Hash  string `json:"hash"`
}

type vlEdge struct {
	Hist   int      `json:"hist"`
	Step   int      `json:"step"`
	Mut    string   `json:"mut"`
	Volume []int    `json:"volume"`
	Pre    vlState  `json:"pre"`
	Blk    vlBlk    `json:"blk"`
	Res    string   `json:"res"`
	Err    string   `json:"err"`
	Stored vlStored `json:"stored"`
	Post   vlState  `json:"post"`
}

func vlLimbs(x uint64) []int {
	out := []int{}
	for x > 0 {
		out = append(out, int(x%10000))
		x /= 10000
	}
	return out
}

const vlVolume = uint64(100e12)
const vlGenesisTime = uint64(1000000)

type vlNode struct {
	v  *Visor
	db *dbutil.DB
}

func vlOpen(t *testing.T, path string, cfg Config) *vlNode {
	db, err := OpenDB(path, false)
	if err != nil {
		t.Fatal(err)
	}
	v, err := New(cfg, db, nil)
	if err != nil {
		t.Fatal(err)
	}
	if err := v.Init(); err != nil {
		t.Fatal(err)
	}
	return &vlNode{v: v, db: db}
}

func (n *vlNode) state(t *testing.T) vlState {
	var s vlState
	err := n.db.View("verif state", func(tx *dbutil.Tx) error {
		var err error
		if s.Len, err = n.v.blockchain.Len(tx); err != nil {
			return err
		}
		head, err := n.v.blockchain.Head(tx)
		if err != nil {
			return err
		}
		s.HeadSeq, s.HeadTime, s.HeadHash = head.Head.BkSeq, head.Head.Time, head.HashHeader().Hex()
		gb, err := n.v.blockchain.GetGenesisBlock(tx)
		if err != nil {
			return err
		}
		s.GenesisHash = gb.HashHeader().Hex()
		uxh, err := n.v.blockchain.Unspent().GetUxHash(tx)
		if err != nil {
			return err
		}
		s.UxHash = uxh.Hex()
		uxs, err := n.v.blockchain.Unspent().GetAll(tx)
		if err != nil {
			return err
		}
		s.Unspent = []vlUx{}
		for _, ux := range uxs {
			s.Unspent = append(s.Unspent, vlUx{ID: ux.Hash().Hex(), Addr: ux.Body.Address.String(), Coins: vlLimbs(ux.Body.Coins), Hours: vlLimbs(ux.Body.Hours), Time: ux.Head.Time})
		}
		sort.Slice(s.Unspent, func(i, j int) bool { return s.Unspent[i].ID < s.Unspent[j].ID })
		hs, err := n.v.unconfirmed.AllRawTransactions(tx)
		if err != nil {
			return err
		}
		s.Pool = []string{}
		for _, h := range hs {
			s.Pool = append(s.Pool, h.Hash().Hex())
		}
		sort.Strings(s.Pool)
		s.NTxns, err = n.v.history.GetTransactionsNum(tx)
		return err
	})
	if err != nil {
		t.Fatal(err)
	}
	return s
}

func vlDescribe(sb coin.SignedBlock, head coin.BlockHeader, sigOK, bodyOK bool, badSig map[int]bool) vlBlk {
	b := vlBlk{Hash: sb.HashHeader().Hex(), SigOK: sigOK, BodyOK: bodyOK, Seq: sb.Head.BkSeq, Time: sb.Head.Time,
		Prev: sb.Head.PrevHash.Hex(), UxHash: sb.Head.UxHash.Hex(), Txns: []vlTxn{}}
	for i, txn := range sb.Body.Transactions {
		vt := vlTxn{Hash: txn.Hash().Hex(), SigsOK: !badSig[i], Ins: []string{}, Outs: []vlOut{}}
		for _, in := range txn.In {
			vt.Ins = append(vt.Ins, in.Hex())
		}
		// output ids as the node derives them (from the block they are created in)
		for _, ux := range coin.CreateUnspents(sb.Head, txn) {
			vt.Outs = append(vt.Outs, vlOut{ID: ux.Hash().Hex(), Addr: ux.Body.Address.String(), Coins: vlLimbs(ux.Body.Coins), Hours: vlLimbs(ux.Body.Hours)})
		}
		b.Txns = append(b.Txns, vt)
	}
	return b
}

func TestVerifLedger(t *testing.T) {
	out := os.Getenv("VERIF_OUT")
	if out == "" {
		t.Skip("VERIF_OUT not set")
	}
	seed, _ := strconv.ParseInt(os.Getenv("VERIF_SEED"), 10, 64)
	nhist, _ := strconv.Atoi(os.Getenv("VERIF_HISTORIES"))
	nblocks, _ := strconv.Atoi(os.Getenv("VERIF_BLOCKS"))
	f, err := os.Create(filepath.Join(out, "edges.ndjson"))
	if err != nil {
		t.Fatal(err)
	}
	w := bufio.NewWriter(f)
	enc := json.NewEncoder(w)
	for h := 0; h < nhist; h++ {
		vlHistory(t, enc, h, rand.New(rand.NewSource(seed*1000003+int64(h))), nblocks)
	}
	w.Flush()
	f.Close()
}

func vlHistory(t *testing.T, enc *json.Encoder, hist int, rng *rand.Rand, nblocks int) {
	dir, err := ioutil.TempDir("", "veriflegder")
	if err != nil {
		t.Fatal(err)
	}
	defer os.RemoveAll(dir)

	pub, sec, _ := cipher.GenerateDeterministicKeyPair([]byte(fmt.Sprintf("publisher-%d", rng.Int63())))
	_, otherSec, _ := cipher.GenerateDeterministicKeyPair([]byte("not the publisher"))
	type owner struct {
		addr cipher.Address
		sec  cipher.SecKey
	}
	owners := make([]owner, 4)
	keyOf := map[cipher.Address]cipher.SecKey{}
	for i := range owners {
		p, s, _ := cipher.GenerateDeterministicKeyPair([]byte(fmt.Sprintf("owner-%d-%d", i, rng.Int63())))
		owners[i] = owner{cipher.AddressFromPubKey(p), s}
		keyOf[owners[i].addr] = s
	}

	cfg := NewConfig()
	cfg.BlockchainPubkey = pub
	cfg.GenesisAddress = owners[0].addr
	cfg.GenesisTimestamp = vlGenesisTime
	// every fourth history has a thousand times the coins: then a jump of the block time below 2^31 s (the specification's
	// integers) is enough to make seconds x whole coins overflow 64 bits (vlEarly's last part)
	volume := vlVolume
	if hist%4 == 3 {
		volume = 1000 * vlVolume
	}
	cfg.GenesisCoinVolume = volume
	cfg.Distribution = params.MainNetDistribution
	pcfg := cfg
	pcfg.IsBlockPublisher = true
	pcfg.BlockchainSeckey = sec
	P := vlOpen(t, filepath.Join(dir, "p.db"), pcfg)
	defer P.db.Close()
	gb, err := P.v.GetSignedBlockBySeq(0)
	if err != nil || gb == nil {
		t.Fatal("no genesis", err)
	}
	fcfg := cfg
	fcfg.GenesisSignature = gb.Sig
	if hist%3 == 2 {
		// the node under observation is itself configured as a block publisher (with and without arbitrating mode): what it
		// is offered from outside is judged by the same rules
		fcfg.IsBlockPublisher = true
		fcfg.BlockchainSeckey = sec
		fcfg.Arbitrating = rng.Intn(2) == 0
	}
	F := vlOpen(t, filepath.Join(dir, "f.db"), fcfg)
	defer F.db.Close()

	sign := func(b coin.Block, k cipher.SecKey) coin.SignedBlock {
		return coin.SignedBlock{Block: b, Sig: cipher.MustSignHash(b.HashHeader(), k)}
	}
	step := 0
	diverged := false
	offer := func(mut string, sb coin.SignedBlock, sigOK, bodyOK bool, badSig map[int]bool) bool {
		pre := F.state(t)
		head, _ := F.v.GetSignedBlockBySeq(pre.HeadSeq)
		e := vlEdge{Hist: hist, Step: step, Mut: mut, Volume: vlLimbs(volume), Pre: pre,
			Blk: vlDescribe(sb, head.Head, sigOK, bodyOK, badSig)}
		step++
		err := F.v.ExecuteSignedBlock(sb)
		e.Res = "accepted"
		if err != nil {
			e.Res, e.Err = "rejected", err.Error()
		}
		e.Post = F.state(t)
		if err == nil {
			if st, _ := F.v.GetSignedBlockBySeq(e.Post.HeadSeq); st != nil {
				e.Stored = vlStored{SigOK: st.VerifySignature(pub) == nil, Hash: st.HashHeader().Hex()}
			}
		}
		if err := enc.Encode(e); err != nil {
			t.Fatal(err)
		}
		return err == nil
	}

	var spent []coin.UxOut // outputs spent earlier in this history (for replayed spends)
	var prevValid *coin.SignedBlock
	now := vlGenesisTime
	for bi := 0; bi < nblocks && !diverged; bi++ {
		now += uint64(3600 * (1 + rng.Intn(200)))
		uxs, err := P.v.GetAllUnspentOutputs()
		if err != nil {
			t.Fatal(err)
		}
		sort.Slice(uxs, func(i, j int) bool { return uxs[i].Hash().Hex() < uxs[j].Hash().Hex() })
		headP, _ := P.v.GetSignedBlockBySeq(uint64(bi))
		headTime := headP.Head.Time

		// build 1..2 valid transactions over disjoint inputs
		// hoursMode: 0 half of the input hours, 1 more than the inputs have (+1..5), 2 exactly the input hours (zero fee: valid in a
		// block), 3 input hours + 1, 4 two outputs whose hours sum wraps around 2^64 to half the input hours (F16)
		mkTxnH := func(ins []coin.UxOut, coinsDelta int64, hoursMode int, zeroOut bool, at uint64) coin.Transaction {
			var txn coin.Transaction
			var coins, hours uint64
			var keys []cipher.SecKey
			for _, ux := range ins {
				if err := txn.PushInput(ux.Hash()); err != nil {
					t.Fatal(err)
				}
				coins += ux.Body.Coins
				hh, err := ux.CoinHours(at)
				if err != nil {
					hh = 0
				}
				hours += hh
				keys = append(keys, keyOf[ux.Body.Address])
			}
			nout := 1 + rng.Intn(3)
			if coins < uint64(nout)*2e6 {
				nout = 1
			}
			spendHours := hours / 2
			switch hoursMode {
			case 1:
				spendHours = hours + 1 + uint64(rng.Intn(5))
			case 2:
				spendHours = hours
			case 3:
				spendHours = hours + 1
			case 4:
				if coins >= 4e6 {
					nout = 2
				}
			}
			rem, remH := uint64(int64(coins)+coinsDelta), spendHours
			for k := 0; k < nout; k++ {
				c, hh := rem, remH
				if k < nout-1 {
					c = (1 + uint64(rng.Int63n(int64(rem/1e6/uint64(nout-k))))) * 1e6
					hh = uint64(rng.Int63n(int64(remH/uint64(nout-k) + 1)))
				}
				if zeroOut && k == 0 && nout > 1 {
					c = 0
				}
				dst := owners[rng.Intn(len(owners))].addr
				if rng.Intn(6) == 0 && hist%4 != 3 { // (not in the history that ends with the time jump: its richest output must stay spendable)
					dst = cipher.Address{} // the hard rules allow an output to the null address (it can never be spent)
				}
				txn.Out = append(txn.Out, coin.TransactionOutput{Address: dst, Coins: c, Hours: hh})
				rem -= c
				remH -= hh
			}
			if hoursMode == 4 && len(txn.Out) == 2 {
				e := uint64(1 + rng.Intn(4))
				txn.Out[0].Hours = ^uint64(0) - e
				txn.Out[1].Hours = e + 1 + hours/2 // exact sum = 2^64 + hours/2
			}
			if zeroOut && nout == 1 {
				txn.Out = append(txn.Out, coin.TransactionOutput{Address: owners[0].addr, Coins: 0, Hours: 0})
			}
			txn.SignInputs(keys)
			if err := txn.UpdateHeader(); err != nil {
				t.Fatal(err)
			}
			return txn
		}
		mkTxn := func(ins []coin.UxOut, coinsDelta int64, hoursOver bool, zeroOut bool) coin.Transaction {
			m := 0
			if hoursOver {
				m = 1
			}
			return mkTxnH(ins, coinsDelta, m, zeroOut, headTime)
		}
		pick := func(avail []coin.UxOut) ([]coin.UxOut, []coin.UxOut) {
			k := 1
			if len(avail) > 1 && rng.Intn(2) == 0 {
				k = 2
			}
			rng.Shuffle(len(avail), func(i, j int) { avail[i], avail[j] = avail[j], avail[i] })
			return avail[:k], avail[k:]
		}
		// only inputs that can pay a coin-hour fee (the publisher applies the soft rules to its own blocks)
		avail := coin.UxArray{}
		for _, ux := range uxs {
			if _, owned := keyOf[ux.Body.Address]; !owned {
				continue
			}
			if hh, err := ux.CoinHours(headTime); err == nil && hh >= 2 {
				avail = append(avail, ux)
			}
		}
		if len(avail) == 0 {
			break
		}
		ins1, rest := pick(avail)
		txns := coin.Transactions{mkTxn(ins1, 0, false, false)}
		var ins2 []coin.UxOut
		if len(rest) > 0 && rng.Intn(2) == 0 {
			ins2, _ = pick(rest)
			txns = append(txns, mkTxn(ins2, 0, false, false))
		}
		blk, err := P.v.CreateBlockFromTxns(txns, now)
		if err != nil {
			t.Fatalf("hist %d block %d: publisher refused its own block: %v", hist, bi, err)
		}
		valid := sign(blk, sec)

		// sometimes the follower already knows the transaction (pool must be cleaned on acceptance)
		if rng.Intn(2) == 0 {
			if _, _, err := F.v.InjectForeignTransaction(blk.Body.Transactions[0]); err != nil {
				t.Fatalf("inject: %v", err)
			}
		}

		// mutated variants first: each must be rejected and change nothing
		rebuild := func(txs coin.Transactions) coin.Block {
			b := blk
			b.Body.Transactions = txs
			b.Head.BodyHash = b.Body.Hash()
			return b
		}
		muts := []string{"badsig", "seq+1", "seq-1", "time-eq", "time-before", "prevhash", "bodyhash", "uxhash", "double-spend-in-block",
			"replayed-spend", "coins-created", "coins-destroyed", "hours-created", "zero-coin-output", "txn-badsig", "repeat-head", "second-genesis", "empty-block", "unknown-input", "dup-input", "hours-plus-one", "hours-plus-one", "hours-wrap"}
		rng.Shuffle(len(muts), func(i, j int) { muts[i], muts[j] = muts[j], muts[i] })
		sel := muts[:3+rng.Intn(4)]
		if hist%4 == 3 {
			// this history ends with the early-block and time-jump scenarios: the known finding (which ends a history) stays out
			kept := sel[:0]
			for _, m := range sel {
				if m != "hours-wrap" {
					kept = append(kept, m)
				}
			}
			sel = kept
		}
		if bi%2 == 0 {
			has := false
			for _, m := range sel {
				has = has || m == "double-spend-in-block"
			}
			if !has {
				sel = append([]string{"double-spend-in-block"}, sel...)
			}
		}
		if bi == nblocks-1 && hist%2 == 0 {
			sel = append(sel, "hours-wrap") // every run exercises the known finding F16 and the legacy rule behind it
		}
		for _, mut := range sel {
			if diverged {
				break
			}
			b := blk
			sigOK, bodyOK := true, true
			badSig := map[int]bool{}
			k := sec
			skip := false
			switch mut {
			case "badsig":
				k, sigOK = otherSec, false
			case "seq+1":
				b.Head.BkSeq++
			case "seq-1":
				b.Head.BkSeq--
			case "time-eq":
				b.Head.Time = headTime
			case "time-before":
				b.Head.Time = headTime - uint64(1+rng.Intn(100))
			case "prevhash":
				rng.Read(b.Head.PrevHash[:])
			case "bodyhash":
				rng.Read(b.Head.BodyHash[:])
				bodyOK = false
			case "uxhash":
				rng.Read(b.Head.UxHash[:])
			case "double-spend-in-block":
				// the second spend shares one input of the block's first transaction (each of its positions in turn), alone or
				// together with a fresh input at either side, and is placed before or after the block's own transactions:
				// every variant is offered (the last one through the common path below)
				var variants []coin.Block
				for _, shared := range ins1 {
					sets := [][]coin.UxOut{{shared}}
					if len(ins2) == 0 && len(rest) > 0 {
						sets = append(sets, []coin.UxOut{rest[0], shared}, []coin.UxOut{shared, rest[0]})
					}
					for _, dsIns := range sets {
						ds := mkTxn(dsIns, 0, false, false)
						variants = append(variants, rebuild(append(append(coin.Transactions{}, blk.Body.Transactions...), ds)),
							rebuild(append(coin.Transactions{ds}, blk.Body.Transactions...)))
					}
				}
				rng.Shuffle(len(variants), func(i, j int) { variants[i], variants[j] = variants[j], variants[i] })
				for _, vb := range variants[:len(variants)-1] {
					if !diverged && offer(mut, sign(vb, k), sigOK, bodyOK, badSig) {
						diverged = true
					}
				}
				b = variants[len(variants)-1]
				if diverged {
					skip = true
				}
			case "replayed-spend":
				if len(spent) == 0 {
					skip = true
					break
				}
				b = rebuild(coin.Transactions{mkTxn([]coin.UxOut{spent[rng.Intn(len(spent))]}, 0, false, false)})
			case "coins-created":
				b = rebuild(coin.Transactions{mkTxn(ins1, int64(1+rng.Intn(3))*1e6, false, false)})
			case "coins-destroyed":
				b = rebuild(coin.Transactions{mkTxn(ins1, -int64(1e6), false, false)})
			case "hours-created":
				b = rebuild(coin.Transactions{mkTxn(ins1, 0, true, false)})
			case "hours-plus-one":
				b = rebuild(coin.Transactions{mkTxnH(ins1, 0, 3, false, headTime)})
			case "hours-wrap":
				tw := mkTxnH(ins1, 0, 4, false, headTime)
				if len(tw.Out) != 2 {
					skip = true
					break
				}
				b = rebuild(coin.Transactions{tw})
			case "zero-coin-output":
				b = rebuild(coin.Transactions{mkTxn(ins1, 0, false, true)})
			case "txn-badsig":
				txn := mkTxn(ins1, 0, false, false)
				txn.Sigs[0] = cipher.MustSignHash(txn.HashInner(), otherSec)
				if err := txn.UpdateHeader(); err != nil {
					t.Fatal(err)
				}
				b = rebuild(coin.Transactions{txn})
				badSig[0] = true
			case "repeat-head":
				if prevValid == nil {
					skip = true
					break
				}
				if !offer(mut, *prevValid, true, true, nil) {
					continue
				}
				diverged = true
				continue
			case "second-genesis":
				if !offer(mut, *gb, true, true, nil) {
					continue
				}
				diverged = true
				continue
			case "empty-block":
				b = rebuild(coin.Transactions{})
			case "unknown-input":
				var txn coin.Transaction
				var hsh cipher.SHA256
				rng.Read(hsh[:])
				txn.In = append(txn.In, hsh)
				txn.Out = append(txn.Out, coin.TransactionOutput{Address: owners[1].addr, Coins: 1e6, Hours: 0})
				txn.SignInputs([]cipher.SecKey{owners[0].sec})
				if err := txn.UpdateHeader(); err != nil {
					t.Fatal(err)
				}
				b = rebuild(coin.Transactions{txn})
			case "dup-input":
				txn := mkTxn(append(append([]coin.UxOut{}, ins1...), ins1[0]), 0, false, false)
				b = rebuild(coin.Transactions{txn})
			}
			if mut == "hours-wrap" && bi < nblocks-2 {
				skip = true // accepted by the real node (F16), which ends the history: only near its end
			}
			if skip {
				continue
			}
			if offer(mut, sign(b, k), sigOK, bodyOK, badSig) {
				diverged = true // the follower took a block the publisher never made: the history ends here
				if mut == "hours-wrap" {
					// the follower now holds an output with almost 2^64 hours: exercise the documented legacy rule
					// (an input whose accrued hours overflow in the final addition counts as zero) on it alone
					vlLegacy(t, F, b, sec, keyOf, owners[1].addr, offer)
				}
			}
		}
		if diverged {
			break
		}
		if rng.Intn(4) == 0 {
			// a block that burns nothing (output hours = accrued input hours exactly) is valid for every node,
			// although the publisher's own block creation would not choose it: built and signed by hand
			hb, err := coin.NewBlock(headP.Block, now, blk.Head.UxHash, coin.Transactions{mkTxnH(ins1, 0, 2, false, headTime)}, vlZeroFee)
			if err != nil {
				t.Fatal(err)
			}
			blk, ins2 = *hb, nil
			valid = sign(blk, sec)
			if !offer("valid-zero-fee", valid, true, true, nil) {
				break
			}
		} else if !offer("valid", valid, true, true, nil) {
			break // the verdict on this edge is TLC's; the history cannot continue
		}
		if err := P.v.ExecuteSignedBlock(valid); err != nil {
			t.Fatalf("publisher refused its own signed block: %v", err)
		}
		spent = append(spent, ins1...)
		spent = append(spent, ins2...)
		v := valid
		prevValid = &v
	}
	if !diverged && hist%2 == 1 {
		vlEarly(t, P, F, sec, otherSec, keyOf, owners[1].addr, offer)
	}
}

func vlZeroFee(*coin.Transaction) (uint64, error) { return 0, nil }

// vlLegacy continues a history on the follower alone after it accepted the block `wb` whose single transaction
// created an output with 2^64-1-e hours (finding F16).  Block L1 only moves the head time forward (it spends the
// sibling output); then the huge output, whose accrued hours now overflow in the final addition, is spent:
// with output hours 1 (must be rejected: the input counts as zero) and with output hours 0 (valid).
func vlLegacy(t *testing.T, F *vlNode, wb coin.Block, sec cipher.SecKey, keyOf map[cipher.Address]cipher.SecKey, dst cipher.Address,
	offer func(string, coin.SignedBlock, bool, bool, map[int]bool) bool) {
	txn := wb.Body.Transactions[0]
	uxs := coin.CreateUnspents(wb.Head, txn)
	if len(uxs) != 2 {
		return
	}
	big, sib := uxs[0], uxs[1]
	if _, ok := keyOf[big.Body.Address]; !ok {
		return // paid to the null address: nobody can spend it
	}
	if _, ok := keyOf[sib.Body.Address]; !ok {
		return
	}
	hand := func(txns coin.Transactions, when uint64) coin.SignedBlock {
		var head *coin.SignedBlock
		var uxh cipher.SHA256
		if err := F.db.View("verif legacy", func(tx *dbutil.Tx) error {
			var err error
			if head, err = F.v.blockchain.Head(tx); err != nil {
				return err
			}
			uxh, err = F.v.blockchain.Unspent().GetUxHash(tx)
			return err
		}); err != nil {
			t.Fatal(err)
		}
		b, err := coin.NewBlock(head.Block, when, uxh, txns, vlZeroFee)
		if err != nil {
			t.Fatal(err)
		}
		return coin.SignedBlock{Block: *b, Sig: cipher.MustSignHash(b.HashHeader(), sec)}
	}
	spend := func(uxs []coin.UxOut, hours uint64) coin.Transaction {
		var tx coin.Transaction
		var coins uint64
		var keys []cipher.SecKey
		for _, ux := range uxs {
			if err := tx.PushInput(ux.Hash()); err != nil {
				t.Fatal(err)
			}
			coins += ux.Body.Coins
			keys = append(keys, keyOf[ux.Body.Address])
		}
		tx.Out = append(tx.Out, coin.TransactionOutput{Address: dst, Coins: coins, Hours: hours})
		tx.SignInputs(keys)
		if err := tx.UpdateHeader(); err != nil {
			t.Fatal(err)
		}
		return tx
	}
	t1 := wb.Head.Time + 20*3600
	adv := hand(coin.Transactions{spend([]coin.UxOut{sib}, 1)}, t1)
	if !offer("legacy-advance", adv, true, true, nil) {
		return
	}
	x := coin.CreateUnspents(adv.Head, adv.Body.Transactions[0])[0] // an ordinary output holding exactly 1 hour at head time t1
	// at head time t1 the huge output has earned >= 20 hours: 2^64-1-e + 20 does not fit, so it counts as zero
	if offer("legacy-overflow-input-hours-1", hand(coin.Transactions{spend([]coin.UxOut{big}, 1)}, t1+3600), true, true, nil) {
		return
	}
	// together with an ordinary input listed first: the inputs are worth 1 + 0 hours
	if offer("legacy-overflow-input-hours-1", hand(coin.Transactions{spend([]coin.UxOut{x, big}, 2)}, t1+3600), true, true, nil) {
		return
	}
	// the overflowing input's COINS still count: a transaction that pays out only the ordinary input's coins destroys coins
	destroy := spend([]coin.UxOut{x, big}, 1)
	destroy.Out[0].Coins = x.Body.Coins
	destroy.Sigs = nil
	destroy.SignInputs([]cipher.SecKey{keyOf[x.Body.Address], keyOf[big.Body.Address]})
	if err := destroy.UpdateHeader(); err != nil {
		t.Fatal(err)
	}
	if offer("legacy-overflow-input-coins-destroyed", hand(coin.Transactions{destroy}, t1+3600), true, true, nil) {
		return
	}
	offer("legacy-overflow-input-hours-0", hand(coin.Transactions{spend([]coin.UxOut{x, big}, 1)}, t1+3600), true, true, nil)
}

// vlEarly ends an undiverged history with a block that arrives before its predecessor: the publisher (which is one block ahead
// for the occasion) makes blocks k+1 and k+2; the follower is offered k+2 (a genuine, correctly signed block - but not the next
// one), then k+1, then k+2 signed by a foreign key and k+2 with another body under the genuine signature, then k+2.
// Having seen a block before must not vouch for anything offered later.
func vlEarly(t *testing.T, P, F *vlNode, sec, otherSec cipher.SecKey, keyOf map[cipher.Address]cipher.SecKey, dst cipher.Address,
	offer func(string, coin.SignedBlock, bool, bool, map[int]bool) bool) {
	handOn := func(N *vlNode, txns coin.Transactions, when uint64) coin.SignedBlock {
		var head *coin.SignedBlock
		var uxh cipher.SHA256
		if err := N.db.View("verif early", func(tx *dbutil.Tx) error {
			var err error
			if head, err = N.v.blockchain.Head(tx); err != nil {
				return err
			}
			uxh, err = N.v.blockchain.Unspent().GetUxHash(tx)
			return err
		}); err != nil {
			t.Fatal(err)
		}
		if when <= head.Head.Time {
			when = head.Head.Time + 3600
		}
		b, err := coin.NewBlock(head.Block, when, uxh, txns, vlZeroFee)
		if err != nil {
			t.Fatal(err)
		}
		return coin.SignedBlock{Block: *b, Sig: cipher.MustSignHash(b.HashHeader(), sec)}
	}
	uxs, err := P.v.GetAllUnspentOutputs()
	if err != nil {
		t.Fatal(err)
	}
	sort.Slice(uxs, func(i, j int) bool { return uxs[i].Hash().Hex() < uxs[j].Hash().Hex() })
	var mine []coin.UxOut
	for _, ux := range uxs {
		if _, ok := keyOf[ux.Body.Address]; ok && ux.Body.Coins >= 1e6 {
			mine = append(mine, ux)
		}
	}
	if len(mine) == 0 {
		return
	}
	if len(mine) < 6 {
		// not enough separate outputs for what follows: the richest one is split into seven by a (valid) block first
		rich := mine[0]
		for _, ux := range mine {
			if ux.Body.Coins > rich.Body.Coins {
				rich = ux
			}
		}
		if rich.Body.Coins < 14e6 {
			return
		}
		var tx coin.Transaction
		if err := tx.PushInput(rich.Hash()); err != nil {
			t.Fatal(err)
		}
		part := uint64(2e6) // six small outputs, the rest stays together
		for i := 0; i < 6; i++ {
			tx.Out = append(tx.Out, coin.TransactionOutput{Address: dst, Coins: part, Hours: uint64(i)})
		}
		tx.Out = append(tx.Out, coin.TransactionOutput{Address: dst, Coins: rich.Body.Coins - 6*part, Hours: 7})
		tx.SignInputs([]cipher.SecKey{keyOf[rich.Body.Address]})
		if err := tx.UpdateHeader(); err != nil {
			t.Fatal(err)
		}
		b0 := handOn(P, coin.Transactions{tx}, 0)
		if !offer("valid", b0, true, true, nil) {
			return
		}
		if err := P.v.ExecuteSignedBlock(b0); err != nil {
			t.Fatalf("publisher refused a hand-made valid block: %v", err)
		}
		mine = coin.CreateUnspents(b0.Head, tx)
	}
	sort.SliceStable(mine, func(i, j int) bool { return mine[i].Body.Coins < mine[j].Body.Coins }) // the poorest first, the richest last
	spend := func(ux coin.UxOut) coin.Transaction {
		var tx coin.Transaction
		if err := tx.PushInput(ux.Hash()); err != nil {
			t.Fatal(err)
		}
		tx.Out = append(tx.Out, coin.TransactionOutput{Address: dst, Coins: ux.Body.Coins, Hours: 0})
		tx.SignInputs([]cipher.SecKey{keyOf[ux.Body.Address]})
		if err := tx.UpdateHeader(); err != nil {
			t.Fatal(err)
		}
		return tx
	}
	b1 := handOn(P, coin.Transactions{spend(mine[0])}, 0)
	if err := P.v.ExecuteSignedBlock(b1); err != nil {
		t.Fatalf("publisher refused a hand-made valid block: %v", err)
	}
	b2 := handOn(P, coin.Transactions{spend(mine[1])}, 0)
	if offer("early-successor", b2, true, true, nil) {
		return
	}
	if !offer("valid", b1, true, true, nil) {
		return
	}
	if offer("seen-before-now-foreign-signature", coin.SignedBlock{Block: b2.Block, Sig: cipher.MustSignHash(b2.HashHeader(), otherSec)}, false, true, nil) {
		return
	}
	rb := b2
	rb.Body.Transactions = coin.Transactions{spend(mine[2])} // another body under the header (and signature) that was seen before
	if offer("seen-before-now-another-body", rb, true, false, nil) {
		return
	}
	if !offer("valid", b2, true, true, nil) {
		return
	}
	if err := P.v.ExecuteSignedBlock(b2); err != nil {
		t.Fatalf("publisher refused a hand-made valid block: %v", err)
	}
	// ---- a jump of the block time (a publisher may sign any later time): coin hours are seconds x coins / 3600, and for
	// the richest output the product no longer fits 64 bits - it cannot be spent any more, whatever hours the spend claims
	var rich coin.UxOut
	for _, ux := range mine[2:] {
		if ux.Body.Coins > rich.Body.Coins {
			rich = ux
		}
	}
	const jumpTo = uint64(1)<<31 - 5000
	if rich.Body.Coins/1e6 < 1<<33 || len(mine) < 5 {
		return
	}
	other := mine[2]
	if other.Hash() == rich.Hash() {
		other = mine[3]
	}
	b3 := handOn(P, coin.Transactions{spend(other)}, jumpTo)
	if !offer("valid-time-jump", b3, true, true, nil) {
		return
	}
	if err := P.v.ExecuteSignedBlock(b3); err != nil {
		t.Fatalf("publisher refused a hand-made valid block: %v", err)
	}
	b4 := handOn(P, coin.Transactions{spend(rich)}, jumpTo+3600)
	offer("spend-of-an-input-whose-coin-seconds-overflow", b4, true, true, nil)
}
