package visor

// Overlaid into /repo/src/visor at build time by /verif/check (go test -overlay); never written to /repo.
// TestVerifPool runs seeded random histories of the unconfirmed pool and of block creation on a real
// arbitrating publisher visor and a real follower visor (bolt files).  Every pool operation is one record
// for specs/ledger/PoolRecords.tla (pre pool, arguments, result, post pool, plus the ledger projection the
// rules are evaluated against); every block execution is one edge for specs/ledger/LedgerEdges.tla.
// The harness decides nothing about validity: it logs what each transaction IS, and TLC evaluates the rules.

import (
	"bufio"
	"encoding/json"
	"fmt"
	"io/ioutil"
	"math/rand"
	"os"
	"path/filepath"
	"sort"
	"strconv"
	"strings"
	"testing"

	"github.com/skycoin/skycoin/src/cipher"
	"github.com/skycoin/skycoin/src/cipher/encoder"
	"github.com/skycoin/skycoin/src/coin"
	"github.com/skycoin/skycoin/src/params"
	"github.com/skycoin/skycoin/src/transaction"
	"github.com/skycoin/skycoin/src/visor/dbutil"
)

type vpParams struct {
	Burn    []int  `json:"burn"`
	MaxSize uint32 `json:"maxSize"`
	Prec    int    `json:"prec"`
}

type vpTxn struct {
	Hash    string   `json:"hash"`
	Size    int      `json:"size"`
	Rank    int      `json:"rank"`
	SigsOK  bool     `json:"sigsOK"`
	NullOut bool     `json:"nullOut"`
	Ins     []string `json:"ins"`
	Outs    []vlOut  `json:"outs"`
	Kind    string   `json:"kind"`
}

type vpEntry struct {
	Hash  string `json:"hash"`
	Valid bool   `json:"valid"`
}

type vpRec struct {
	Via      string    `json:"via"`
	Ev       string    `json:"ev"`
	Hist     int       `json:"hist"`
	Step     int       `json:"step"`
	Node     string    `json:"node"`
	Kind     string    `json:"kind"`
	St       vlState   `json:"st"`
	P        vpParams  `json:"p"`
	Locked   []string  `json:"locked"`
	MaxBlock uint32    `json:"maxBlock"`
	MaxTxns  int       `json:"maxTxns"`
	Pre      []vpEntry `json:"pre"`
	Post     []vpEntry `json:"post"`
	Txns     []vpTxn   `json:"txns"` // inject: the one transaction; others: the pooled transactions described at the current head
	Res      string    `json:"res"`
	SoftErr  bool      `json:"softErr"`
	Err      string    `json:"err"`
	Hashes   []string  `json:"hashes"` // refresh: became valid; remove_invalid: removed; create: the block's transactions in order
}

func vpP(p params.VerifyTxn) vpParams {
	return vpParams{Burn: vlLimbs(uint64(p.BurnFactor)), MaxSize: p.MaxTransactionSize, Prec: int(p.MaxDropletPrecision)}
}

func (n *vlNode) poolEntries(t *testing.T) ([]vpEntry, coin.Transactions) {
	out := []vpEntry{}
	var txns coin.Transactions
	err := n.db.View("verif pool", func(tx *dbutil.Tx) error {
		return n.v.unconfirmed.ForEach(tx, func(h cipher.SHA256, u UnconfirmedTransaction) error {
			out = append(out, vpEntry{Hash: h.Hex(), Valid: u.IsValid == 1})
			txns = append(txns, u.Transaction)
			return nil
		})
	})
	if err != nil {
		t.Fatal(err)
	}
	sort.Slice(out, func(i, j int) bool { return out[i].Hash < out[j].Hash })
	return out, txns
}

func (n *vlNode) head(t *testing.T) coin.SignedBlock {
	var head *coin.SignedBlock
	if err := n.db.View("verif head", func(tx *dbutil.Tx) error {
		var err error
		head, err = n.v.blockchain.Head(tx)
		return err
	}); err != nil {
		t.Fatal(err)
	}
	return *head
}

func vpDescribe(head coin.BlockHeader, txns coin.Transactions, badSig map[string]bool, kinds map[string]string) []vpTxn {
	hashes := make([]string, len(txns))
	for i := range txns {
		hashes[i] = txns[i].Hash().Hex()
	}
	sorted := append([]string{}, hashes...)
	sort.Strings(sorted)
	rank := map[string]int{}
	for i, h := range sorted {
		rank[h] = i
	}
	out := []vpTxn{}
	for i, txn := range txns {
		vt := vpTxn{Hash: hashes[i], Size: len(encoder.Serialize(txn)), Rank: rank[hashes[i]], SigsOK: !badSig[hashes[i]], Ins: []string{}, Outs: []vlOut{}, Kind: kinds[hashes[i]]}
		for _, in := range txn.In {
			vt.Ins = append(vt.Ins, in.Hex())
		}
		for _, ux := range coin.CreateUnspents(head, txn) {
			vt.Outs = append(vt.Outs, vlOut{ID: ux.Hash().Hex(), Addr: ux.Body.Address.String(), Coins: vlLimbs(ux.Body.Coins), Hours: vlLimbs(ux.Body.Hours)})
			if ux.Body.Address.Null() {
				vt.NullOut = true
			}
		}
		out = append(out, vt)
	}
	return out
}

func vpClass(err error) string {
	switch err.(type) {
	case nil:
		return "ok"
	case transaction.ErrTxnViolatesHardConstraint:
		return "hard"
	case transaction.ErrTxnViolatesSoftConstraint:
		return "soft"
	case transaction.ErrTxnViolatesUserConstraint:
		return "user"
	}
	return "other"
}

func TestVerifPool(t *testing.T) {
	out := os.Getenv("VERIF_OUT")
	if out == "" {
		t.Skip("VERIF_OUT not set")
	}
	seed, _ := strconv.ParseInt(os.Getenv("VERIF_SEED"), 10, 64)
	nhist, _ := strconv.Atoi(os.Getenv("VERIF_HISTORIES"))
	nrounds, _ := strconv.Atoi(os.Getenv("VERIF_BLOCKS"))
	pf, err := os.Create(filepath.Join(out, "pool.ndjson"))
	if err != nil {
		t.Fatal(err)
	}
	ef, err := os.Create(filepath.Join(out, "edges.ndjson"))
	if err != nil {
		t.Fatal(err)
	}
	vf, err := os.Create(filepath.Join(out, "views.ndjson"))
	if err != nil {
		t.Fatal(err)
	}
	vw := bufio.NewWriterSize(vf, 1<<20)
	defer func() { vw.Flush(); vf.Close() }()
	vpViewEnc = json.NewEncoder(vw)
	pw, ew := bufio.NewWriter(pf), bufio.NewWriter(ef)
	// block creation that panics is recorded and ends the recorder: the database may be left with an open transaction
	vpAbort = func() {
		pw.Flush()
		ew.Flush()
		vw.Flush()
		pf.Close()
		ef.Close()
		vf.Close()
		os.Exit(0)
	}
	saved := params.UserVerifyTxn
	defer func() { params.UserVerifyTxn = saved }()
	for h := 0; h < nhist; h++ {
		vpHistory(t, json.NewEncoder(pw), json.NewEncoder(ew), h, rand.New(rand.NewSource(seed*7000003+int64(h))), nrounds)
	}
	pw.Flush()
	ew.Flush()
	pf.Close()
	ef.Close()
}

var vpViewEnc *json.Encoder
var vpAbort func()

// vpGuard runs a block-creating call; a panic is turned into its text
func vpGuard(f func() error) (err error, panicked string) {
	defer func() {
		if r := recover(); r != nil {
			panicked = fmt.Sprint(r)
		}
	}()
	return f(), ""
}

func vpHistory(t *testing.T, penc, eenc *json.Encoder, hist int, rng *rand.Rand, nrounds int) {
	dir, err := ioutil.TempDir("", "verifpool")
	if err != nil {
		t.Fatal(err)
	}
	defer os.RemoveAll(dir)

	pub, sec, _ := cipher.GenerateDeterministicKeyPair([]byte(fmt.Sprintf("publisher-%d", rng.Int63())))
	_, otherSec, _ := cipher.GenerateDeterministicKeyPair([]byte("not the publisher"))
	type owner struct {
		addr cipher.Address
		sec  cipher.SecKey
	}
	owners := make([]owner, 5)
	keyOf := map[cipher.Address]cipher.SecKey{}
	for i := range owners {
		p, s, _ := cipher.GenerateDeterministicKeyPair([]byte(fmt.Sprintf("owner-%d-%d", i, rng.Int63())))
		owners[i] = owner{cipher.AddressFromPubKey(p), s}
		keyOf[owners[i].addr] = s
	}

	// parameters: user <= unconfirmed, create (visor.Config.Verify demands it); owners[3] is a locked distribution address
	burns := []uint32{2, 3, 10}
	user := params.VerifyTxn{BurnFactor: burns[rng.Intn(3)], MaxTransactionSize: 1024 + uint32(rng.Intn(3))*300, MaxDropletPrecision: uint8(rng.Intn(4))}
	params.UserVerifyTxn = user
	unc := params.VerifyTxn{BurnFactor: user.BurnFactor + uint32(rng.Intn(2))*uint32(1+rng.Intn(5)), MaxTransactionSize: user.MaxTransactionSize + uint32(rng.Intn(2))*200, MaxDropletPrecision: user.MaxDropletPrecision + uint8(rng.Intn(3))}
	crt := params.VerifyTxn{BurnFactor: user.BurnFactor + uint32(rng.Intn(2))*uint32(1+rng.Intn(5)), MaxTransactionSize: user.MaxTransactionSize + uint32(rng.Intn(2))*200, MaxDropletPrecision: user.MaxDropletPrecision + uint8(rng.Intn(3))}
	cfg := NewConfig()
	cfg.BlockchainPubkey = pub
	cfg.GenesisAddress = owners[0].addr
	cfg.GenesisTimestamp = vlGenesisTime
	// one history in four runs at the top of the 64-bit range: the whole range is the coin volume (and so the genesis coin
	// hours), and two part-coin outputs that never earn anything carry all but a few of the 2^64-1 hours - the fee and burn
	// arithmetic for their joint spend is within a few units of wrapping
	top := hist%4 == 3
	volume := vlVolume
	if top {
		volume = ^uint64(0)
	}
	cfg.GenesisCoinVolume = volume
	cfg.UnconfirmedVerifyTxn = unc
	cfg.CreateBlockVerifyTxn = crt
	cfg.MaxBlockTransactionsSize = crt.MaxTransactionSize + uint32(rng.Intn(3))*250
	cfg.Distribution = params.Distribution{MaxCoinSupply: 100, InitialUnlockedCount: 1, Addresses: []string{owners[2].addr.String(), owners[3].addr.String()}}
	locked := []string{owners[3].addr.String()}
	pcfg := cfg
	pcfg.IsBlockPublisher = true
	pcfg.Arbitrating = true // as skycoin.go configures a block publisher
	pcfg.BlockchainSeckey = sec
	P := vlOpen(t, filepath.Join(dir, "p.db"), pcfg)
	defer P.db.Close()
	gb, err := P.v.GetSignedBlockBySeq(0)
	if err != nil || gb == nil {
		t.Fatal("no genesis", err)
	}
	fcfg := cfg
	fcfg.GenesisSignature = gb.Sig
	F := vlOpen(t, filepath.Join(dir, "f.db"), fcfg)
	defer func() { F.db.Close() }()
	name := map[*vlNode]string{P: "P", F: "F"}

	step := 0
	tieAddr := map[cipher.Address]bool{}
	var topAddr cipher.Address
	var topK uint64
	badSig := map[string]bool{}
	kinds := map[string]string{}
	emit := func(r vpRec) {
		r.Hist, r.Step = hist, step
		step++
		r.Locked = locked
		if r.Txns == nil {
			r.Txns = []vpTxn{}
		}
		if r.Hashes == nil {
			r.Hashes = []string{}
		}
		if r.P.Burn == nil {
			r.P.Burn = []int{}
		}
		if err := penc.Encode(r); err != nil {
			t.Fatal(err)
		}
	}
	viewAddrs := []cipher.Address{}
	for _, o := range owners {
		viewAddrs = append(viewAddrs, o.addr)
	}
	viewAddrs = append(viewAddrs, cipher.AddressFromPubKey(pub)) // an address that never receives anything
	emitView := func(N *vlNode, nm, phase string) {
		if top {
			// with 2^64-1 coins the balance queries fail by design as soon as two pending transactions pay one address
			// (their predicted outputs do not fit 64 bits together): the views are recorded in the other histories
			return
		}
		r := vwViews(t, N, nm, phase, viewAddrs, int(rng.Int31n(1000)))
		r.Hist, r.Step = hist, step
		step++
		if err := vpViewEnc.Encode(r); err != nil {
			t.Fatal(err)
		}
	}
	hexes := func(hs []cipher.SHA256) []string {
		o := []string{}
		for _, h := range hs {
			o = append(o, h.Hex())
		}
		sort.Strings(o)
		return o
	}
	// one ledger edge: block sb offered to node N
	offer := func(N *vlNode, mut string, sb coin.SignedBlock) bool {
		pre := N.state(t)
		e := vlEdge{Hist: hist, Step: step, Mut: mut, Volume: vlLimbs(volume), Pre: pre, Blk: vlDescribe(sb, coin.BlockHeader{}, true, true, nil)}
		for i := range e.Blk.Txns {
			e.Blk.Txns[i].SigsOK = !badSig[e.Blk.Txns[i].Hash]
		}
		step++
		err := N.v.ExecuteSignedBlock(sb)
		e.Res = "accepted"
		if err != nil {
			e.Res, e.Err = "rejected", err.Error()
		}
		e.Post = N.state(t)
		if err == nil {
			if st, _ := N.v.GetSignedBlockBySeq(e.Post.HeadSeq); st != nil {
				e.Stored = vlStored{SigOK: st.VerifySignature(pub) == nil, Hash: st.HashHeader().Hex()}
			}
		}
		if err := eenc.Encode(e); err != nil {
			t.Fatal(err)
		}
		return err == nil
	}
	sign := func(b coin.Block, k cipher.SecKey) coin.SignedBlock {
		return coin.SignedBlock{Block: b, Sig: cipher.MustSignHash(b.HashHeader(), k)}
	}
	_ = otherSec

	// ---- while the head is still the genesis block: a pending transaction spending the genesis output, and the views with it
	if hist%2 == 1 {
		uxs, _ := F.v.GetAllUnspentOutputs()
		var txn coin.Transaction
		_ = txn.PushInput(uxs[0].Hash())
		txn.Out = append(txn.Out, coin.TransactionOutput{Address: owners[1].addr, Coins: uxs[0].Body.Coins - 5e6, Hours: 10},
			coin.TransactionOutput{Address: owners[0].addr, Coins: 5e6, Hours: 1})
		txn.SignInputs([]cipher.SecKey{owners[0].sec})
		_ = txn.UpdateHeader()
		if _, _, err := F.v.InjectForeignTransaction(txn); err != nil {
			t.Fatalf("inject at genesis: %v", err)
		}
		emitView(F, "F", "genesis-pending")
	}

	// ---- block 1 (made by hand): split the genesis output over the owners, including the locked address
	now := vlGenesisTime + 3600*uint64(50+rng.Intn(100))
	{
		uxs, _ := P.v.GetAllUnspentOutputs()
		var txn coin.Transaction
		_ = txn.PushInput(uxs[0].Hash())
		rem := uxs[0].Body.Coins
		hrs, _ := uxs[0].CoinHours(vlGenesisTime)
		remH := hrs / 2
		if top {
			remH = 0
		}
		nout := 8 + rng.Intn(5)
		for k := 0; k < nout; k++ {
			c, hh := rem, remH
			if k < nout-1 {
				c = (1 + uint64(rng.Int63n(int64(rem/1e6/uint64(nout-k)/2)))) * 1e6
				hh = 0
				if remH > 0 {
					hh = uint64(rng.Int63n(int64(remH/uint64(nout-k)))) / uint64(1+rng.Intn(1000000))
				}
			}
			dst := owners[k%4].addr
			txn.Out = append(txn.Out, coin.TransactionOutput{Address: dst, Coins: c, Hours: hh})
			rem -= c
			remH -= hh
		}
		// a batch of identical outputs: the transactions that later spend them one by one have the same size and the same
		// fee, so their order in a block is decided by the hash tie-break alone
		nTies := 0
		if (hist%3 == 0 || hist == 1) && !top {
			nTies = 14 + rng.Intn(6) // (not at the top of the range: all of the genesis hours are spoken for there)
		}
		last := len(txn.Out) - 1
		for k := 0; k < nTies && txn.Out[last].Coins > 4e6; k++ {
			p, sk, _ := cipher.GenerateDeterministicKeyPair([]byte(fmt.Sprintf("tie-%d-%d", k, rng.Int63())))
			ta := cipher.AddressFromPubKey(p)
			keyOf[ta] = sk
			tieAddr[ta] = true
			txn.Out = append(txn.Out, coin.TransactionOutput{Address: ta, Coins: 2e6, Hours: 40})
			txn.Out[last].Coins -= 2e6
		}
		if top {
			p, sk, _ := cipher.GenerateDeterministicKeyPair([]byte(fmt.Sprintf("top-%d", rng.Int63())))
			topAddr = cipher.AddressFromPubKey(p)
			keyOf[topAddr] = sk
			tieAddr[topAddr] = true // reserved, like the tie batch
			// half a coin earns an hour every two hours: after the topK hours until block 2 the pair holds 2^64-1-j hours
			topK = 2 * uint64(1+rng.Intn(25))
			txn.Out = append(txn.Out, coin.TransactionOutput{Address: topAddr, Coins: 500000, Hours: hrs - 3 - topK - uint64([]int{0, 0, 0, 1}[rng.Intn(4)])},
				coin.TransactionOutput{Address: topAddr, Coins: 500000, Hours: 3})
			txn.Out[last].Coins -= 1e6
		}
		txn.SignInputs([]cipher.SecKey{owners[0].sec})
		_ = txn.UpdateHeader()
		var uxh cipher.SHA256
		_ = P.db.View("uxh", func(tx *dbutil.Tx) error {
			var err error
			uxh, err = P.v.blockchain.Unspent().GetUxHash(tx)
			return err
		})
		b, err := coin.NewBlock(gb.Block, now, uxh, coin.Transactions{txn}, vlZeroFee)
		if err != nil {
			t.Fatal(err)
		}
		sb := sign(*b, sec)
		if !offer(P, "valid", sb) || !offer(F, "valid", sb) {
			return
		}
	}

	if top {
		// block 2 (by hand as well) only moves time on, so that the ordinary outputs - created with no hours - have earned some
		uxs, _ := P.v.GetAllUnspentOutputs()
		sort.Slice(uxs, func(i, j int) bool { return uxs[i].Hash().Hex() < uxs[j].Hash().Hex() })
		for _, ux := range uxs {
			if ux.Body.Address != owners[1].addr {
				continue
			}
			var txn coin.Transaction
			_ = txn.PushInput(ux.Hash())
			txn.Out = append(txn.Out, coin.TransactionOutput{Address: owners[1].addr, Coins: ux.Body.Coins})
			txn.SignInputs([]cipher.SecKey{owners[1].sec})
			_ = txn.UpdateHeader()
			var uxh cipher.SHA256
			_ = P.db.View("uxh", func(tx *dbutil.Tx) error {
				var err error
				uxh, err = P.v.blockchain.Unspent().GetUxHash(tx)
				return err
			})
			now += 3600 * topK
			b, err := coin.NewBlock(P.head(t).Block, now, uxh, coin.Transactions{txn}, vlZeroFee)
			if err != nil {
				t.Fatal(err)
			}
			sb := sign(*b, sec)
			if !offer(P, "valid", sb) || !offer(F, "valid", sb) {
				return
			}
			break
		}
	}
	emitView(F, "F", "after-block-1")
	var spent []coin.UxOut
	// ---- transaction generator
	mk := func(N *vlNode, kind string, ins []coin.UxOut, burn uint32) (coin.Transaction, bool) {
		// "big-<kind>": the same with so many outputs that it is over the size limit as well
		fullKind := kind
		big := kind == "big" || strings.HasPrefix(kind, "big-")
		kind = strings.TrimPrefix(kind, "big-")
		head := N.head(t)
		var txn coin.Transaction
		var coins, hours uint64
		var keys []cipher.SecKey
		for _, ux := range ins {
			_ = txn.PushInput(ux.Hash())
			coins += ux.Body.Coins
			hh, err := ux.CoinHours(head.Head.Time)
			if err != nil {
				hh = 0
			}
			hours += hh
			keys = append(keys, keyOf[ux.Body.Address])
		}
		if coins == 0 {
			return txn, false
		}
		req := hours / uint64(burn)
		if hours%uint64(burn) != 0 {
			req++
		}
		outH := hours / 2
		switch kind {
		case "fee-exact":
			outH = hours - req
		case "fee-minus-one":
			if req == 0 {
				return txn, false
			}
			outH = hours - req + 1
		case "fee-all":
			outH = 0
		case "zero-fee":
			outH = hours
		case "hours-over":
			outH = hours + 1
		}
		nout := 1 + rng.Intn(3)
		if big {
			nout = 24 + rng.Intn(10) // around the limit
			if fullKind != "big" {
				nout = 46 + rng.Intn(6) // above every limit in use: over the size limit AND something else
			}
		}
		if kind == "null-out" {
			nout = 1 + rng.Intn(3) + rng.Intn(2) // the null address at any position of 1..4 outputs
		}
		unit := uint64(1e6)
		if kind == "precision" {
			unit = []uint64{1, 10, 100, 1000, 10000, 100000}[rng.Intn(6)]
		}
		if coins < uint64(nout)*2*unit {
			nout = 1
		}
		if kind == "coins-created" {
			coins += unit
		}
		rem, remH := coins, outH
		nullAt := rng.Intn(nout)
		for k := 0; k < nout; k++ {
			c, hh := rem, remH
			if k < nout-1 {
				c = (1 + uint64(rng.Int63n(int64(rem/unit/uint64(nout-k))))) * unit
				hh = uint64(rng.Int63n(int64(remH/uint64(nout-k) + 1)))
			}
			dst := owners[rng.Intn(len(owners))].addr
			if kind == "null-out" && k == nullAt {
				dst = cipher.Address{}
			}
			txn.Out = append(txn.Out, coin.TransactionOutput{Address: dst, Coins: c, Hours: hh})
			rem -= c
			remH -= hh
		}
		if kind == "hours-overflow" {
			if len(txn.Out) < 2 {
				if txn.Out[0].Coins < 2e6 {
					return txn, false
				}
				txn.Out[0].Coins -= 1e6
				txn.Out = append(txn.Out, coin.TransactionOutput{Address: owners[1].addr, Coins: 1e6})
			}
			txn.Out[0].Hours = 1 << 63
			txn.Out[1].Hours = 1<<63 + uint64(rng.Intn(3))
			if rng.Intn(4) > 0 && txn.Out[0].Coins >= 2e6 {
				// the sum wraps in an addition that is not the last one: 2^64-1-k, then k+1+..., then a small third amount
				k := uint64(rng.Intn(1000))
				txn.Out[0].Coins -= 1e6
				txn.Out = append(txn.Out, coin.TransactionOutput{Address: owners[2].addr, Coins: 1e6, Hours: uint64(1 + rng.Intn(50))})
				txn.Out[0].Hours = ^uint64(0) - k
				txn.Out[1].Hours = k + 1 + uint64(rng.Intn(100))
				if rng.Intn(3) == 0 {
					txn.Out[0], txn.Out[2] = txn.Out[2], txn.Out[0] // or in the last one after all, in another position
				}
			}
		}
		if kind == "unknown-input" {
			var hsh cipher.SHA256
			rng.Read(hsh[:])
			txn.In[0] = hsh
		}
		txn.SignInputs(keys)
		if kind == "bad-sig" {
			txn.Sigs[rng.Intn(len(txn.Sigs))] = cipher.MustSignHash(txn.HashInner(), otherSec)
		}
		if err := txn.UpdateHeader(); err != nil {
			t.Fatal(err)
		}
		h := txn.Hash().Hex()
		kinds[h] = fullKind
		if kind == "bad-sig" {
			badSig[h] = true
		}
		return txn, true
	}

	record := func(N *vlNode, ev string) vpRec {
		pre, txns := N.poolEntries(t)
		return vpRec{Ev: ev, Node: name[N], St: N.state(t), Pre: pre, Txns: vpDescribe(N.head(t).Head, txns, badSig, kinds)}
	}
	inject := func(N *vlNode, txn coin.Transaction, user bool) {
		r := record(N, "inject")
		r.Txns = vpDescribe(N.head(t).Head, coin.Transactions{txn}, badSig, kinds)
		if user {
			r.Kind, r.P = "user", vpP(params.UserVerifyTxn)
			var known bool
			var err error
			if rng.Intn(2) == 0 {
				known, _, _, err = N.v.InjectUserTransaction(txn)
			} else {
				// the entry point the daemon gateway uses for inject-and-broadcast: the same rules inside a caller's update
				r.Via = "WithUpdateTx"
				err = N.v.WithUpdateTx("verif inject", func(tx *dbutil.Tx) error {
					var e2 error
					known, _, _, e2 = N.v.InjectUserTransactionTx(tx, txn)
					return e2
				})
			}
			r.Res = vpClass(err)
			if err != nil {
				r.Err = err.Error()
			} else if known {
				r.Res = "known"
			}
		} else {
			r.Kind, r.P = "foreign", vpP(unc)
			known, softErr, err := N.v.InjectForeignTransaction(txn)
			r.Res = vpClass(err)
			if err != nil {
				r.Err = err.Error()
			} else if known {
				r.Res = "known"
			}
			r.SoftErr = softErr != nil
		}
		r.Post, _ = N.poolEntries(t)
		emit(r)
	}
	refresh := func(N *vlNode) {
		r := record(N, "refresh")
		r.P = vpP(unc)
		hs, err := N.v.RefreshUnconfirmed()
		if err != nil {
			r.Res, r.Err = "error", err.Error()
		} else {
			r.Res = "ok"
		}
		r.Hashes = hexes(hs)
		r.Post, _ = N.poolEntries(t)
		emit(r)
	}
	removeInvalid := func(N *vlNode) {
		r := record(N, "remove_invalid")
		hs, err := N.v.RemoveInvalidUnconfirmed()
		if err != nil {
			r.Res, r.Err = "error", err.Error()
		} else {
			r.Res = "ok"
		}
		r.Hashes = hexes(hs)
		r.Post, _ = N.poolEntries(t)
		emit(r)
	}

	kindsList := []string{"normal", "normal", "normal", "fee-exact", "fee-exact", "fee-minus-one", "zero-fee", "hours-over", "precision", "precision", "locked", "null-out", "null-out",
		"bad-sig", "unknown-input", "spent-input", "big", "big-bad-sig", "big-coins-created", "big-hours-over", "big-zero-fee", "hours-overflow", "conflict", "conflict", "chain", "coins-created"}
	var lastTxns []coin.Transaction
	topRound := 0 // while block 2 is the head
	for round := 0; round < nrounds; round++ {
		uxs, err := P.v.GetAllUnspentOutputs()
		if err != nil {
			t.Fatal(err)
		}
		sort.Slice(uxs, func(i, j int) bool { return uxs[i].Hash().Hex() < uxs[j].Hash().Hex() })
		var free, lockedUx []coin.UxOut
		for _, ux := range uxs {
			if ux.Body.Address == owners[3].addr {
				lockedUx = append(lockedUx, ux)
			} else if tieAddr[ux.Body.Address] {
				continue // reserved for the tie batch
			} else if _, ok := keyOf[ux.Body.Address]; ok {
				free = append(free, ux)
			}
		}
		if len(free) == 0 {
			break
		}
		pickIns := func() []coin.UxOut {
			k := 1
			if len(free) > 1 && rng.Intn(3) == 0 {
				k = 2
			}
			p := rng.Perm(len(free))
			o := []coin.UxOut{}
			for _, i := range p[:k] {
				o = append(o, free[i])
			}
			return o
		}
		burnChoices := []uint32{user.BurnFactor, unc.BurnFactor, crt.BurnFactor}
		nt := 2 + rng.Intn(5)
		lastTxns = nil
		for i := 0; i < nt; i++ {
			kind := kindsList[rng.Intn(len(kindsList))]
			if i == 0 && round%2 == 1 && len(free) >= 2 {
				kind = "chain" // every second round starts with a conflict chain
			}
			if i == 1 && round == 0 {
				kind = "hours-overflow" // once in every history: output hours that do not fit 64 bits together
			}
			burn := burnChoices[rng.Intn(3)]
			var batch []coin.Transaction
			switch kind {
			case "locked":
				if len(lockedUx) == 0 {
					continue
				}
				// a locked output alone, or together with an ordinary one (in either position)
				lin := []coin.UxOut{lockedUx[rng.Intn(len(lockedUx))]}
				if rng.Intn(2) == 0 {
					if rng.Intn(2) == 0 {
						lin = append(lin, free[rng.Intn(len(free))])
					} else {
						lin = append([]coin.UxOut{free[rng.Intn(len(free))]}, lin...)
					}
				}
				if txn, ok := mk(P, kind, lin, burn); ok {
					batch = append(batch, txn)
				}
			case "spent-input":
				if len(spent) == 0 {
					continue
				}
				if txn, ok := mk(P, kind, []coin.UxOut{spent[rng.Intn(len(spent))]}, burn); ok {
					batch = append(batch, txn)
				}
			case "conflict":
				// a second spend of an input some pending transaction already uses
				if len(lastTxns) == 0 {
					continue
				}
				prev := lastTxns[rng.Intn(len(lastTxns))]
				var in []coin.UxOut
				for _, ux := range uxs {
					if ux.Hash() == prev.In[0] {
						in = append(in, ux)
					}
				}
				if len(in) == 0 {
					continue
				}
				if _, ok := keyOf[in[0].Body.Address]; !ok {
					continue
				}
				if txn, ok := mk(P, []string{"normal", "fee-exact"}[rng.Intn(2)], in, burn); ok {
					kinds[txn.Hash().Hex()] = "conflict"
					batch = append(batch, txn)
				}
			case "chain":
				// A(x), B(x, y), C(y): B conflicts with both, A and C do not conflict with each other
				if len(free) < 2 {
					continue
				}
				p := rng.Perm(len(free))
				// one chain with the middle transaction's inputs in each order (two chains when there are enough free outputs)
				for c := 0; c+1 < len(p) && c < 4; c += 2 {
					x, y := free[p[c]], free[p[c+1]]
					mid := []coin.UxOut{x, y}
					if c == 0 || rng.Intn(2) == 0 {
						mid = []coin.UxOut{y, x} // the input shared with the LATER transaction first
					}
					// the first chain in a fixed fee order A > B > C (A burns all its hours and has the richer input, B half, C the
					// minimum), so that the middle transaction is the one that loses and the last one must stay
					hx, _ := x.CoinHours(P.head(t).Head.Time)
					hy, _ := y.CoinHours(P.head(t).Head.Time)
					if c == 0 && hx < hy {
						x, y = y, x
						if mid[0] == y {
							mid = []coin.UxOut{x, y}
						} else {
							mid = []coin.UxOut{y, x}
						}
					}
					for q, in := range [][]coin.UxOut{{x}, mid, {y}} {
						kind := []string{"normal", "fee-exact"}[rng.Intn(2)]
						if c == 0 {
							kind = []string{"fee-all", "normal", "fee-exact"}[q]
						}
						if txn, ok := mk(P, kind, in, burn); ok {
							kinds[txn.Hash().Hex()] = "chain"
							batch = append(batch, txn)
						}
					}
				}
			default:
				if txn, ok := mk(P, kind, pickIns(), burn); ok {
					batch = append(batch, txn)
				}
			}
			for _, txn := range batch {
				inject(P, txn, rng.Intn(3) == 0 || (kinds[txn.Hash().Hex()] == "null-out" && rng.Intn(4) > 0))
				if rng.Intn(3) == 0 || kinds[txn.Hash().Hex()] == "hours-overflow" {
					inject(F, txn, false)
				}
				if rng.Intn(6) == 0 {
					inject(P, txn, rng.Intn(2) == 0) // re-submission
				}
				lastTxns = append(lastTxns, txn)
			}
		}
		if top && round == topRound {
			// the joint spend of the two top-of-range outputs: one that burns too little, one that burns enough, or both
			var pair []coin.UxOut
			for _, ux := range uxs {
				if ux.Body.Address == topAddr {
					pair = append(pair, ux)
				}
			}
			if len(pair) == 2 {
				// first the one that burns too little for the publisher's rule, alone: the block made now must not have it;
				// then (every second time) one that burns enough, which must win the conflict
				badKind := "fee-minus-one"
				if txn, ok := mk(P, badKind, pair, crt.BurnFactor); ok {
					kinds[txn.Hash().Hex()] = "top-" + badKind
					inject(P, txn, rng.Intn(4) == 0)
					if rng.Intn(2) == 0 {
						inject(F, txn, false)
					}
					r := record(P, "create")
					r.P, r.MaxBlock, r.MaxTxns = vpP(crt), cfg.MaxBlockTransactionsSize, coin.MaxBlockTransactions
					var sb coin.SignedBlock
					cerr, pan := vpGuard(func() error {
						return P.db.View("verif create probe", func(tx *dbutil.Tx) error {
							var err error
							sb, err = P.v.createBlock(tx, now+10)
							return err
						})
					})
					if pan != "" {
						r.Res, r.Err, r.Post = "panic", pan, r.Pre
						emit(r)
						vpAbort()
					}
					r.Post, _ = P.poolEntries(t)
					if cerr != nil {
						r.Res, r.Err = "none", cerr.Error()
					} else {
						r.Res = "ok"
						for _, txn := range sb.Body.Transactions {
							r.Hashes = append(r.Hashes, txn.Hash().Hex())
						}
					}
					emit(r)
				}
				if rng.Intn(2) == 0 {
					k := []string{"fee-exact", "normal"}[rng.Intn(2)]
					if txn, ok := mk(P, k, pair, []uint32{user.BurnFactor, unc.BurnFactor, crt.BurnFactor}[rng.Intn(3)]); ok {
						kinds[txn.Hash().Hex()] = "top-" + k
						inject(P, txn, rng.Intn(4) == 0)
						if rng.Intn(2) == 0 {
							inject(F, txn, false)
						}
					}
				}
			}
		}
		if round == 0 {
			// the tie batch: one transaction per identical output, each burning exactly half of the same hours
			for _, ux := range uxs {
				if tieAddr[ux.Body.Address] && ux.Body.Address != topAddr {
					var txn coin.Transaction
					_ = txn.PushInput(ux.Hash())
					txn.Out = append(txn.Out, coin.TransactionOutput{Address: owners[rng.Intn(3)].addr, Coins: 2e6, Hours: 10})
					txn.SignInputs([]cipher.SecKey{keyOf[ux.Body.Address]})
					_ = txn.UpdateHeader()
					kinds[txn.Hash().Hex()] = "tie"
					inject(P, txn, false)
				}
			}
		}
		if rng.Intn(2) == 0 {
			emitView(P, "P", "pending")
		}
		if rng.Intn(2) == 0 {
			refresh(P)
		}
		if rng.Intn(3) == 0 {
			removeInvalid(P)
		}

		// ---- the publisher makes a block from its pool (same steps as CreateAndExecuteBlock, with a chosen time)
		now += 3600 * uint64(1+rng.Intn(100))
		r := record(P, "create")
		r.P, r.MaxBlock, r.MaxTxns = vpP(crt), cfg.MaxBlockTransactionsSize, coin.MaxBlockTransactions
		var sb coin.SignedBlock
		cerr, pan := vpGuard(func() error {
			return P.db.View("verif create", func(tx *dbutil.Tx) error {
				var err error
				sb, err = P.v.createBlock(tx, now)
				return err
			})
		})
		if pan != "" {
			r.Res, r.Err, r.Post = "panic", pan, r.Pre
			emit(r)
			vpAbort()
		}
		r.Post, _ = P.poolEntries(t)
		if cerr != nil {
			r.Res, r.Err = "none", cerr.Error()
			emit(r)
		} else {
			r.Res = "ok"
			for _, txn := range sb.Body.Transactions {
				r.Hashes = append(r.Hashes, txn.Hash().Hex())
			}
			emit(r)
			// every created block must be accepted by the independent follower (and by the publisher itself)
			var uxIn []coin.UxOut
			for _, txn := range sb.Body.Transactions {
				for _, in := range txn.In {
					for _, ux := range uxs {
						if ux.Hash() == in {
							uxIn = append(uxIn, ux)
						}
					}
				}
			}
			// before the block itself: the same block with one more, invalid, transaction (signed by the publisher key)
			// is offered to the arbitrating publisher and to the follower; either must refuse it without any change
			if rng.Intn(2) == 0 && len(free) > 0 {
				type extra struct{ mut, kind string }
				ex := []extra{{"arb-coins-created", "coins-created"}, {"arb-hours-created", "hours-over"}, {"arb-txn-badsig", "bad-sig"},
					{"arb-unknown-input", "unknown-input"}, {"arb-double-spend-in-block", "normal"}}[rng.Intn(5)]
				in := []coin.UxOut{free[rng.Intn(len(free))]}
				if ex.mut == "arb-double-spend-in-block" && len(uxIn) > 0 {
					in = []coin.UxOut{uxIn[rng.Intn(len(uxIn))]}
				}
				if _, ok := keyOf[in[0].Body.Address]; ok {
					if bad, ok := mk(P, ex.kind, in, crt.BurnFactor); ok {
						txs := append(coin.Transactions{}, sb.Body.Transactions...)
						at := rng.Intn(len(txs) + 1)
						txs = append(txs[:at], append(coin.Transactions{bad}, txs[at:]...)...)
						clash := false
						for _, txn := range sb.Body.Transactions {
							for _, i2 := range txn.In {
								if i2 == in[0].Hash() && ex.mut != "arb-double-spend-in-block" {
									clash = true
								}
							}
						}
						if !clash {
							hp := P.head(t)
							if hb, err := coin.NewBlock(hp.Block, now, sb.Head.UxHash, txs, vlZeroFee); err == nil {
								msb := sign(*hb, sec)
								if offer(P, ex.mut, msb) || offer(F, ex.mut, msb) {
									return
								}
							}
						}
					}
				}
			}
			okF := offer(F, "created", sb)
			okP := offer(P, "created-pub", sb)
			if !okF || !okP {
				return
			}
			spent = append(spent, uxIn...)
		}
		if rng.Intn(2) == 0 {
			emitView(F, "F", "after-block") // the pool may still hold what the block made impossible
		} else {
			emitView(P, "P", "after-block")
		}
		// the pool must track the chain: what the block made impossible is now hard-invalid
		if rng.Intn(2) == 0 {
			refresh(P)
		}
		if rng.Intn(2) == 0 {
			removeInvalid(P)
		}
		if rng.Intn(2) == 0 {
			refresh(F)
		}
		if rng.Intn(2) == 0 {
			removeInvalid(F)
		}
		emitView(P, "P", "round")
		if rng.Intn(3) == 0 {
			emitView(F, "F", "round")
		}
	}
	// ---- the last block through the publisher's own entry point: creation and execution in one commit, wall-clock block time
	if !top && hist%2 == 0 {
		uxs, err := P.v.GetAllUnspentOutputs()
		if err != nil {
			t.Fatal(err)
		}
		sort.Slice(uxs, func(i, j int) bool { return uxs[i].Hash().Hex() < uxs[j].Hash().Hex() })
		nfresh := 0
		for _, ux := range uxs {
			if _, ok := keyOf[ux.Body.Address]; !ok || tieAddr[ux.Body.Address] || ux.Body.Address == owners[3].addr || nfresh >= 3 {
				continue
			}
			if txn, ok := mk(P, []string{"normal", "fee-exact", "zero-fee"}[rng.Intn(3)], []coin.UxOut{ux}, crt.BurnFactor); ok {
				inject(P, txn, false)
				nfresh++
			}
		}
		r := record(P, "create_execute")
		r.P, r.MaxBlock, r.MaxTxns = vpP(crt), cfg.MaxBlockTransactionsSize, coin.MaxBlockTransactions
		pre := P.state(t)
		var sb coin.SignedBlock
		cerr, pan := vpGuard(func() error {
			var err error
			sb, err = P.v.CreateAndExecuteBlock()
			return err
		})
		if pan != "" {
			r.Res, r.Err, r.Post = "panic", pan, r.Pre
			emit(r)
			vpAbort()
		}
		r.Post, _ = P.poolEntries(t)
		if cerr != nil {
			r.Res, r.Err = "none", cerr.Error()
			emit(r)
		} else {
			r.Res = "ok"
			for _, txn := range sb.Body.Transactions {
				r.Hashes = append(r.Hashes, txn.Hash().Hex())
			}
			emit(r)
			e := vlEdge{Hist: hist, Step: step, Mut: "created-pub", Volume: vlLimbs(volume), Pre: pre, Blk: vlDescribe(sb, coin.BlockHeader{}, true, true, nil), Res: "accepted"}
			for i := range e.Blk.Txns {
				e.Blk.Txns[i].SigsOK = !badSig[e.Blk.Txns[i].Hash]
			}
			step++
			e.Post = P.state(t)
			if st, _ := P.v.GetSignedBlockBySeq(e.Post.HeadSeq); st != nil {
				e.Stored = vlStored{SigOK: st.VerifySignature(pub) == nil, Hash: st.HashHeader().Hex()}
			}
			if err := eenc.Encode(e); err != nil {
				t.Fatal(err)
			}
			if !offer(F, "created", sb) {
				return
			}
		}
		emitView(P, "P", "after-own-block")
		emitView(F, "F", "after-own-block")
	}
	// ---- rebuild: the derived data is dropped in the database file, the node restarted; every view must be the same
	if hist%2 == 0 {
		vpRebuild(t, F, filepath.Join(dir, "f.db"), fcfg, "index", func(N *vlNode) { emitView(N, "F", "rebuilt-index") })
	} else {
		vpRebuild(t, F, filepath.Join(dir, "f.db"), fcfg, "history", func(N *vlNode) { emitView(N, "F", "rebuilt-history") })
	}
}

// vpRebuild spoils derived data directly in the bolt file (the per-address unspent index and its height marker, or the
// history's parsed-height marker), reopens the node the way a restart does (visor.New rebuilds what is missing) and
// hands the fresh node to f.  A restart that fails is reported as a view record with the error.
func vpRebuild(t *testing.T, N *vlNode, path string, cfg Config, what string, f func(*vlNode)) {
	err := N.db.Update("verif spoil", func(tx *dbutil.Tx) error {
		if what == "index" {
			if err := dbutil.Reset(tx, []byte("unspent_pool_addr_index")); err != nil {
				return err
			}
			return dbutil.Delete(tx, []byte("unspent_meta"), []byte("addr_index_height"))
		}
		return dbutil.Delete(tx, []byte("history_meta"), []byte("parsed_height"))
	})
	if err != nil {
		t.Fatal(err)
	}
	N.db.Close()
	db, err := OpenDB(path, false)
	if err != nil {
		t.Fatal(err)
	}
	N.db = db
	var v *Visor
	func() {
		defer func() {
			if r := recover(); r != nil {
				err = fmt.Errorf("PANIC %v", r)
			}
		}()
		v, err = New(cfg, db, nil)
		if err == nil {
			err = v.Init()
		}
	}()
	if err != nil {
		r := vwRec{Ev: "views", Node: "F", Phase: "rebuilt-" + what, Errs: []string{"restart:error"}, ErrText: []string{"restart: " + err.Error()}}
		r.St.Unspent, r.St.Pool = []vlUx{}, []string{}
		r.Pool, r.Chain, r.Addrs, r.UnspentsOf, r.UxOuts = []vwTxn{}, []vwBlock{}, []string{}, []vwUnspentsOf{}, []vwUxOut{}
		r.TxAddr, r.TxAddrConf, r.TxAddrUnc, r.TxAll, r.Balances, r.BlocksLast, r.BlocksRange, r.Paged = []string{}, []string{}, []string{}, []string{}, []vwBalance{}, []string{}, []string{}, []vwPaged{}
		if e2 := vpViewEnc.Encode(r); e2 != nil {
			t.Fatal(e2)
		}
		return
	}
	N.v = v
	f(N)
}
