package visor

// Overlaid into /repo/src/visor at build time by /verif/check (with -tags verif: the dbutil commit hook); never written to /repo.
// TestVerifCrash (C08): a follower node runs a scripted life (database creation, start-up, genesis, blocks, pool updates);
// the commit hook copies the bolt file at EVERY commit boundary (= the disk after a crash right there).  Each copy is
// then restarted the way a node starts (optionally with the integrity verification first, under a watchdog), given the
// remaining steps of the script, and must end in the state of the run that never crashed.  With VERIF_CRASH_DEPTH=2 the
// restarted run is itself crashed at every one of its commit boundaries.  One record per crash plan for
// specs/crash/CrashRecords.tla; the observed commit sequence of the uncrashed run is checked against specs/crash/Crash.tla.

import (
	"bytes"
	"bufio"
	"encoding/json"
	"fmt"
	"io"
	"io/ioutil"
	"math/rand"
	"os"
	"path/filepath"
	"sort"
	"strconv"
	"testing"
	"time"

	"github.com/skycoin/skycoin/src/cipher"
	"github.com/skycoin/skycoin/src/coin"
	"github.com/skycoin/skycoin/src/params"
	"github.com/skycoin/skycoin/src/visor/blockdb"
	"github.com/skycoin/skycoin/src/visor/dbutil"
	"github.com/skycoin/skycoin/src/visor/historydb"
)

// how long the integrity verification of a crash image may take (the rebuild scenario verifies long chains)
var vcWatchdog = 8 * time.Second

type vcFinal struct {
	Head    uint64   `json:"head"`
	Hash    string   `json:"hash"`
	UxHash  string   `json:"uxhash"`
	Unspent int      `json:"unspent"`
	NTxns   uint64   `json:"ntxns"`
	Pool    []string `json:"pool"`
}

// JSON null is not a value the TLA+ Json module reads
func vcNN(f vcFinal) vcFinal {
	if f.Pool == nil {
		f.Pool = []string{}
	}
	return f
}

// a crash INSIDE a commit under the write-prefix model: the file as it was before the commit, grown to its new size, with
// the first `pages` of the `of` changed data pages written (ascending, as bolt writes them), perhaps half of the next one,
// and the meta page not written or half written
type vcTorn struct {
	Pages int    `json:"pages"`
	Of    int    `json:"of"`
	Half  bool   `json:"half"`
	Meta  string `json:"meta"`
}

type vcRec struct {
	Torn      vcTorn   `json:"torn"`
	Fn        string   `json:"fn"`
	Plan      []int    `json:"plan"`
	After     []string `json:"after"`
	Verify    bool     `json:"verify"`
	Check     string   `json:"check"`
	CheckMs   int64    `json:"checkMs"`
	Restart   string   `json:"restart"`
	Final     vcFinal  `json:"final"`
	Expected  vcFinal  `json:"expected"`
	Commits   []string `json:"commits"`
	StepsLeft int      `json:"stepsLeft"`
}

type vcStep struct {
	kind string
	blk  coin.SignedBlock
	txn  coin.Transaction
}

func vcCopy(src, dst string) error {
	in, err := os.Open(src)
	if err != nil {
		return err
	}
	defer in.Close()
	out, err := os.Create(dst)
	if err != nil {
		return err
	}
	defer out.Close()
	_, err = io.Copy(out, in)
	return err
}

// one event of a node life for specs/crash/TraceCrash.tla
type vcEv struct {
	Ev      string   `json:"ev"`
	Name    string   `json:"name"`
	Kind    string   `json:"kind"`
	Buckets bool     `json:"buckets"`
	Blocks  int      `json:"blocks"`
	Pool    int      `json:"pool"`
	History int      `json:"history"`
	ID      int      `json:"id"`
	Plan    []int    `json:"plan"`
	Torn    bool     `json:"torn"`
	Script  []vcSEv  `json:"script"`
}

type vcSEv struct {
	Ev string `json:"ev"`
	K  int    `json:"k"`
}

// the abstract disk of Crash.tla read back from the database: buckets created?, number of blocks, pool size, history height
func vcProject(db *dbutil.DB) (e vcEv) {
	_ = db.View("verif project", func(tx *dbutil.Tx) error {
		e.Buckets = dbutil.Exists(tx, blockdb.BlocksBkt)
		e.History = -1
		if !e.Buckets {
			return nil
		}
		n, _ := dbutil.Len(tx, blockdb.BlocksBkt)
		e.Blocks = int(n)
		n, _ = dbutil.Len(tx, UnconfirmedTxnsBkt)
		e.Pool = int(n)
		n, _ = dbutil.Len(tx, historydb.TransactionsBkt)
		e.History = int(n) - 1 // one transaction per block in these scripts, the genesis block included
		return nil
	})
	return e
}

const vcPage = 4096

// the images a crash inside the commit that turned file `pre` into file `post` can leave (write-prefix model)
func vcTornImages(pre, post []byte) (imgs [][]byte, descr []vcTorn) {
	npages := (len(post) + vcPage - 1) / vcPage
	page := func(b []byte, i int) []byte {
		lo, hi := i*vcPage, (i+1)*vcPage
		if lo >= len(b) {
			return nil
		}
		if hi > len(b) {
			hi = len(b)
		}
		return b[lo:hi]
	}
	var data, meta []int
	for i := 0; i < npages; i++ {
		if !bytes.Equal(page(pre, i), page(post, i)) {
			if i < 2 {
				meta = append(meta, i)
			} else {
				data = append(data, i)
			}
		}
	}
	build := func(nfull int, half bool, tornMeta bool) []byte {
		size := len(pre)
		if len(post) > size {
			size = len(post) // bolt grows the file before it writes
		}
		img := make([]byte, size)
		copy(img, pre)
		for k, pg := range data {
			lo := pg * vcPage
			if k < nfull {
				copy(img[lo:], page(post, pg))
			} else if k == nfull && half {
				copy(img[lo:], page(post, pg)[:len(page(post, pg))/2])
			}
		}
		if tornMeta {
			for _, pg := range meta {
				lo := pg * vcPage
				copy(img[lo:], page(post, pg)[:vcPage/2])
			}
		}
		return img
	}
	n := len(data)
	seen := map[int]bool{}
	for _, j := range []int{0, 1, n / 2, n} {
		if j > n || seen[j] {
			continue
		}
		seen[j] = true
		imgs, descr = append(imgs, build(j, false, false)), append(descr, vcTorn{Pages: j, Of: n, Meta: "old"})
		if j < n {
			imgs, descr = append(imgs, build(j, true, false)), append(descr, vcTorn{Pages: j, Of: n, Half: true, Meta: "old"})
		}
	}
	if len(meta) > 0 {
		imgs, descr = append(imgs, build(n, false, true)), append(descr, vcTorn{Pages: n, Of: n, Meta: "torn"})
	}
	return imgs, descr
}

// runs the node on dbPath: start-up, then the steps not yet reflected in the database; the hook sees every commit
func vcRun(t *testing.T, dbPath string, cfg Config, steps []vcStep, verify bool, pub cipher.PubKey, hook func(name string, stepsDone int), events *[]vcEv) (check string, checkMs int64, restart string, fin vcFinal, left int) {
	log := func(e vcEv) {
		if events != nil {
			e.Plan, e.Script = []int{}, []vcSEv{}
			*events = append(*events, e)
		}
	}
	check, restart = "skipped", "ok"
	dbutil.VerifCommitHook = nil
	db, err := OpenDB(dbPath, false)
	if err != nil {
		return check, 0, "err:open:" + err.Error(), fin, len(steps)
	}
	leak := false // a verification that never returns keeps a read transaction open: closing the database would block for ever
	defer func() {
		if !leak {
			db.Close()
		}
	}()
	if verify {
		t0 := time.Now()
		done := make(chan error, 1)
		quit := make(chan struct{})
		go func() { done <- CheckDatabase(db, pub, quit) }()
		select {
		case err := <-done:
			check = "ok"
			if err != nil {
				check = "err:" + err.Error()
			}
		case <-time.After(vcWatchdog):
			check = "timeout"
			close(quit)
			select {
			case <-done:
			case <-time.After(2 * time.Second):
				check = "timeout-and-not-stoppable"
				leak = true
			}
		}
		checkMs = int64(time.Since(t0) / time.Millisecond)
		if check != "ok" {
			return check, checkMs, "not-attempted", fin, len(steps)
		}
	}
	stepsDone := 0
	dbutil.VerifCommitHook = func(name string) {
		// the linearization point: bolt's Update has returned, nobody has seen the new state yet
		log(vcEv{Ev: "begin", Name: name})
		pr := vcProject(db)
		pr.Ev, pr.Name = "commit", name
		log(pr)
		if hook != nil {
			hook(name, stepsDone)
		}
	}
	defer func() { dbutil.VerifCommitHook = nil }()
	var v *Visor
	func() {
		defer func() {
			if r := recover(); r != nil {
				err = fmt.Errorf("PANIC %v", r)
			}
		}()
		v, err = New(cfg, db, nil)
		if err == nil {
			err = v.Init()
		}
	}()
	if err != nil {
		return check, checkMs, "err:start:" + err.Error(), fin, len(steps)
	}
	head, _, err := v.HeadBkSeq()
	if err != nil {
		return check, checkMs, "err:head:" + err.Error(), fin, len(steps)
	}
	// the remaining script: blocks above the head, and the pool operations that belong between them
	for i, s := range steps {
		stepsDone = i
		var err error
		switch s.kind {
		case "block":
			if s.blk.Head.BkSeq <= head {
				log(vcEv{Ev: "skip", Kind: "block"})
				continue
			}
			err = v.ExecuteSignedBlock(s.blk)
		case "inject":
			if s.blk.Head.BkSeq <= head { // it is the transaction of that block: already confirmed
				log(vcEv{Ev: "skip", Kind: "inject"})
				continue
			}
			_, _, err = v.InjectForeignTransaction(s.txn)
		case "conflict":
			if s.blk.Head.BkSeq <= head { // its inputs are spent by now: nobody would offer it any more
				log(vcEv{Ev: "skip", Kind: "conflict"})
				continue
			}
			_, _, err = v.InjectForeignTransaction(s.txn)
		case "refresh":
			_, err = v.RefreshUnconfirmed()
		case "remove":
			_, err = v.RemoveInvalidUnconfirmed()
		}
		if err != nil {
			return check, checkMs, fmt.Sprintf("err:step%d:%s:%v", i, s.kind, err), fin, len(steps) - i
		}
		stepsDone = i + 1
	}
	dbutil.VerifCommitHook = nil
	log(vcEv{Ev: "done"})
	// final state
	err = db.View("verif final", func(tx *dbutil.Tx) error {
		h, err := v.blockchain.Head(tx)
		if err != nil {
			return err
		}
		fin.Head, fin.Hash = h.Head.BkSeq, h.HashHeader().Hex()
		ux, err := v.blockchain.Unspent().GetUxHash(tx)
		if err != nil {
			return err
		}
		fin.UxHash = ux.Hex()
		all, err := v.blockchain.Unspent().GetAll(tx)
		if err != nil {
			return err
		}
		fin.Unspent = len(all)
		fin.NTxns, err = v.history.GetTransactionsNum(tx)
		if err != nil {
			return err
		}
		txs, err := v.unconfirmed.AllRawTransactions(tx)
		fin.Pool = []string{}
		for _, x := range txs {
			fin.Pool = append(fin.Pool, x.Hash().Hex())
		}
		sort.Strings(fin.Pool)
		return err
	})
	if err != nil {
		restart = "err:final:" + err.Error()
	}
	return check, checkMs, restart, fin, 0
}

func TestVerifCrash(t *testing.T) {
	out := os.Getenv("VERIF_OUT")
	if out == "" {
		t.Skip("VERIF_OUT not set")
	}
	seed, _ := strconv.ParseInt(os.Getenv("VERIF_SEED"), 10, 64)
	nblocks, _ := strconv.Atoi(os.Getenv("VERIF_BLOCKS"))
	depth, _ := strconv.Atoi(os.Getenv("VERIF_CRASH_DEPTH"))
	rng := rand.New(rand.NewSource(seed))
	f, err := os.Create(filepath.Join(out, "crash.ndjson"))
	if err != nil {
		t.Fatal(err)
	}
	w := bufio.NewWriter(f)
	enc := json.NewEncoder(w)
	tf, err := os.Create(filepath.Join(out, "trace.ndjson"))
	if err != nil {
		t.Fatal(err)
	}
	tw := bufio.NewWriter(tf)
	tenc := json.NewEncoder(tw)
	traceID := 0
	var script []vcSEv
	// one life: a header carrying the script, then the events of its runs with "crash" between them
	writeTrace := func(plan []int, torn bool, runs ...[]vcEv) {
		_ = tenc.Encode(vcEv{Ev: "trace", ID: traceID, Plan: plan, Torn: torn, Script: script})
		traceID++
		for i, r := range runs {
			if i > 0 {
				_ = tenc.Encode(vcEv{Ev: "crash", Plan: []int{}, Script: []vcSEv{}})
			}
			for _, e := range r {
				_ = tenc.Encode(e)
			}
		}
	}
	// the events of a run up to and including the k-th commit (or, inside = true, only the "begin" of the k-th commit)
	upTo := func(evs []vcEv, k int, inside bool) []vcEv {
		n := -1
		for i, e := range evs {
			if e.Ev == "begin" {
				n++
				if n == k && inside {
					return evs[:i+1]
				}
			}
			if e.Ev == "commit" && n == k && !inside {
				return evs[:i+1]
			}
		}
		return evs
	}
	dir, err := ioutil.TempDir("", "verifcrash")
	if err != nil {
		t.Fatal(err)
	}
	defer os.RemoveAll(dir)

	// a publisher makes the chain
	pub, sec, _ := cipher.GenerateDeterministicKeyPair([]byte(fmt.Sprintf("publisher-%d", rng.Int63())))
	op, osec, _ := cipher.GenerateDeterministicKeyPair([]byte(fmt.Sprintf("owner-%d", rng.Int63())))
	addr := cipher.AddressFromPubKey(op)
	cfg := NewConfig()
	cfg.BlockchainPubkey = pub
	cfg.GenesisAddress = addr
	cfg.GenesisTimestamp = vlGenesisTime
	cfg.GenesisCoinVolume = vlVolume
	cfg.Distribution = params.MainNetDistribution
	pcfg := cfg
	pcfg.IsBlockPublisher = true
	pcfg.BlockchainSeckey = sec
	P := vlOpen(t, filepath.Join(dir, "p.db"), pcfg)
	gb, _ := P.v.GetSignedBlockBySeq(0)
	cfg.GenesisSignature = gb.Sig
	var steps []vcStep
	now := vlGenesisTime
	for i := 0; i < nblocks; i++ {
		now += 3600 * uint64(10+rng.Intn(50))
		uxs, _ := P.v.GetAllUnspentOutputs()
		head := P.head(t)
		var in, in2 coin.UxOut
		for _, ux := range uxs {
			if h, err := ux.CoinHours(head.Head.Time); err == nil && h >= 4 && ux.Body.Coins > in.Body.Coins {
				in = ux
			}
		}
		for _, ux := range uxs {
			if ux.Hash() != in.Hash() && ux.Body.Coins >= 1e6 && ux.Body.Coins > in2.Body.Coins {
				in2 = ux
			}
		}
		// every second block spends two outputs, and a transaction that spends the same two differently is pooled before it:
		// once the block is there that transaction has lost both of its inputs
		withConflict := i%2 == 1 && in2.Body.Coins > 0
		h, _ := in.CoinHours(head.Head.Time)
		var txn, conflict coin.Transaction
		_ = txn.PushInput(in.Hash())
		coins := in.Body.Coins
		keys := []cipher.SecKey{osec}
		if withConflict {
			_ = txn.PushInput(in2.Hash())
			coins += in2.Body.Coins
			keys = append(keys, osec)
			_ = conflict.PushInput(in2.Hash())
			_ = conflict.PushInput(in.Hash())
			conflict.Out = append(conflict.Out, coin.TransactionOutput{Address: addr, Coins: coins, Hours: h / 5})
			conflict.SignInputs(keys)
			_ = conflict.UpdateHeader()
		}
		txn.Out = append(txn.Out, coin.TransactionOutput{Address: addr, Coins: coins - 1e6, Hours: h / 4}, coin.TransactionOutput{Address: addr, Coins: 1e6, Hours: h / 8})
		txn.SignInputs(keys)
		_ = txn.UpdateHeader()
		b, err := P.v.CreateBlockFromTxns(coin.Transactions{txn}, now)
		if err != nil {
			t.Fatal(err)
		}
		sb := coin.SignedBlock{Block: b, Sig: cipher.MustSignHash(b.HashHeader(), sec)}
		if err := P.v.ExecuteSignedBlock(sb); err != nil {
			t.Fatal(err)
		}
		// the follower hears of the transaction first (sometimes), refreshes / prunes its pool, then gets the block
		if rng.Intn(2) == 0 {
			steps = append(steps, vcStep{kind: "inject", blk: sb, txn: txn})
			if rng.Intn(2) == 0 {
				steps = append(steps, vcStep{kind: "refresh"})
			}
		}
		if withConflict {
			steps = append(steps, vcStep{kind: "conflict", blk: sb, txn: conflict})
		}
		steps = append(steps, vcStep{kind: "block", blk: sb})
		if rng.Intn(3) == 0 {
			steps = append(steps, vcStep{kind: "remove"})
		}
	}
	// every life ends with the pool's periodic clean-up: a restart cleans the pool as well (visor init), so lives are compared
	// after the clean-up that an uncrashed node performs a little later anyway
	steps = append(steps, vcStep{kind: "remove"})
	P.db.Close()

	// ---- the run that never crashes; every commit boundary is photographed
	live := filepath.Join(dir, "live.db")
	var commits []string
	var doneAt []int
	for _, st := range steps {
		script = append(script, vcSEv{Ev: st.kind, K: int(st.blk.Head.BkSeq)})
	}
	var liveEv []vcEv
	var restart string
	var expected vcFinal
	for attempt := 0; ; attempt++ {
		os.Remove(live)
		commits, doneAt, liveEv = nil, nil, nil
		var left int
		_, _, restart, expected, left = vcRun(t, live, cfg, steps, false, pub, func(name string, stepsDone int) {
			k := len(commits)
			commits = append(commits, name)
			doneAt = append(doneAt, stepsDone)
			if err := vcCopy(live, filepath.Join(dir, fmt.Sprintf("crash_%d.db", k))); err != nil {
				t.Fatal(err)
			}
		}, &liveEv)
		if restart == "ok" {
			break
		}
		// the life cannot be driven to its end (a step fails even without any crash): what can still be asked is whether the
		// states BEFORE that step survive a crash - the script is cut there, once
		if attempt > 0 || left <= 0 || left >= len(steps) {
			t.Fatalf("the uncrashed run failed: %s", restart)
		}
		steps = steps[:len(steps)-left]
		script = script[:len(steps)]
	}
	writeTrace([]int{}, false, liveEv)
	_ = enc.Encode(vcRec{Fn: "uncrashed", Plan: []int{}, After: []string{}, Check: "skipped", Restart: "ok", Final: expected, Expected: expected, Commits: commits})
	// also the database file before anything was committed to it (created, no buckets)
	for k := -1; k < len(commits); k++ {
		for _, verify := range []bool{false, true} {
			img := filepath.Join(dir, fmt.Sprintf("work_%d_%v.db", k, verify)) // a fresh name: a hung verification keeps its file locked
			after := "created-empty"
			if k >= 0 {
				if err := vcCopy(filepath.Join(dir, fmt.Sprintf("crash_%d.db", k)), img); err != nil {
					t.Fatal(err)
				}
				after = commits[k]
			} else {
				os.Remove(img)
				db, err := OpenDB(img, false)
				if err != nil {
					t.Fatal(err)
				}
				db.Close()
			}
			var commits2 []string
			hook := func(name string, _ int) {
				if depth < 2 {
					return
				}
				j := len(commits2)
				commits2 = append(commits2, name)
				_ = vcCopy(img, filepath.Join(dir, fmt.Sprintf("crash2_%d.db", j)))
			}
			var ev1 []vcEv
			chk, ms, rs, fin, left := vcRun(t, img, cfg, steps, verify, pub, hook, &ev1)
			os.Remove(img + ".done")
			if rs != "not-attempted" && !verify {
				if k >= 0 {
					writeTrace([]int{k}, false, upTo(liveEv, k, false), ev1)
				} else {
					writeTrace([]int{k}, false, []vcEv{}, ev1)
				}
			}
			_ = enc.Encode(vcRec{Fn: "crash", Plan: []int{k}, After: []string{after}, Verify: verify, Check: chk, CheckMs: ms, Restart: rs, Final: vcNN(fin), Expected: expected, Commits: commits, StepsLeft: left})
			if depth >= 2 && !verify {
				for j := range commits2 {
					img2 := filepath.Join(dir, fmt.Sprintf("work2_%d_%d.db", k, j))
					if err := vcCopy(filepath.Join(dir, fmt.Sprintf("crash2_%d.db", j)), img2); err != nil {
						t.Fatal(err)
					}
					var ev2 []vcEv
					chk, ms, rs, fin, left := vcRun(t, img2, cfg, steps, j%2 == 0, pub, nil, &ev2)
					if rs != "not-attempted" {
						first := []vcEv{}
						if k >= 0 {
							first = upTo(liveEv, k, false)
						}
						writeTrace([]int{k, j}, false, first, upTo(ev1, j, false), ev2)
					}
					_ = enc.Encode(vcRec{Fn: "crash", Plan: []int{k, j}, After: []string{after, commits2[j]}, Verify: j%2 == 0, Check: chk, CheckMs: ms, Restart: rs, Final: vcNN(fin), Expected: expected, Commits: commits, StepsLeft: left})
				}
			}
		}
	}
	// ---- crashes inside a commit: every commit of the uncrashed run, every image of the write-prefix model
	emptyImg := filepath.Join(dir, "crash_-1.db")
	os.Remove(emptyImg)
	if db, err := OpenDB(emptyImg, false); err == nil {
		db.Close()
	} else {
		t.Fatal(err)
	}
	for k := 0; k < len(commits); k++ {
		pre, err1 := ioutil.ReadFile(filepath.Join(dir, fmt.Sprintf("crash_%d.db", k-1)))
		post, err2 := ioutil.ReadFile(filepath.Join(dir, fmt.Sprintf("crash_%d.db", k)))
		if err1 != nil || err2 != nil {
			t.Fatal(err1, err2)
		}
		imgs, descr := vcTornImages(pre, post)
		for x, img := range imgs {
			verify := (k+x)%2 == 0
			path := filepath.Join(dir, fmt.Sprintf("torn_%d_%d.db", k, x))
			if err := ioutil.WriteFile(path, img, 0600); err != nil {
				t.Fatal(err)
			}
			var ev1 []vcEv
			chk, ms, rs, fin, left := vcRun(t, path, cfg, steps, verify, pub, nil, &ev1)
			if rs != "not-attempted" && descr[x].Pages == 0 && !descr[x].Half {
				writeTrace([]int{k}, true, upTo(liveEv, k, true), ev1)
			}
			_ = enc.Encode(vcRec{Fn: "torn", Torn: descr[x], Plan: []int{k}, After: []string{"inside " + commits[k]}, Verify: verify, Check: chk, CheckMs: ms, Restart: rs, Final: vcNN(fin),
				Expected: expected, Commits: commits, StepsLeft: left})
			if chk != "timeout-and-not-stoppable" {
				os.Remove(path)
			}
		}
	}
	w.Flush()
	f.Close()
	tw.Flush()
	tf.Close()
}
