package visor

// Overlaid into /repo/src/visor at build time by /verif/check; never written to /repo.
// TestVerifMalleate (C10): a real follower visor is offered, for every valid signed transaction and block of a
// seeded history, every third-party modification of its bytes (no keys used): the other ECDSA solution (n - s,
// recovery id flipped), recovery id + 4 / + 27 / high bit, bit flips in every field, appended bytes, reordered
// inputs, reordered transactions.  One record per offer: was the object changed, was it accepted in the same role.
// Every signature the real code produced on the way is logged with its s-range and recovery id.

import (
	"bufio"
	"bytes"
	"encoding/json"
	"fmt"
	"io/ioutil"
	"math/big"
	"math/rand"
	"os"
	"path/filepath"
	"strconv"
	"testing"

	"github.com/skycoin/skycoin/src/cipher"
	"github.com/skycoin/skycoin/src/coin"
	"github.com/skycoin/skycoin/src/params"
)

type vmRec struct {
	Fn       string `json:"fn"`
	Object   string `json:"object"`
	How      string `json:"how"`
	Changed  bool   `json:"changed"`
	Accepted bool   `json:"accepted"`
	Panic    bool   `json:"panic"`
	Err      string `json:"err"`
	LowS     bool   `json:"lowS"`
	Recid    int    `json:"recid"`
}

var vmN, _ = new(big.Int).SetString("FFFFFFFFFFFFFFFFFFFFFFFFFFFFFFFEBAAEDCE6AF48A03BBFD25E8CD0364141", 16)
var vmHalfN = new(big.Int).Rsh(vmN, 1)

func vmSigForms(sig cipher.Sig, rng *rand.Rand) map[string]cipher.Sig {
	out := map[string]cipher.Sig{}
	hs := sig
	sv := new(big.Int).SetBytes(sig[32:64])
	sv.Sub(vmN, sv)
	b := sv.Bytes()
	for i := 32; i < 64; i++ {
		hs[i] = 0
	}
	copy(hs[64-len(b):64], b)
	hs[64] ^= 1
	out["sig-negated-s"] = hs
	hs2 := hs
	hs2[64] ^= 1
	out["sig-negated-s-same-recid"] = hs2
	for name, d := range map[string]byte{"sig-recid+4": 4, "sig-recid+27": 27, "sig-recid-highbit": 0x80, "sig-recid^1": 0, "sig-recid^2": 0} {
		x := sig
		switch name {
		case "sig-recid^1":
			x[64] ^= 1
		case "sig-recid^2":
			x[64] ^= 2
		default:
			x[64] += d
		}
		out[name] = x
	}
	rv := new(big.Int).SetBytes(sig[0:32])
	rv.Add(rv, vmN)
	if rv.BitLen() <= 256 {
		x := sig
		rb := rv.Bytes()
		for i := 0; i < 32; i++ {
			x[i] = 0
		}
		copy(x[32-len(rb):32], rb)
		out["sig-r-plus-n"] = x
	}
	x := sig
	x[rng.Intn(32)] ^= 1 << uint(rng.Intn(8))
	out["sig-bitflip-r"] = x
	y := sig
	y[32+rng.Intn(32)] ^= 1 << uint(rng.Intn(8))
	out["sig-bitflip-s"] = y
	return out
}

func TestVerifMalleate(t *testing.T) {
	out := os.Getenv("VERIF_OUT")
	if out == "" {
		t.Skip("VERIF_OUT not set")
	}
	seed, _ := strconv.ParseInt(os.Getenv("VERIF_SEED"), 10, 64)
	nhist, _ := strconv.Atoi(os.Getenv("VERIF_HISTORIES"))
	nblocks, _ := strconv.Atoi(os.Getenv("VERIF_BLOCKS"))
	f, err := os.Create(filepath.Join(out, "malleate.ndjson"))
	if err != nil {
		t.Fatal(err)
	}
	w := bufio.NewWriter(f)
	enc := json.NewEncoder(w)
	for h := 0; h < nhist; h++ {
		vmHistory(t, enc, rand.New(rand.NewSource(seed*9000011+int64(h))), nblocks)
	}
	w.Flush()
	f.Close()
}

func vmHistory(t *testing.T, enc *json.Encoder, rng *rand.Rand, nblocks int) {
	dir, err := ioutil.TempDir("", "verifmall")
	if err != nil {
		t.Fatal(err)
	}
	defer os.RemoveAll(dir)
	pub, sec, _ := cipher.GenerateDeterministicKeyPair([]byte(fmt.Sprintf("publisher-%d", rng.Int63())))
	type owner struct {
		addr cipher.Address
		sec  cipher.SecKey
	}
	owners := make([]owner, 3)
	keyOf := map[cipher.Address]cipher.SecKey{}
	for i := range owners {
		p, s, _ := cipher.GenerateDeterministicKeyPair([]byte(fmt.Sprintf("owner-%d-%d", i, rng.Int63())))
		owners[i] = owner{cipher.AddressFromPubKey(p), s}
		keyOf[owners[i].addr] = s
	}
	cfg := NewConfig()
	cfg.BlockchainPubkey = pub
	cfg.GenesisAddress = owners[0].addr
	cfg.GenesisTimestamp = vlGenesisTime
	cfg.GenesisCoinVolume = vlVolume
	cfg.Distribution = params.MainNetDistribution
	pcfg := cfg
	pcfg.IsBlockPublisher = true
	pcfg.BlockchainSeckey = sec
	P := vlOpen(t, filepath.Join(dir, "p.db"), pcfg)
	defer P.db.Close()
	gb, _ := P.v.GetSignedBlockBySeq(0)
	fcfg := cfg
	fcfg.GenesisSignature = gb.Sig
	F := vlOpen(t, filepath.Join(dir, "f.db"), fcfg)
	defer F.db.Close()

	emit := func(r vmRec) {
		if err := enc.Encode(r); err != nil {
			t.Fatal(err)
		}
	}
	produced := func(sig cipher.Sig) {
		s := new(big.Int).SetBytes(sig[32:64])
		emit(vmRec{Fn: "produced", LowS: s.Cmp(vmHalfN) <= 0 && s.Sign() > 0, Recid: int(sig[64])})
	}
	produced(gb.Sig)
	tainted := false
	offerTxn := func(how string, orig, txn coin.Transaction) {
		if tainted {
			return
		}
		ob, _ := orig.Serialize()
		var nb []byte
		r := vmRec{Fn: "malleate", Object: "txn", How: how}
		func() {
			defer func() {
				if rec := recover(); rec != nil {
					r.Panic = true
				}
			}()
			nb, _ = txn.Serialize()
			r.Changed = !bytes.Equal(ob, nb)
			_, _, err := F.v.InjectForeignTransaction(txn)
			r.Accepted = err == nil
			if err != nil {
				r.Err = err.Error()
			}
		}()
		emit(r)
		if r.Accepted && r.Changed {
			tainted = true
		}
	}
	offerBytes := func(how string, orig coin.Transaction, b []byte) {
		ob, _ := orig.Serialize()
		r := vmRec{Fn: "malleate", Object: "txn-bytes", How: how, Changed: !bytes.Equal(ob, b)}
		func() {
			defer func() {
				if rec := recover(); rec != nil {
					r.Panic = true
				}
			}()
			txn, err := coin.DeserializeTransaction(b)
			if err != nil {
				r.Err = err.Error()
				return
			}
			// decoded: it is accepted "in the same role" if the node would admit it
			if _, _, err := F.v.InjectForeignTransaction(txn); err == nil {
				r.Accepted = true
				// the same transaction re-encodes to the original bytes: then nothing was changed
				nb, _ := txn.Serialize()
				r.Changed = !bytes.Equal(ob, nb) || !bytes.Equal(nb, b)
			} else {
				r.Err = err.Error()
			}
		}()
		emit(r)
	}
	offerBlock := func(how string, orig, sb coin.SignedBlock) bool {
		r := vmRec{Fn: "malleate", Object: "block", How: how}
		r.Changed = orig.HashHeader() != sb.HashHeader() || orig.Sig != sb.Sig || orig.Body.Hash() != sb.Body.Hash() || len(orig.Body.Transactions) != len(sb.Body.Transactions)
		if !r.Changed {
			for i := range orig.Body.Transactions {
				if orig.Body.Transactions[i].Hash() != sb.Body.Transactions[i].Hash() {
					r.Changed = true
				}
			}
		}
		func() {
			defer func() {
				if rec := recover(); rec != nil {
					r.Panic = true
				}
			}()
			err := F.v.ExecuteSignedBlock(sb)
			r.Accepted = err == nil
			if err != nil {
				r.Err = err.Error()
			}
		}()
		emit(r)
		return r.Accepted
	}

	now := vlGenesisTime
	for bi := 0; bi < nblocks && !tainted; bi++ {
		now += uint64(3600 * (1 + rng.Intn(100)))
		uxs, _ := P.v.GetAllUnspentOutputs()
		var avail []coin.UxOut
		headP, _ := P.v.GetSignedBlockBySeq(uint64(bi))
		for _, ux := range uxs {
			if hh, err := ux.CoinHours(headP.Head.Time); err == nil && hh >= 2 {
				avail = append(avail, ux)
			}
		}
		if len(avail) == 0 {
			return
		}
		rng.Shuffle(len(avail), func(i, j int) { avail[i], avail[j] = avail[j], avail[i] })
		nin := 1
		if len(avail) > 1 {
			nin = 2
		}
		var txn coin.Transaction
		var coins, hours uint64
		var keys []cipher.SecKey
		for _, ux := range avail[:nin] {
			_ = txn.PushInput(ux.Hash())
			coins += ux.Body.Coins
			hh, _ := ux.CoinHours(headP.Head.Time)
			hours += hh
			keys = append(keys, keyOf[ux.Body.Address])
		}
		c1 := (1 + uint64(rng.Int63n(int64(coins/1e6/2)+1))) * 1e6
		if c1 >= coins {
			c1 = coins / 2 / 1e6 * 1e6
		}
		if c1 > 0 && c1 < coins {
			txn.Out = append(txn.Out, coin.TransactionOutput{Address: owners[rng.Intn(3)].addr, Coins: c1, Hours: hours / 4})
		}
		txn.Out = append(txn.Out, coin.TransactionOutput{Address: owners[rng.Intn(3)].addr, Coins: coins - c1*uint64(len(txn.Out)), Hours: hours / 8})
		txn.SignInputs(keys)
		_ = txn.UpdateHeader()
		for _, s := range txn.Sigs {
			produced(s)
		}

		// ---- the transaction, modified by a third party - after the node has seen (and pooled) the genuine one, as a third
		// party on the network would: nothing the node remembers about the genuine transaction may vouch for a variant
		if bi%2 == 1 {
			offerTxn("none", txn, txn)
		}
		_, foreignSec, _ := cipher.GenerateDeterministicKeyPair([]byte(fmt.Sprintf("third-party-%d", rng.Int63())))
		for i := range txn.Sigs {
			// a well-formed signature over the right message, by the third party's own key
			m := txn
			m.Sigs = append([]cipher.Sig{}, txn.Sigs...)
			m.Sigs[i] = cipher.MustSignHash(cipher.AddSHA256(txn.HashInner(), txn.In[i]), foreignSec)
			offerTxn("sig-by-foreign-key", txn, m)
		}
		for i := range txn.Sigs {
			for how, s := range vmSigForms(txn.Sigs[i], rng) {
				m := txn
				m.Sigs = append([]cipher.Sig{}, txn.Sigs...)
				m.Sigs[i] = s
				offerTxn(how, txn, m)
				m2 := m
				_ = m2.UpdateHeader() // the third party can recompute length and hashes, not signatures
				m2.Sigs = m.Sigs
				offerTxn(how+"+header", txn, m2)
			}
		}
		if len(txn.In) == 2 {
			m := txn
			m.In = []cipher.SHA256{txn.In[1], txn.In[0]}
			m.Sigs = []cipher.Sig{txn.Sigs[1], txn.Sigs[0]}
			offerTxn("reorder-inputs", txn, m)
			m2 := m
			_ = m2.UpdateHeader()
			offerTxn("reorder-inputs+header", txn, m2)
		}
		if len(txn.Out) == 2 {
			m := txn
			m.Out = []coin.TransactionOutput{txn.Out[1], txn.Out[0]}
			offerTxn("reorder-outputs", txn, m)
			m2 := m
			_ = m2.UpdateHeader()
			offerTxn("reorder-outputs+header", txn, m2)
		}
		{
			m := txn
			m.Out = append([]coin.TransactionOutput{}, txn.Out...)
			m.Out[0].Hours ^= 1
			offerTxn("bitflip-output-hours", txn, m)
			m = txn
			m.Out = append([]coin.TransactionOutput{}, txn.Out...)
			m.Out[0].Address.Key[rng.Intn(20)] ^= 1
			offerTxn("bitflip-output-address", txn, m)
			m = txn
			m.InnerHash[rng.Intn(32)] ^= 4
			offerTxn("bitflip-inner-hash", txn, m)
			m = txn
			m.Length++
			offerTxn("length+1", txn, m)
			m = txn
			m.Type = 1
			offerTxn("type-1", txn, m)
		}
		raw, _ := txn.Serialize()
		offerBytes("append-byte", txn, append(append([]byte{}, raw...), byte(rng.Intn(256))))
		offerBytes("drop-last-byte", txn, raw[:len(raw)-1])
		for k := 0; k < 6; k++ {
			b := append([]byte{}, raw...)
			b[rng.Intn(len(b))] ^= 1 << uint(rng.Intn(8))
			offerBytes("bitflip-byte", txn, b)
		}

		// ---- the block that confirms it, modified by a third party
		blk, err := P.v.CreateBlockFromTxns(coin.Transactions{txn}, now)
		if err != nil {
			t.Fatalf("publisher refused: %v", err)
		}
		valid := coin.SignedBlock{Block: blk, Sig: cipher.MustSignHash(blk.HashHeader(), sec)}
		produced(valid.Sig)
		for how, s := range vmSigForms(valid.Sig, rng) {
			m := valid
			m.Sig = s
			if offerBlock(how, valid, m) {
				return
			}
		}
		type hm struct {
			how string
			f   func(*coin.SignedBlock)
		}
		for _, x := range []hm{
			{"bitflip-time", func(b *coin.SignedBlock) { b.Head.Time ^= 1 }},
			{"bitflip-seq", func(b *coin.SignedBlock) { b.Head.BkSeq ^= 2 }},
			{"bitflip-fee", func(b *coin.SignedBlock) { b.Head.Fee ^= 1 }},
			{"bitflip-version", func(b *coin.SignedBlock) { b.Head.Version ^= 1 }},
			{"bitflip-prevhash", func(b *coin.SignedBlock) { b.Head.PrevHash[rng.Intn(32)] ^= 8 }},
			{"bitflip-bodyhash", func(b *coin.SignedBlock) { b.Head.BodyHash[rng.Intn(32)] ^= 8 }},
			{"bitflip-uxhash", func(b *coin.SignedBlock) { b.Head.UxHash[rng.Intn(32)] ^= 8 }},
			{"body-txn-sig-negated-s", func(b *coin.SignedBlock) {
				tx := b.Body.Transactions[0]
				tx.Sigs = append([]cipher.Sig{}, tx.Sigs...)
				tx.Sigs[0] = vmSigForms(tx.Sigs[0], rng)["sig-negated-s"]
				b.Body.Transactions = coin.Transactions{tx}
			}},
			{"body-txn-sig-negated-s+bodyhash", func(b *coin.SignedBlock) {
				tx := b.Body.Transactions[0]
				tx.Sigs = append([]cipher.Sig{}, tx.Sigs...)
				tx.Sigs[0] = vmSigForms(tx.Sigs[0], rng)["sig-negated-s"]
				b.Body.Transactions = coin.Transactions{tx}
				b.Head.BodyHash = b.Body.Hash()
			}},
			{"body-duplicate-txn", func(b *coin.SignedBlock) {
				b.Body.Transactions = coin.Transactions{b.Body.Transactions[0], b.Body.Transactions[0]}
			}},
			{"body-empty", func(b *coin.SignedBlock) { b.Body.Transactions = coin.Transactions{} }},
		} {
			m := valid
			x.f(&m)
			if offerBlock(x.how, valid, m) {
				return
			}
		}
		if !offerBlock("none", valid, valid) {
			return
		}
		if err := P.v.ExecuteSignedBlock(valid); err != nil {
			t.Fatalf("publisher refused its own block: %v", err)
		}
	}
}
