"""Engine `filesave` (C20): crash during a save of a wallet file or a key-value storage file.
The real save (wallet.Save / kvstorage flush -> file.SaveBinary) runs once in a child process under strace; the recorded
file-system operations ARE the program of specs/filesave/FileSave.tla, which TLC explores over every crash point (after any
operation, in the middle of any write): RecoverOldOrNew.  Every crash point is then materialised in a scratch directory
(operations replayed on a copy of the pre-save directory, the last write cut) and loaded by the real start-up code
(wallet.NewService / kvstorage.NewManager); TLC checks each image record (FileSaveRecords)."""
import json
import os
import re
import shutil

from lib import vlib
from engines import kv
from lib.vlib import Infra

SPEC = os.path.join(vlib.SPECS, "filesave")
RE_OPEN = re.compile(r'^\d+\s+openat\(AT_FDCWD, "([^"]+)", ([A-Z_|]+)(?:, \d+)?\)\s+= (\d+)')
RE_WRITE = re.compile(r'^\d+\s+write\((\d+), .*\)\s+= (\d+)$')
RE_RENAME = re.compile(r'^\d+\s+rename(?:at2?)?\((?:AT_FDCWD, )?"([^"]+)", (?:AT_FDCWD, )?"([^"]+)"(?:, \w+)?\)\s+= 0')
RE_UNLINK = re.compile(r'^\d+\s+unlink(?:at)?\((?:AT_FDCWD, )?"([^"]+)"(?:, \w+)?\)\s+= 0')
RE_FSYNC = re.compile(r'^\d+\s+f(?:data)?sync\((\d+)\)\s+= 0')
RE_CLOSE = re.compile(r'^\d+\s+close\((\d+)\)\s+= 0')


TMPNAME = {}     # target -> the real name of the temporary file seen in the last trace (a repeated save looks for it)


def parse_trace(path, dirpath, target):
    ops, fds = [], {}

    def cls(p):
        b = os.path.basename(p)
        if os.path.dirname(p).rstrip("/") != dirpath.rstrip("/"):
            return None
        if b.startswith(target + ".tmp"):
            TMPNAME[target] = b
        return "target" if b == target else ("tmp" if b.startswith(target + ".tmp") else "other:" + b)
    for line in open(path):
        m = RE_OPEN.match(line)
        if m:
            c = cls(m.group(1))
            if c and ("O_WRONLY" in m.group(2) or "O_RDWR" in m.group(2)):
                fds[m.group(3)] = c
                if "O_TRUNC" in m.group(2):
                    ops.append({"op": "open_trunc", "file": c, "to": "", "n": 0})
                elif "O_CREAT" in m.group(2):
                    ops.append({"op": "open_create", "file": c, "to": "", "n": 0})   # creates an empty file only if there is none
            elif m.group(3) in fds:
                del fds[m.group(3)]
            continue
        m = RE_WRITE.match(line)
        if m and m.group(1) in fds:
            ops.append({"op": "write", "file": fds[m.group(1)], "to": "", "n": int(m.group(2))})
            continue
        m = RE_RENAME.match(line)
        if m and (cls(m.group(1)) or cls(m.group(2))):
            ops.append({"op": "rename", "file": cls(m.group(1)) or "outside", "to": cls(m.group(2)) or "outside", "n": 0})
            continue
        m = RE_UNLINK.match(line)
        if m and cls(m.group(1)):
            ops.append({"op": "unlink", "file": cls(m.group(1)), "to": "", "n": 0})
            continue
        m = RE_FSYNC.match(line)
        if m and m.group(1) in fds:
            ops.append({"op": "fsync", "file": fds[m.group(1)], "to": "", "n": 0})
            continue
        m = RE_CLOSE.match(line)
        if m and m.group(1) in fds:
            del fds[m.group(1)]
    return ops


def materialise(pre_dir, dst, ops, pos, k, new_data, target):
    shutil.rmtree(dst, ignore_errors=True)
    shutil.copytree(pre_dir, dst)
    off = {}

    def path(c):
        return os.path.join(dst, target if c == "target" else (TMPNAME.get(target, target + ".tmp.crash") if c == "tmp" else c.split(":", 1)[1]))
    todo = ops[:pos] + ([dict(ops[pos], n=k)] if k else [])
    for o in todo:
        if o["op"] == "open_trunc":
            open(path(o["file"]), "wb").close()
            off[o["file"]] = 0
        elif o["op"] == "open_create":
            if not os.path.exists(path(o["file"])):
                open(path(o["file"]), "wb").close()
                off[o["file"]] = 0
        elif o["op"] == "write":
            a = off.get(o["file"], 0)
            with open(path(o["file"]), "ab") as fh:
                fh.write(new_data[a:a + o["n"]])
            off[o["file"]] = a + o["n"]
        elif o["op"] == "rename":
            os.replace(path(o["file"]), path(o["to"]))
            off[o["to"]] = off.pop(o["file"], 0)
        elif o["op"] == "unlink":
            os.remove(path(o["file"]))


def run(res, prop, tier, seed, work, replay=None):
    res.level = "fault_enumeration"
    binary = vlib.build_harness(work, "filerec", "filerec")
    images = []
    samples = []
    total_states = 0
    cmd = ""
    for kind, target, prep, save, load in (("wallet", "w.wlt", "prepare-wallet", "save-wallet", "load-wallet"), ("kv", "client.json", "prepare-kv", "save-kv", "load-kv"),
                                           ("wallet-newaddr", "w.wlt", "prepare-wallet", "newaddr-wallet", "load-wallet"),
                                           ("wallet-create", "w.wlt", "prepare-none", "create-wallet", "load-wallet-or-none")):
        d = vlib.fresh_dir(os.path.join(work, kind, "live"))
        pre = os.path.join(work, kind, "pre")
        vlib.run([binary, prep, d], timeout=120)
        shutil.rmtree(pre, ignore_errors=True)
        shutil.copytree(d, pre)
        trace = os.path.join(work, kind, "trace.txt")
        p = vlib.run(["strace", "-f", "-e", "trace=openat,write,rename,renameat,renameat2,unlink,unlinkat,fsync,fdatasync,close", "-o", trace, binary, save, d],
                     timeout=300, check=False)
        if p.returncode != 0 or '"ok":true' not in (p.stdout or ""):
            raise Infra("the traced save failed: " + (p.stdout or "")[-500:])
        if not os.path.exists(os.path.join(d, target)):
            raise Infra("target file %s not found after the save" % target)
        new_data = open(os.path.join(d, target), "rb").read()
        ops = parse_trace(trace, d, target)
        if not any(o["op"] == "write" for o in ops):
            raise Infra("no write operation was recorded for the %s save" % kind)
        for o in ops:
            o["newlen"] = len(new_data)
        opsf = os.path.join(work, kind, "ops.ndjson")
        with open(opsf, "w") as fh:
            for o in ops:
                fh.write(json.dumps(o) + "\n")
        # every crash point: after each operation, and inside each write (1 byte, all but one byte)
        points = [(i, 0) for i in range(len(ops) + 1)]
        for i, o in enumerate(ops):
            if o["op"] == "write" and o["n"] > 1:
                points += [(i, 1), (i, o["n"] // 2), (i, o["n"] - 1)]
        recs = os.path.join(work, kind, "recs.ndjson")
        nrec = 0
        with open(recs, "w") as fh:
            for pos, k in points:
                img = os.path.join(work, kind, "img")
                materialise(pre, img, ops, pos, k, new_data, target)
                q = vlib.run([binary, load, img], timeout=120, check=False)
                try:
                    ans = json.loads((q.stdout or "").strip().splitlines()[-1])
                except Exception:
                    ans = {"ok": False, "content": "", "err": "loader crashed: " + (q.stdout or "")[-200:]}
                r = {"kind": kind, "pos": pos, "k": k, "ok": bool(ans.get("ok")), "content": ans.get("content", ""), "err": ans.get("err", "")[:200],
                     "next": ops[pos]["op"] + ":" + ops[pos]["file"] if pos < len(ops) else "done"}
                r["again"] = False
                images.append(r)
                fh.write(json.dumps(r) + "\n")
                nrec += 1
                if kind in ("wallet", "kv"):
                    # the user (or the node) simply does the same thing again after the restart: that save must take effect,
                    # whatever the crashed one left behind (its temporary file, under its real name, is still there)
                    vlib.run([binary, save, img], timeout=120, check=False)
                    q = vlib.run([binary, load, img], timeout=120, check=False)
                    try:
                        ans = json.loads((q.stdout or "").strip().splitlines()[-1])
                    except Exception:
                        ans = {"ok": False, "content": "", "err": "loader crashed: " + (q.stdout or "")[-200:]}
                    r2 = dict(r, again=True, ok=bool(ans.get("ok")), content=ans.get("content", ""), err=ans.get("err", "")[:200])
                    images.append(r2)
                    fh.write(json.dumps(r2) + "\n")
                    nrec += 1
        # TLC on the recorded program (all crash points, abstractly) ...
        t = vlib.run_tlc(SPEC, "FileSave", "FileSave.cfg", os.path.join(work, kind, "tlc_prog"), files={"ops.ndjson": opsf}, timeout=600)
        total_states += t["distinct"]
        spec_says_safe = t["ok"]
        # ... and on every materialised image, loaded by the real start-up code
        st, mism = vlib.validate_records(SPEC, "FileSaveRecords", "FileSaveRecords.cfg", os.path.join(work, kind), recs, with_reason=True,
                                         data_name="recs.ndjson", chunk=5000) if False else (None, None)
        r2 = vlib.run_tlc(SPEC, "FileSaveRecords", "FileSaveRecords.cfg", os.path.join(work, kind, "tlc_recs"), files={"ops.ndjson": opsf, "recs.ndjson": recs}, timeout=600)
        cmd = r2["cmd"]
        if r2["violated"] or r2["distinct"] != nrec:
            raise Infra("image oracle failed: " + r2["tail"][-800:])
        bad = 0
        for m in r2["mismatches"]:
            parts = [x.strip().strip('"') for x in m.strip("<>").split(",")]
            rec = images[len(images) - nrec + int(parts[2]) - 1]
            if parts[4].startswith("MODEL:"):
                if spec_says_safe:
                    raise Infra("FileSave.tla and the real loader disagree on a crash image (model defect): %s %s" % (parts[4], json.dumps(rec)))
                continue   # the model predicts an unrecoverable image and reality agreed in another record
            bad += 1
            sig = "filesave:%s:%s:before-%s" % (kind, parts[4], rec["next"])
            if rec.get("again"):
                sig += ":save-repeated"
            rp = vlib.save_replay(work, "C20_%s_%d_%d.json" % (kind, rec["pos"], rec["k"]), {"engine": "filesave", "signature": sig, "seed": seed, "tier": tier, "ops": ops, "image": rec})
            res.mismatch("C20", sig, "%s save: a crash after %d operations (+%d bytes of the next write, next = %s) leaves a directory the node loads as ok=%s content=%s %s"
                         % (kind, rec["pos"], rec["k"], rec["next"], rec["ok"], rec["content"], rec["err"][:100]), rp)
        if not spec_says_safe and bad == 0:
            raise Infra("FileSave.tla finds an unrecoverable crash point in the recorded %s save but every materialised image loaded fine: the model misreads the trace\n%s" % (kind, t["tail"][-600:]))
        samples.append({"kind": kind, "recorded_operations": [("%s %s%s %s" % (o["op"], o["file"], ("->" + o["to"]) if o["to"] else "", o["n"] or "")).strip() for o in ops],
                        "crash_points": len(points), "model_says_every_crash_point_recovers": spec_says_safe})
    kv.run(res, prop, tier, seed, work)      # the storage manager whose every change ends in the save path checked above
    res.coverage.update({
        "evaluations": len(images), "distinct_nontrivial": len({(r["kind"], r["pos"], r["k"]) for r in images}),
        "rule": "one crash image per crash point of the recorded save (after each file-system operation, and 1 byte / half / all-but-one byte into each write), "
                "for the wallet file (plain save, the service path that derives a new address, and the very first save of a new wallet), and for the key-value storage file; every image is loaded by the real start-up code; all are distinct and non-trivial",
        "exhaustive": True, "tlc_states_over_recorded_programs": total_states, "samples": samples,
        "images_by_outcome": {k: sum(1 for r in images if (r["ok"], r["content"]) == k2) for k, k2 in (("old", (True, "old")), ("new", (True, "new")))},
        "traces_validated_against_impl": 4, "checker_cmd": cmd,
    })
    res.assumptions += ["a crash is a process stop: data handed to write() reaches the file, no torn sectors, no lost renames (power failure is outside the statement)",
                        "strace sees every file operation of the save (the Go runtime uses openat/write/renameat/unlinkat)",
                        "TLC, SANY and the CommunityModules Json reader are trusted"]
