"""Engine `wallets` (C17, C18, C19): the wallet service against specs/wallets.
MC (exhaustive, cached): MCWalletService - memory and wallet directory under every interleaving of create (also temporary),
new addresses, label, encrypt, decrypt, unload, with failing saves: a fresh service loads exactly what memory holds and can
always start; a failed operation changes nothing; address counts only grow.
record -> validate: seeded operation sequences on a real wallet.Service (all four wallet types, both fast ciphers); after every
operation a FRESH wallet.NewService is started on the same directory; the record carries memory before/after, the reloaded
wallets and observed facts (entry consistency, equality with the single-batch reference derivation, secrets absent from a
locked wallet's serialised form and file, unlock restores exactly, wrong password rejected); TLC evaluates the invariants of
WalletRecords.tla on every record.  C18 adds direct calls of both ciphers on damaged ciphertexts."""
import collections
import json
import os

from lib import vlib
from lib.vlib import Infra

SPEC = os.path.join(vlib.SPECS, "wallets")
COUNT = {"quick": (25, 3000), "thorough": (250, 200000)}   # service sequences (14 operations each), decrypt calls


def run(res, prop, tier, seed, work, replay=None):
    res.level = "model_checking"
    mc = vlib.model_check(SPEC, "MCWalletService", "MCWalletService.cfg", os.path.join(work, "mc"), timeout=900)
    binary = vlib.build_harness(work, "walletrec", "walletrec")
    nseq, ndec = COUNT[tier]
    recs = os.path.join(work, "recs.ndjson")
    vlib.run([binary, recs, str(seed), str(nseq), "service"], timeout=3300)
    if prop == "C18":
        part = os.path.join(work, "dec.ndjson")
        vlib.run([binary, part, str(seed), str(ndec // 2), "decrypt"], timeout=3300)
        with open(recs, "a") as fh:
            fh.write(open(part).read())
    st, mism = vlib.validate_records(SPEC, "WalletRecords", "WalletRecords.cfg", work, recs, chunk=3000, with_reason=True)
    for i, (r, parts) in enumerate(mism):
        owner, _, what = parts[1].partition(":")
        sig = "wallets:%s" % what
        small = {k: v for k, v in r.items() if k not in ("pre", "post", "reload", "facts", "input")}
        rp = vlib.save_replay(work, "%s_%d.json" % (owner, i), {"engine": "wallets", "signature": sig, "seed": seed, "tier": tier, "record": r}) if owner == prop and i < 30 else ""
        res.mismatch(owner, sig, "real wallet code differs from WalletRecords.tla (%s): %s" % (what, json.dumps(small)[:300]), rp)
    all_recs = vlib.read_ndjson(recs)
    steps = [r for r in all_recs if r["fn"] == "wstep"]
    per = collections.Counter("%s/%s" % (r["op"], r["res"]) for r in steps)
    types = collections.Counter(p["type"] + ("/enc" if p["encrypted"] else "") for r in steps for p in r["post"])
    dec = collections.Counter("%s/how%d/%s" % (r["cipher"], r["how"], "plaintext" if r["plaintext"] else ("error" if r["err"] else "other")) for r in all_recs if r["fn"] == "decrypt")
    distinct = len({json.dumps([r["op"], r["id"], r["k"], r["pre"]], sort_keys=True) for r in steps}) + len({(r["cipher"], r["input"]) for r in all_recs if r["fn"] == "decrypt"})
    s0 = next((r for r in steps if r["op"] == "recover" and r["res"] == "ok"), steps[0])
    res.coverage.update({
        "states": mc["distinct"], "transitions": mc["generated"],
        "mc": {"module": "MCWalletService", "distinct": mc["distinct"], "generated": mc["generated"], "depth": mc["depth"], "cached": mc["cached"],
               "constants": "Ids={1,2,3} Seeds={s1,s2} MaxN=3, failing saves", "complete_state_space": True},
        "traces_validated_against_impl": nseq, "evaluations": len(all_recs), "distinct_nontrivial": distinct,
        "rule": "one record per service operation (each followed by a fresh wallet.NewService on the same directory) and, for C18, per direct cipher call on a damaged "
                "ciphertext; distinct = distinct (operation, wallet, argument, memory before) resp. distinct ciphertexts",
        "operations_by_result": dict(per), "wallets_observed_by_type": dict(types), "decrypt_calls": dict(dec),
        "samples": [{k: v for k, v in s0.items() if k not in ("pre", "reload", "facts")}],
        "checker_cmd": st["cmd"], "tlc_record_states": st["tlc_states"],
    })
    res.assumptions += ["the fast wallet ciphers (sha256-xor, scrypt-chacha20poly1305-insecure) stand for the default one (same code, smaller scrypt N)",
                        "the reference for derivation is a single-batch derivation by the same code from the same seed: the check is independence of batching, not BIP32 (C16)",
                        "secrets are searched in the serialised wallet and its file as text, base64 and hex", "TLC, SANY and the CommunityModules Json reader are trusted"]
