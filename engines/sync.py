"""Engine `sync` (C33, C25): a real node (daemon.Daemon + visor.Visor on a bolt file) behind a real TCP socket, the harness
being its only peer, against specs/sync/Sync.tla.
MC (exhaustive, cached): MCSync - lossy/duplicating/reordering network, hostile payloads, periodic requests; safety and
convergence (liveness under fairness).
generate -> replay: TLC (-simulate on GenSync) produces sequences of GIVB payloads; harness/syncrec sends them to the real
node, with a PING/PONG barrier after each.   record -> validate: every message / introduction attempt is one record and
TLC (SyncRecords) evaluates Process / Replies / IntroVerdict on it."""
import collections
import json
import os

from lib import vlib
from lib.vlib import Infra

SPEC = os.path.join(vlib.SPECS, "sync")
SIZE = {  # (tlc scripts, seeded scripts, converge runs, intro attempts)
    "quick": (25, 15, 2, 250),
    "thorough": (600, 300, 25, 6000),
}


def drive(res, prop, cmd, work):
    """Runs the harness.  The real node lives inside the harness process: if that process dies with a Go panic whose stack is in
    the repository's code, the node crashed on the last message sent - a verdict, not an infrastructure failure."""
    p = vlib.run(cmd, timeout=3000, check=False)
    if p.returncode == 0:
        return False
    out = p.stdout or ""
    if p.returncode == 2 and ("panic:" in out or "fatal error:" in out) and "github.com/skycoin/skycoin/src/" in out:
        sent = [l for l in out.splitlines() if l.startswith("SENDING ")]
        last = sent[-1][8:] if sent else "?"
        trace = "\n".join(l for l in out.splitlines() if "panic" in l or "skycoin/src/" in l)[:1500]
        sig = "sync:node-crashed"
        rp = vlib.save_replay(work, "%s_crash.json" % prop, {"engine": "sync", "signature": sig, "last_message_sent": last, "panic": trace})
        res.mismatch(prop, sig, "the node process died while handling a peer message (last sent: %s): %s" % (last[:120], trace[:300].replace("\n", " | ")), rp)
        return True
    raise Infra("harness failed (%d): %s\n%s" % (p.returncode, " ".join(cmd)[:200], out[-1500:]))


def run(res, prop, tier, seed, work, replay=None):
    res.level = "model_checking"
    mc = vlib.model_check(SPEC, "MCSync", "MCSync.cfg", os.path.join(work, "mc"), timeout=900)
    binary = vlib.build_harness(work, "syncrec", "syncrec")
    ntlc, nseed, nconv, nintro = SIZE[tier]
    recs = os.path.join(work, "recs.ndjson")
    open(recs, "w").close()
    nscripts = 0
    if prop == "C33":
        g = vlib.run_tlc(SPEC, "GenSync", "GenSync.cfg", os.path.join(work, "tlc_gen"), simulate=ntlc, depth=8, seed=seed + 1, timeout=900, extra=["-deadlock"])
        if not g["printed"]:
            raise Infra("generator produced no behaviours:\n" + g["tail"])
        scripts = [json.loads(line) for line in g["printed"]]
        nscripts = len(scripts)
        sp = os.path.join(work, "scripts.json")
        with open(sp, "w") as fh:
            json.dump(scripts, fh)
        part = os.path.join(work, "sync.ndjson")
        crashed = drive(res, prop, [binary, part, str(seed), str(nseed), "sync", sp], work)
        part2 = os.path.join(work, "conv.ndjson")
        crashed = crashed or drive(res, prop, [binary, part2, str(seed), str(nconv), "converge"], work)
        for x in (part, part2):
            if not os.path.exists(x):
                open(x, "w").close()
        with open(recs, "a") as fh:
            fh.write(open(part).read() + open(part2).read())
    else:
        part = os.path.join(work, "intro.ndjson")
        crashed = drive(res, prop, [binary, part, str(seed), str(nintro), "intro"], work)
        with open(recs, "a") as fh:
            fh.write(open(part).read())
    all_recs = vlib.read_ndjson(recs)
    if crashed:
        pass   # the node died: the records up to that point are still checked, the crash itself is the verdict
    elif prop == "C33" and not any(r["fn"] == "introduced" and any(m["id"] == "GETB" for m in r["sent"]) for r in all_recs):
        raise Infra("the node never accepted the harness's proper introduction: the scripts cannot be driven")
    elif prop == "C25" and not any(r["fn"] == "intro" and any(m["id"] == "GETB" for m in r["sent"]) for r in all_recs):
        raise Infra("no introduction was accepted at all: the decision table cannot be observed")
    st, mism = vlib.validate_records(SPEC, "SyncRecords", "SyncRecords.cfg", work, recs, chunk=20000, with_reason=True)
    for i, (r, parts) in enumerate(mism):
        owner, _, what = parts[1].partition(":")
        sig = "sync:%s:%s" % (r["fn"], what)
        rp = vlib.save_replay(work, "%s_%s_%d.json" % (owner, r["fn"], i), {"engine": "sync", "signature": sig, "seed": seed, "tier": tier, "record": r}) if owner == prop and i < 30 else ""
        res.mismatch(owner, sig, "real node over TCP differs from Sync.tla (%s): %s" % (what, json.dumps(r)[:300]), rp)
    per = collections.Counter()
    seen = set()
    for r in all_recs:
        key = json.dumps({k: v for k, v in r.items() if k not in ("script", "step")}, sort_keys=True)
        seen.add(key)
        if r["fn"] == "givb":
            per["givb/%s" % ("progress" if r["post"] > r["pre"] else "no-progress")] += 1
        elif r["fn"] == "intro":
            per["intro/%s" % ("introduced" if any(m["id"] == "GETB" for m in r["sent"]) else "refused:%s" % ",".join(str(m["n"]) for m in r["sent"] if m["id"] == "DISC"))] += 1
        else:
            per[r["fn"]] += 1
    s0 = next((r for r in all_recs if r["fn"] in ("givb", "intro") and (r.get("post", 0) > r.get("pre", 0) or r["fn"] == "intro")), all_recs[0])
    res.coverage.update({
        "states": mc["distinct"], "transitions": mc["generated"],
        "mc": {"module": "MCSync", "distinct": mc["distinct"], "generated": mc["generated"], "depth": mc["depth"], "cached": mc["cached"],
               "constants": "N=3 K=2, six hostile payloads, loss/duplication/reordering", "liveness_checked": True, "complete_state_space": True},
        "traces_validated_against_impl": nscripts + (nseed + nconv if prop == "C33" else 0) + (nintro if prop == "C25" else 0),
        "tlc_generated_scripts_replayed": nscripts,
        "evaluations": len(all_recs), "distinct_nontrivial": len(seen),
        "rule": "one record per message sent to the real node over TCP (C33: GIVB payloads from TLC-simulated and seeded scripts, convergence runs with "
                "lost/duplicated/hostile answers; C25: introductions over the decision table and each message type first on a fresh connection); "
                "distinct = distinct records ignoring script/step numbers",
        "records_by_kind": dict(per), "samples": [s0], "checker_cmd": st["cmd"], "tlc_record_states": st["tlc_states"],
    })
    res.assumptions += ["TCP on localhost delivers in order; a PONG proves every earlier message on that connection was processed",
                        "timers (periodic requests, pings, pex) are set to hours except where a run needs the periodic block request",
                        "the harness frames and encodes messages itself (reflection encoder)", "TLC, SANY and the CommunityModules Json reader are trusted"]
