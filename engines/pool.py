"""Engine `pool` (C05, C06, C11): unconfirmed pool and block creation of a real publisher visor against
specs/ledger/TxPool.tla.
MC (exhaustive, cached): MCTxPool - every interleaving of injections, refresh, invalid-removal and block creation
on a small universe; every block the specified publisher makes is Valid for the ledger of Ledger.tla.
record -> validate: seeded histories on a real arbitrating publisher + a real follower (bolt files); every pool
operation is one record for PoolRecords.tla, every block execution one edge for LedgerEdges.tla."""
import collections
import json
import os

from lib import vlib
from engines import gossip
from lib.vlib import Infra
from engines import ledger

SPEC = os.path.join(vlib.SPECS, "ledger")
SIZE = {"quick": (8, 6), "thorough": (150, 10)}   # histories, rounds per history


def run(res, prop, tier, seed, work, replay=None):
    res.level = "model_checking"
    mccfg = "MCTxPoolQuick.cfg" if tier == "quick" else "MCTxPool.cfg"
    mc = vlib.model_check(SPEC, "MCTxPool", mccfg, os.path.join(work, "mc"), timeout=2400)
    vbin = vlib.build_pkg_test(work, "src/visor", "visor")
    nh, nb = SIZE[tier]
    out = vlib.fresh_dir(os.path.join(work, "rec"))
    env = dict(os.environ, VERIF_OUT=out, VERIF_SEED=str(seed), VERIF_HISTORIES=str(nh), VERIF_BLOCKS=str(nb))
    p = vlib.run([vbin, "-test.run", "TestVerifPool$", "-test.count=1", "-test.timeout", "3000s"], env=env, timeout=3100, check=False)
    pool = os.path.join(out, "pool.ndjson")
    edges = os.path.join(out, "edges.ndjson")
    if p.returncode != 0 or not os.path.exists(pool):
        raise Infra("pool recorder failed:\n" + "\n".join(l for l in (p.stdout or "").splitlines() if "INFO" not in l and "DEBUG" not in l and "WARN" not in l)[-2000:])
    st, mism = vlib.validate_records(SPEC, "PoolRecords", "PoolRecords.cfg", work, pool, chunk=1500, data_name="pool.ndjson", with_reason=True)
    for i, (r, parts) in enumerate(mism):
      for clause in parts[1].split("+"):          # one clause per owning property
        owner, _, what = clause.partition(":")
        sig = "pool:%s:%s" % (r["ev"], what)
        rp = vlib.save_replay(work, "%s_h%d_s%d.json" % (owner, r["hist"], r["step"]),
                              {"engine": "pool", "signature": sig, "seed": seed, "tier": tier, "record": r}) if owner == prop and i < 40 else ""
        res.mismatch(owner, sig, "history %d step %d node %s: %s %s -> real result %s %s; TxPool.tla disagrees on: %s"
                     % (r["hist"], r["step"], r["node"], r["ev"], r.get("kind", ""), r["res"], r.get("err", "")[:80], what), rp)
    es = vlib.read_ndjson(edges)
    emism, estates, ecmd = ledger.validate_edges(work, es)
    dead = 0
    for idx, mut, reason in emism:
        e = es[idx]
        who = ledger.owner(mut, reason)
        if who is None:
            dead += 1
            continue
        sig = "ledger:%s:%s" % (reason, mut)
        rp = vlib.save_replay(work, "%s_h%d_s%d.json" % (who, e["hist"], e["step"]),
                              {"engine": "pool", "signature": sig, "seed": seed, "tier": tier, "edge": e}) if who == prop else ""
        res.mismatch(who, sig, "history %d step %d: block '%s' was %s by the real node (%s); Ledger.tla says: %s"
                     % (e["hist"], e["step"], mut, e["res"], e.get("err", "")[:80], reason), rp)
    if dead and not res.mismatches:
        raise Infra("%d hand-made valid block(s) were rejected: the histories cannot be driven" % dead)
    if dead:
        print("NOTE: %d hand-made valid block(s) were rejected by the node (no clause of %s; the history ends there)" % (dead, prop))
    if prop == "C06":
        gossip.run(res, prop, tier, seed, work)      # injection over the wire: the same pool, reached through GIVT
    recs = vlib.read_ndjson(pool)
    by = collections.Counter("%s/%s/%s" % (r["ev"], r.get("kind", ""), r["res"]) for r in recs)
    kinds = collections.Counter(t["kind"] for r in recs if r["ev"] == "inject" for t in r["txns"])
    creates = [r for r in recs if r["ev"] == "create"]
    dropped = sum(1 for r in creates if r["res"] == "ok" and len(r["hashes"]) < len(r["txns"]))
    distinct = len({json.dumps([r["ev"], r.get("kind"), r["st"]["headHash"], r["pre"], [t["hash"] for t in r["txns"]]], sort_keys=True) for r in recs})
    s0 = next((r for r in creates if r["res"] == "ok"), recs[0])
    res.coverage.update({
        "states": mc["distinct"], "transitions": mc["generated"],
        "mc": {"module": "MCTxPool", "distinct": mc["distinct"], "generated": mc["generated"], "depth": mc["depth"], "cached": mc["cached"],
               "config": mccfg, "complete_state_space": True},
        "traces_validated_against_impl": nh, "pool_records_checked_by_tlc": st["records"], "block_edges_checked_by_tlc": len(es),
        "evaluations": st["records"] + len(es), "distinct_nontrivial": distinct,
        "rule": "one record per pool operation on the real visor (inject foreign/user, refresh, remove_invalid, create) and one edge per block "
                "execution; distinct = distinct (operation, head, pool, transaction set); all are non-trivial (the expected result and post pool "
                "are computed by TLC from the logged state)",
        "records_by_event_and_result": dict(by), "injected_transaction_kinds": dict(kinds),
        "blocks_created": sum(1 for r in creates if r["res"] == "ok"), "creates_with_txns_left_out": dropped,
        "samples": [{"ev": s0["ev"], "res": s0["res"], "block": s0["hashes"], "pool": [[t["hash"][:8], t["kind"], t["size"]] for t in s0["txns"]],
                     "params": s0["p"], "maxBlock": s0["maxBlock"]}],
        "checker_cmd": st["cmd"],
    })
    res.assumptions += ["sigsOK describes what the harness did by construction; signature arithmetic is C14/C10",
                        "hash order (rank) is the byte order of the hex hashes, computed by the recorder",
                        "transaction size is measured with the reflection encoder (C21 relates it to the generated codec)",
                        "TLC, SANY and the CommunityModules Json reader are trusted"]
