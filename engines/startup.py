"""Part `startup` of the crash engine (C08): the version gate and verification rule of the node's start-up sequence
(src/skycoin/db_check.go, src/visor/meta.go) against specs/startup/Startup.tla.
MC (exhaustive, cached): MCStartup - any sequence of binaries (six versions: releases, numeric and alphanumeric pre-releases)
started on one file, each crashing at any step: a binary is never refused on a file it was the last to record, the recorded
version never goes down and has the precedence of the binary, nothing is used without the verification the rule demands, a
start terminates.  MCStartupNormalised.cfg is the refuted variant (only the release triple recorded) and must violate
OwnDatabaseOpens.  record -> validate: overlay/skycoin TestVerifStartup runs the REAL start-up sequence for seeded sequences
of binaries with abrupt stops after any commit of a start (images taken by the commit hook); TLC (StartupRecords) evaluates
the spec's own Refused / NeedsVerify and Semver.tla's precedence on every record."""
import collections
import json
import os

from lib import vlib
from lib.vlib import Infra

SPEC = os.path.join(vlib.SPECS, "startup")
SEQS = {"quick": 40, "thorough": 1500}


def refuted(work):
    names = [f for f in os.listdir(SPEC) if f.endswith((".tla", ".cfg"))]
    cpath = os.path.join(vlib.VERIF, ".cache", "mc", "startup-refuted-%s.json" % vlib.spec_hash(SPEC, names))
    if os.path.exists(cpath):
        try:
            return json.load(open(cpath))
        except ValueError:
            pass
    r = vlib.run_tlc(SPEC, "MCStartup", "MCStartupNormalised.cfg", os.path.join(work, "mc-startup-normalised"), timeout=600)
    if r["ok"] or not any("OwnDatabaseOpens" in v for v in r["violated"]) and "OwnDatabaseOpens" not in r["tail"]:
        raise Infra("Startup.tla recording only the release triple should violate OwnDatabaseOpens but TLC says: %s" % r["tail"][-800:])
    out = {"MCStartupNormalised.cfg": {"violates": "OwnDatabaseOpens", "distinct": r["distinct"]}}
    os.makedirs(os.path.dirname(cpath), exist_ok=True)
    tmp = "%s.%d.tmp" % (cpath, os.getpid())
    with open(tmp, "w") as fh:
        json.dump(out, fh)
    os.replace(tmp, cpath)
    return out


def _tlc_trace(work, lines, name):
    p = os.path.join(work, name + ".ndjson")
    with open(p, "w") as fh:
        fh.write("\n".join(lines) + "\n")
    return vlib.run_tlc(SPEC, "TraceStartup", "TraceStartup.cfg", os.path.join(work, "tlc-" + name), files={"startup_trace.ndjson": p}, workers=1, timeout=1500)


def validate_trace(res, seed, tier, work, trace_file):
    """Trace validation proper: the events of all real start-up sequences, file after file, must be a behaviour of Startup.tla's own
    actions (TraceStartup.tla: one action per line, accepted iff every line is consumed, the invariants hold in every state).
    A rejected sequence is reported and removed, the rest is validated again.  The binding is demonstrated in every accepted run:
    a corrupted recorded version and a dropped event must each be rejected at exactly that line."""
    with open(trace_file) as fh:
        lines = fh.read().splitlines()
    total, seqs, rejected = len(lines), sum(1 for x in lines if '"ev":"reset"' in x), 0
    original = list(lines)
    r = None
    for attempt in range(5):
        r = _tlc_trace(work, lines, "startup-trace")
        if r["ok"]:
            break
        bad = r["distinct"]
        inv = any("Invariant" in v for v in r["violated"])
        if inv:
            bad -= 1
        bad = max(1, min(bad, len(lines)))
        start = max(i for i in range(bad) if '"ev":"reset"' in lines[i])
        end = next((i for i in range(start + 1, len(lines)) if '"ev":"reset"' in lines[i]), len(lines))
        ev = json.loads(lines[bad - 1])
        rejected += 1
        sig = "startup:%s:at-%s" % ("invariant-violated-in-a-real-state" if inv else "trace-rejected", ev["ev"])
        evs = [json.loads(x) for x in lines[start:end]]
        brief = [{"ev": e["ev"], "step": e["step"], "app": e["app"]["text"], "stored": e["stored"]["text"], "refused": e["refused"], "force": e["force"]} for e in evs][:60]
        rp = vlib.save_replay(work, "C08_startup_trace_%d.json" % attempt, {"engine": "crash", "part": "startup-trace", "signature": sig, "seed": seed, "tier": tier,
                                                                            "checkpoint": evs[0]["checkpoint"]["text"], "events": brief, "line_in_sequence": bad - start})
        res.mismatch("C08", sig, "the real start-up sequence %d is not a behaviour of Startup.tla: event %d of the sequence (%s, step %d)%s" % (
            ev["seq"], bad - start, ev["ev"], ev["step"], "; violated: " + ", ".join(r["violated"]) if inv else ""), rp)
        lines = lines[:start] + lines[end:]
        if not lines:
            break
    if rejected == 0:
        stores = [i for i, x in enumerate(original) if '"ev":"store"' in x and '"none":false' in x]
        gates = [i for i, x in enumerate(original) if '"ev":"gate"' in x and '"refused":false' in x]
        if len(stores) < 4 or len(gates) < 4:
            raise Infra("too few events for the binding self-test of the start-up trace")

        def corrupt(ls):
            e = json.loads(ls[stores[2]])
            e["stored"]["core"] = [e["stored"]["core"][0], e["stored"]["core"][1], e["stored"]["core"][2] + 1]
            ls[stores[2]] = json.dumps(e)

        for name, mut, want in (("corrupt", corrupt, stores[2] + 1), ("dropped", lambda ls: ls.__delitem__(gates[3]), gates[3] + 1)):
            ls = list(original[:600])
            mut(ls)
            t = _tlc_trace(work, ls, "startup-selftest")
            if t["ok"] or t["distinct"] != want:
                raise Infra("binding self-test '%s' of the start-up trace: the damaged trace should be rejected at line %d, TLC consumed %d lines" % (name, want, t["distinct"]))
    return {"trace_lines": total, "sequences": seqs, "sequences_rejected": rejected, "cmd": r["cmd"] if r else "", "binding_self_test": rejected == 0}


def run(res, prop, tier, seed, work):
    mc = vlib.model_check(SPEC, "MCStartup", "MCStartup.cfg", os.path.join(work, "mc-startup"), timeout=600)
    ref = refuted(work)
    sbin = vlib.build_pkg_test(work, "src/skycoin", "skycoin")
    out = vlib.fresh_dir(os.path.join(work, "startup-rec"))
    env = dict(os.environ, VERIF_OUT=out, VERIF_SEED=str(seed), VERIF_COUNT=str(SEQS[tier]))
    p = vlib.run([sbin, "-test.run", "TestVerifStartup$", "-test.count=1", "-test.timeout", "3000s"], env=env, timeout=3100, check=False)
    recs = os.path.join(out, "startup.ndjson")
    if p.returncode != 0 or not os.path.exists(recs) or os.path.getsize(recs) == 0:
        raise Infra("startup recorder failed:\n" + "\n".join(l for l in (p.stdout or "").splitlines() if "INFO" not in l and "DEBUG" not in l and "WARN" not in l)[-2000:])
    swork = os.path.join(work, "startup")
    os.makedirs(swork, exist_ok=True)
    st, mism = vlib.validate_records(SPEC, "StartupRecords", "StartupRecords.cfg", swork, recs, chunk=4000, data_name="startup.ndjson", with_reason=True)
    notes = collections.Counter()
    for i, (r, parts) in enumerate(mism):
        owner, _, what = parts[1].partition(":")
        brief = {"app": r["app"]["text"], "before": r["before"]["text"] if not r["before"]["none"] else None, "after": r["after"]["text"] if not r["after"]["none"] else None,
                 "checkpoint": r["checkpoint"]["text"], "force": r["force"], "opened": r["opened"], "err": r["err"][:160], "verifyCalls": r["verifyCalls"],
                 "initOK": r["initOK"], "initErr": r["initErr"][:160], "headSeq": r["headSeq"], "expectHead": r["expectHead"], "sameBinaryAsLastWriter": r["sameAsLastWriter"]}
        if owner != "C08":
            notes[what] += 1
            if notes[what] == 1:
                print("NOTE: start-up (no listed property): %s: %s" % (what, json.dumps(brief)))
            continue
        sig = "startup:%s" % what
        rp = vlib.save_replay(work, "C08_startup_%d.json" % i, {"engine": "crash", "part": "startup", "signature": sig, "seed": seed, "tier": tier, "record": r}) if i < 30 else ""
        res.mismatch("C08", sig, "start-up sequence %d step %d: the real start-up differs from Startup.tla (%s): %s" % (r["seq"], r["step"], what, json.dumps(brief)), rp)
    tstats = validate_trace(res, seed, tier, work, os.path.join(out, "startup_trace.ndjson"))
    all_recs = vlib.read_ndjson(recs)
    res.coverage["startup_gate"] = {
        "trace_validation": tstats,
        "mc": {"module": "MCStartup", "distinct": mc["distinct"], "generated": mc["generated"], "cached": mc["cached"], "liveness_checked": True,
               "constants": "6 versions (0.26.0, 0.27.0-1, -rc.1, -rc.2, 0.27.0, 0.27.1-rc.1), checkpoint 0.27.0-rc.1"},
        "refuted_designs": ref,
        "starts_of_the_real_sequence": len(all_recs), "sequences": SEQS[tier],
        "by_outcome": dict(collections.Counter("%s/%s/verify=%d" % ("opened" if r["opened"] else "refused", "same-binary" if r["sameAsLastWriter"] else "other-binary", r["verifyCalls"]) for r in all_recs)),
        "pre_release_or_build_tagged_binaries": sum(1 for r in all_recs if r["app"]["pre"] or r["app"]["build"]),
        "crashed_inside_the_start": sum(1 for r in all_recs if r["opened"] and r["crashAfter"] < len(r["commits"])),
        "notes_no_listed_property": dict(notes), "checker_cmd": st["cmd"],
    }
