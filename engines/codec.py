"""Engine `codec` (C21): the generated binary codecs and the reflection encoder against specs/codec/Codec.tla.
Codec.tla is the wire format as a function of a schema (ints, byte arrays, arrays, length-prefixed byte strings and slices with
maximum lengths, structs with an omitted-when-empty last field): Enc, Decode (with the failure kinds underflow / maxlen), exact
decoding.  MCCodec checks the format on its own for a schema using every construct and EVERY byte string of length <= 10 over
{0,1,2,128} (1.4 M strings): decoding fails definitely or yields a value within the maxima that re-encodes and re-decodes to
itself, and the encoding equals the consumed bytes except for an explicitly written empty omitted field.
record -> validate: overlay tests in the five packages that own the 29 generated codecs call, for random values (empty, nil,
one-element, longer and maxlen-boundary slices, extreme integers) the generated encoder / size and encoder.Serialize / Size, and
for byte strings derived from valid encodings (cuts, appended bytes, 4-byte windows set to boundary lengths incl. what-is-left
+-1, 2^31, 2^32-1, changed bytes, random bytes, an explicit zero length appended) the generated decoder / exact decoder and
encoder.DeserializeRaw / DeserializeRawExact, each followed by re-encoding; panics are caught and recorded.  TLC evaluates
Codec.tla for each implementation on every record; the schema of each type is derived from the Go type by reflection."""
import collections
import json
import os

from lib import vlib
from lib.vlib import Infra

SPEC = os.path.join(vlib.SPECS, "codec")
PKGS = [("src/coin", "coin"), ("src/daemon", "daemon"), ("src/visor", "visor"), ("src/visor/blockdb", "blockdb"), ("src/visor/historydb", "historydb")]
COUNT = {"quick": 12, "thorough": 250}      # values per codec (each followed by two byte strings)


def run(res, prop, tier, seed, work, replay=None):
    res.level = "exploration"
    mc = vlib.model_check(SPEC, "MCCodec", "MCCodec.cfg", os.path.join(work, "mc"), timeout=1800)
    recs = os.path.join(work, "recs.ndjson")
    schemas = os.path.join(work, "schemas.ndjson")
    types = []
    with open(recs, "w") as rf, open(schemas, "w") as sf:
        for rel, name in PKGS:
            binary = vlib.build_pkg_test(work, rel, name)
            out = vlib.fresh_dir(os.path.join(work, "rec-" + name))
            env = dict(os.environ, VERIF_OUT=out, VERIF_SEED=str(seed), VERIF_COUNT=str(COUNT[tier]))
            if tier == "thorough":
                env["VERIF_BIG"] = "1"
            p = vlib.run([binary, "-test.run", "TestVerifCodec$", "-test.count=1", "-test.timeout", "3000s"], env=env, timeout=3100, check=False)
            part = os.path.join(out, "codec-%s.ndjson" % name)
            if p.returncode != 0 or not os.path.exists(part):
                raise Infra("codec recorder of %s failed:\n%s" % (name, (p.stdout or "")[-2000:]))
            rf.write(open(part).read())
            s = open(os.path.join(out, "schemas-%s.ndjson" % name)).read()
            sf.write(s)
            types += [json.loads(l)["type"] for l in s.splitlines()]
    st, mism = vlib.validate_records(SPEC, "CodecRecords", "CodecRecords.cfg", work, recs, chunk=2500, with_reason=True, extra_files={"schemas.ndjson": schemas},
                                     timeout=3000)
    seen = collections.Counter()
    for i, (r, parts) in enumerate(mism):
        sig = "codec:%s:%s:%s" % (r["type"], r["fn"], parts[1])
        seen[sig] += 1
        small = {k: (v if len(json.dumps(v)) < 500 else "...") for k, v in r.items()}
        rp = vlib.save_replay(work, "C21_%d.json" % i, {"engine": "codec", "signature": sig, "seed": seed, "tier": tier, "record": r}) if seen[sig] <= 3 else ""
        res.mismatch("C21", sig, "%s %s: differs from the format in Codec.tla (%s): %s" % (r["type"], r["fn"], parts[1], json.dumps(small)[:300]), rp)
    per = collections.Counter()
    outcomes = collections.Counter()
    n = 0
    longest = 0
    seen = set()
    with open(recs) as fh:
        for line in fh:
            r = json.loads(line)
            n += 1
            seen.add(hash(line))
            per["%s/%s" % (r["type"], r["fn"])] += 1
            if r["fn"] == "dec":
                outcomes["gen:" + (r["gen"]["err"] or "accepted")] += 1
                outcomes["ref:" + (r["ref"]["err"] or "accepted")] += 1
                longest = max(longest, len(r["bytes"]))
            else:
                outcomes["enc:" + (r["genErr"] or "ok")] += 1
    res.coverage.update({
        "states": mc["distinct"], "transitions": mc["generated"],
        "mc": {"module": "MCCodec", "distinct": mc["distinct"], "generated": mc["generated"], "cached": mc["cached"],
               "constants": "schema with every construct; every byte string of length <= 10 over {0,1,2,128}", "complete_state_space": True},
        "evaluations": n, "distinct_nontrivial": len(seen), "codecs": len(types), "codec_types": types, "records_by_type_and_call": dict(per), "outcomes": dict(outcomes), "longest_byte_string": longest,
        "rule": "per codec and value: one encode record (generated + reflection) and two decode records on byte strings derived from the encoding, each decoded by both "
                "implementations, exactly and non-exactly, and re-encoded; distinct = distinct records (type, call, value or byte string, both implementations' answers); every record is non-trivial: TLC derives the expected bytes / verdict from the logged schema and raw fields", "samples": vlib.read_ndjson(recs, limit=1),
        "checker_cmd": st["cmd"], "tlc_record_states": st["tlc_states"], "traces_validated_against_impl": n,
    })
    res.assumptions += ["sampling of values and byte strings (unbounded spaces); the exhaustive part is the format itself on a small schema",
                        "the schema of a type is derived by reflection from the same struct tags the reflection encoder reads",
                        "slices longer than ~600 elements are only produced in the thorough tier; maximum lengths of 65535 are reached through length prefixes, not through values",
                        "TLC, SANY and the CommunityModules Json reader are trusted"]
