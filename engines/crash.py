"""Engine `crash` (C08): crash recovery of the chain database against specs/crash/Crash.tla.
MC (exhaustive, cached): Crash.tla - the node's life as a sequence of commits, each in bolt's two steps (data pages, then the meta
page), with up to two crashes anywhere, also between and inside the two steps: the integrity verification is "ok" on every disk a
crash can leave, the script always finishes, the final disk equals the uncrashed one.
fault enumeration on the real node: the dbutil commit hook (build tag verif) copies the bolt file at EVERY commit boundary of a
scripted life (creation, start-up, genesis, blocks, pool updates); every copy (quick: single crashes; thorough: also every commit
boundary of the restarted run) is verified with CheckDatabase under a watchdog, restarted (visor.New + Init), given the remaining
events, and compared with the uncrashed final state; crashes INSIDE a commit are materialised under the write-prefix model from
the two neighbouring copies (file grown, a prefix of the changed data pages in ascending order, perhaps half a page, meta page
unwritten or half written) and treated the same way; TLC checks every plan record (CrashRecords) and that the recorded commit
sequence belongs to the specified life-cycle."""
import collections
import json
import os

from lib import vlib
from engines import startup
from lib.vlib import Infra

SPEC = os.path.join(vlib.SPECS, "crash")
SIZE = {"quick": (3, 1, 1), "thorough": (7, 2, 4)}   # blocks, crash depth, scripts (seeds)


REBUILD_BLOCKS = {"quick": 520, "thorough": 2100}


def validate_traces(res, seed, tier, work, trace_files):
    """Trace validation in the narrow sense: the event logs of all real lives, concatenated, must be a behaviour of Crash.tla
    (TraceCrash.tla: one spec action per line, accepted iff every line is consumed).  A rejection names the line; the life
    it belongs to is reported and removed, and the rest is validated again."""
    lines = []
    for tfn in trace_files:
        with open(tfn) as fh:
            lines += fh.read().splitlines()
    total, lives, rejected = len(lines), sum(1 for l in lines if '"ev":"trace"' in l), 0
    original = list(lines)
    for attempt in range(6):
        p = os.path.join(work, "trace.ndjson")
        with open(p, "w") as fh:
            fh.write("\n".join(lines) + "\n")
        r = vlib.run_tlc(SPEC, "TraceCrash", "TraceCrash.cfg", os.path.join(work, "tlc-trace"), files={"trace.ndjson": p}, workers=1, timeout=3000)
        if r["ok"]:
            break
        bad = r["distinct"]          # one state per consumed line plus the initial state: line `bad` was not a step of the specification
        if any("Invariant" in v for v in r["violated"]):
            bad -= 1                 # the state after consuming that line violates Verify
        bad = max(1, min(bad, len(lines)))
        start = max(i for i in range(bad) if '"ev":"trace"' in lines[i])
        end = next((i for i in range(start + 1, len(lines)) if '"ev":"trace"' in lines[i]), len(lines))
        hdr, ev = json.loads(lines[start]), json.loads(lines[bad - 1])
        rejected += 1
        what = "verify-not-ok-in-a-real-state" if any("Invariant" in v for v in r["violated"]) else "trace-rejected"
        sig = "crash:%s:at-%s-%s" % (what, ev["ev"], ev.get("name") or ev.get("kind") or "")
        rp = vlib.save_replay(work, "C08_trace_%d.json" % attempt, {"engine": "crash", "signature": sig, "seed": seed, "tier": tier, "life": hdr, "event": ev,
                                                                    "events_of_the_life": [json.loads(x) for x in lines[start:end]][:400], "line_in_life": bad - start})
        res.mismatch("C08", sig, "the real node's life (crash plan %s%s) is not a behaviour of Crash.tla: event %d of the life, %s" % (
            hdr["plan"], ", crash inside the commit" if hdr["torn"] else "", bad - start, json.dumps({k: v for k, v in ev.items() if k not in ("plan", "script")})), rp)
        lines = lines[:start] + lines[end:]
        if not lines:
            break
    if rejected == 0:
        self_test(work, original)        # the binding demonstration needs traces that are accepted when undamaged
    return {"trace_lines": total, "lives": lives, "lives_rejected": rejected, "cmd": r["cmd"], "binding_self_test": rejected == 0}


def self_test(work, lines):
    """The binding is demonstrated in every run: a corrupted logged field and a removed event must each be rejected at that line."""
    commits = [i for i, l in enumerate(lines) if '"ev":"commit"' in l]
    begins = [i for i, l in enumerate(lines) if '"ev":"begin"' in l]
    if len(commits) < 8:
        raise Infra("too few events for the binding self-test")
    for name, mut in (("corrupt", lambda ls: ls.__setitem__(commits[6], json.dumps(dict(json.loads(ls[commits[6]]), pool=json.loads(ls[commits[6]])["pool"] + 1)))),
                      ("dropped", lambda ls: ls.__delitem__(begins[5]))):
        ls = lines[:400]
        mut(ls)
        p = os.path.join(work, "trace-selftest.ndjson")
        with open(p, "w") as fh:
            fh.write("\n".join(ls) + "\n")
        r = vlib.run_tlc(SPEC, "TraceCrash", "TraceCrash.cfg", os.path.join(work, "tlc-selftest"), files={"trace.ndjson": p}, workers=1, timeout=900)
        want = (commits[6] if name == "corrupt" else begins[5]) + 1
        if r["ok"] or r["distinct"] != want:
            raise Infra("binding self-test '%s': the damaged trace should be rejected at line %d, TLC consumed %d lines" % (name, want, r["distinct"]))


def run(res, prop, tier, seed, work, replay=None):
    res.level = "fault_enumeration"
    mc = vlib.model_check(SPEC, "Crash", "Crash.cfg", os.path.join(work, "mc"), timeout=900)
    vbin = vlib.build_pkg_test(work, "src/visor", "visor")
    nb, depth, nscripts = SIZE[tier]
    recs = os.path.join(work, "recs.ndjson")
    open(recs, "w").close()
    traces = []
    for i in range(nscripts):
        out = vlib.fresh_dir(os.path.join(work, "rec%d" % i))
        env = dict(os.environ, VERIF_OUT=out, VERIF_SEED=str(seed * 100 + i), VERIF_BLOCKS=str(nb), VERIF_CRASH_DEPTH=str(depth))
        p = vlib.run([vbin, "-test.run", "TestVerifCrash$", "-test.count=1", "-test.timeout", "3000s"], env=env, timeout=3100, check=False)
        part = os.path.join(out, "crash.ndjson")
        if p.returncode != 0 or not os.path.exists(part) or os.path.getsize(part) == 0:
            raise Infra("crash recorder failed:\n" + "\n".join(l for l in (p.stdout or "").splitlines() if "INFO" not in l and "DEBUG" not in l and "WARN" not in l)[-2000:])
        with open(recs, "a") as fh:
            fh.write(open(part).read())
        traces.append(os.path.join(out, "trace.ndjson"))
    # the restart that has to rebuild derived data (history, address index) on a long chain, stopped after any of its commits
    rout = vlib.fresh_dir(os.path.join(work, "rebuild"))
    env = dict(os.environ, VERIF_OUT=rout, VERIF_SEED=str(seed), VERIF_REBUILD_BLOCKS=str(REBUILD_BLOCKS[tier]))
    p = vlib.run([vbin, "-test.run", "TestVerifRebuild$", "-test.count=1", "-test.timeout", "3000s"], env=env, timeout=3100, check=False)
    rpart = os.path.join(rout, "rebuild.ndjson")
    if p.returncode != 0 or not os.path.exists(rpart) or os.path.getsize(rpart) == 0:
        raise Infra("rebuild recorder failed:\n" + "\n".join(l for l in (p.stdout or "").splitlines() if "INFO" not in l and "DEBUG" not in l and "WARN" not in l)[-2000:])
    with open(recs, "a") as fh:
        fh.write(open(rpart).read())
    st, mism = vlib.validate_records(SPEC, "CrashRecords", "CrashRecords.cfg", work, recs, chunk=5000, with_reason=True)
    for i, (r, parts) in enumerate(mism):
        sig = "crash:%s:after-%s" % (parts[1], "+".join(r["after"]) if r["after"] else "-")
        rp = vlib.save_replay(work, "C08_%d.json" % i, {"engine": "crash", "signature": sig, "seed": seed, "tier": tier, "record": r}) if i < 30 else ""
        res.mismatch("C08", sig, "crash plan %s (after commit %s; verify=%s): check=%s restart=%s final==uncrashed: %s"
                     % (r["plan"], r["after"], r["verify"], r["check"][:80], r["restart"][:120], r["final"] == r["expected"]), rp)
    tstats = validate_traces(res, seed, tier, work, traces)
    startup.run(res, prop, tier, seed, work)       # the version gate every one of these restarts passes first in a real node
    all_recs = vlib.read_ndjson(recs)
    plans = [r for r in all_recs if r["fn"] in ("crash", "torn")]
    torn = [r for r in plans if r["fn"] == "torn"]
    per = collections.Counter("after:%s" % r["after"][-1] for r in plans)
    un = next(r for r in all_recs if r["fn"] == "uncrashed")
    res.coverage.update({
        "evaluations": len(plans), "distinct_nontrivial": len({json.dumps([r["plan"], r["verify"], r["commits"], r.get("torn"), r["fn"]]) for r in plans}),
        "trace_validation": tstats, "crashes_inside_a_commit": len(torn), "torn_images_by_meta_page": dict(collections.Counter(r["torn"]["meta"] for r in torn)),
        "rule": "one crash plan per commit boundary of the scripted life (the database file copied by the commit hook right after the commit; also the created-but-empty file), "
                "each executed with and without the integrity verification first; plus, for every commit, the images of the write-prefix model (file before the commit grown to its new size, "
                "the first 0 / 1 / half / all changed data pages written in ascending order, optionally half of the next page, meta page unwritten or half written); thorough: for every such image also every commit boundary of the restarted run (double crash); "
                "all plans are distinct and non-trivial: verification must return ok within the watchdog, the restart must succeed and the final state must equal the uncrashed one",
        "exhaustive": True, "scripts": nscripts, "blocks_per_script": nb, "crash_depth": depth,
        "plans_by_last_commit_before_the_crash": dict(per), "uncrashed_commit_sequence": un["commits"],
        "states": mc["distinct"], "transitions": mc["generated"],
        "mc": {"module": "Crash", "distinct": mc["distinct"], "generated": mc["generated"], "depth": mc["depth"], "cached": mc["cached"],
               "constants": "NBlocks=3 MaxCrashes=2", "liveness_checked": True},
        "samples": [{k: v for k, v in plans[len(plans) // 2].items() if k != "commits"}],
        "rebuild_restarts": {"blocks": REBUILD_BLOCKS[tier], "images_restarted": sum(1 for r in all_recs if r["fn"] == "rebuild" and r["verify"]),
                             "commits_of_the_rebuilding_start": {r["what"]: r["commits"] for r in all_recs if r["fn"] == "rebuild" and not r["verify"]}},
        "traces_validated_against_impl": nscripts, "checker_cmd": st["cmd"],
    })
    res.assumptions += ["bolt commits are atomic and durable (a crash inside a commit leaves the old or the new disk): torn page writes are not replayed",
                        "the hook fires after bolt's Update returned nil: the copy is the disk a crash right after that commit leaves",
                        "TLC, SANY and the CommunityModules Json reader are trusted"]
