"""Engine `crash` (C08): crash recovery of the chain database against specs/crash/Crash.tla.
MC (exhaustive, cached): Crash.tla - the node's life as a sequence of commits, each in bolt's two steps (data pages, then the meta
page), with up to two crashes anywhere, also between and inside the two steps: the integrity verification is "ok" on every disk a
crash can leave, the script always finishes, the final disk equals the uncrashed one.
fault enumeration on the real node: the dbutil commit hook (build tag verif) copies the bolt file at EVERY commit boundary of a
scripted life (creation, start-up, genesis, blocks, pool updates); every copy (quick: single crashes; thorough: also every commit
boundary of the restarted run) is verified with CheckDatabase under a watchdog, restarted (visor.New + Init), given the remaining
events, and compared with the uncrashed final state; crashes INSIDE a commit are materialised under the write-prefix model from
the two neighbouring copies (file grown, a prefix of the changed data pages in ascending order, perhaps half a page, meta page
unwritten or half written) and treated the same way; TLC checks every plan record (CrashRecords) and that the recorded commit
sequence belongs to the specified life-cycle."""
import collections
import json
import os

from lib import vlib
from lib.vlib import Infra

SPEC = os.path.join(vlib.SPECS, "crash")
SIZE = {"quick": (3, 1, 1), "thorough": (7, 2, 4)}   # blocks, crash depth, scripts (seeds)


def run(res, prop, tier, seed, work, replay=None):
    res.level = "fault_enumeration"
    mc = vlib.model_check(SPEC, "Crash", "Crash.cfg", os.path.join(work, "mc"), timeout=900)
    vbin = vlib.build_pkg_test(work, "src/visor", "visor")
    nb, depth, nscripts = SIZE[tier]
    recs = os.path.join(work, "recs.ndjson")
    open(recs, "w").close()
    for i in range(nscripts):
        out = vlib.fresh_dir(os.path.join(work, "rec%d" % i))
        env = dict(os.environ, VERIF_OUT=out, VERIF_SEED=str(seed * 100 + i), VERIF_BLOCKS=str(nb), VERIF_CRASH_DEPTH=str(depth))
        p = vlib.run([vbin, "-test.run", "TestVerifCrash$", "-test.count=1", "-test.timeout", "3000s"], env=env, timeout=3100, check=False)
        part = os.path.join(out, "crash.ndjson")
        if p.returncode != 0 or not os.path.exists(part) or os.path.getsize(part) == 0:
            raise Infra("crash recorder failed:\n" + "\n".join(l for l in (p.stdout or "").splitlines() if "INFO" not in l and "DEBUG" not in l and "WARN" not in l)[-2000:])
        with open(recs, "a") as fh:
            fh.write(open(part).read())
    st, mism = vlib.validate_records(SPEC, "CrashRecords", "CrashRecords.cfg", work, recs, chunk=5000, with_reason=True)
    for i, (r, parts) in enumerate(mism):
        sig = "crash:%s:after-%s" % (parts[1], "+".join(r["after"]) if r["after"] else "-")
        rp = vlib.save_replay(work, "C08_%d.json" % i, {"engine": "crash", "signature": sig, "seed": seed, "tier": tier, "record": r}) if i < 30 else ""
        res.mismatch("C08", sig, "crash plan %s (after commit %s; verify=%s): check=%s restart=%s final==uncrashed: %s"
                     % (r["plan"], r["after"], r["verify"], r["check"][:80], r["restart"][:120], r["final"] == r["expected"]), rp)
    all_recs = vlib.read_ndjson(recs)
    plans = [r for r in all_recs if r["fn"] in ("crash", "torn")]
    torn = [r for r in plans if r["fn"] == "torn"]
    per = collections.Counter("after:%s" % r["after"][-1] for r in plans)
    un = next(r for r in all_recs if r["fn"] == "uncrashed")
    res.coverage.update({
        "evaluations": len(plans), "distinct_nontrivial": len({json.dumps([r["plan"], r["verify"], r["commits"], r.get("torn"), r["fn"]]) for r in plans}),
        "crashes_inside_a_commit": len(torn), "torn_images_by_meta_page": dict(collections.Counter(r["torn"]["meta"] for r in torn)),
        "rule": "one crash plan per commit boundary of the scripted life (the database file copied by the commit hook right after the commit; also the created-but-empty file), "
                "each executed with and without the integrity verification first; plus, for every commit, the images of the write-prefix model (file before the commit grown to its new size, "
                "the first 0 / 1 / half / all changed data pages written in ascending order, optionally half of the next page, meta page unwritten or half written); thorough: for every such image also every commit boundary of the restarted run (double crash); "
                "all plans are distinct and non-trivial: verification must return ok within the watchdog, the restart must succeed and the final state must equal the uncrashed one",
        "exhaustive": True, "scripts": nscripts, "blocks_per_script": nb, "crash_depth": depth,
        "plans_by_last_commit_before_the_crash": dict(per), "uncrashed_commit_sequence": un["commits"],
        "states": mc["distinct"], "transitions": mc["generated"],
        "mc": {"module": "Crash", "distinct": mc["distinct"], "generated": mc["generated"], "depth": mc["depth"], "cached": mc["cached"],
               "constants": "NBlocks=3 MaxCrashes=2", "liveness_checked": True},
        "samples": [{k: v for k, v in plans[len(plans) // 2].items() if k != "commits"}],
        "traces_validated_against_impl": nscripts, "checker_cmd": st["cmd"],
    })
    res.assumptions += ["bolt commits are atomic and durable (a crash inside a commit leaves the old or the new disk): torn page writes are not replayed",
                        "the hook fires after bolt's Update returned nil: the copy is the disk a crash right after that commit leaves",
                        "TLC, SANY and the CommunityModules Json reader are trusted"]
