"""Engine `txn` (C09, C11, C12, C13): transaction-level functions against specs/ledger/TxnRules.tla.
record -> validate: harness/txnrec calls the real functions (Transaction.Verify/VerifyUnsigned, DeserializeTransaction,
VerifySingleTxnSoftConstraints, transaction.Create, wallet.SignTransaction) on enumerated and seeded random cases; every
call is one record and TLC evaluates the contract (TxnRules) on it.  C09 additionally enumerates the complete decision
table of the small abstract feature domain; C11 adds the user-injection records of the pool engine."""
import collections
import json
import os

from lib import vlib
from lib.vlib import Infra

SPEC = os.path.join(vlib.SPECS, "ledger")
FAMILIES = {
    "C09": {"quick": [("verifyall", 1), ("verify", 400), ("decode", 1500)], "thorough": [("verifyall", 1), ("verify", 20000), ("decode", 60000)]},
    "C11": {"quick": [("soft", 2500)], "thorough": [("soft", 80000)]},
    "C12": {"quick": [("create", 3000)], "thorough": [("create", 100000)]},
    "C13": {"quick": [("sign", 700)], "thorough": [("sign", 12000)]},
    "C10": {"quick": [("malleate", (4, 5))], "thorough": [("malleate", (80, 10))]},
}


def brief(r):
    return {k: v for k, v in r.items() if k not in ("offered", "st")}


def run(res, prop, tier, seed, work, replay=None):
    res.level = "exploration"
    binary = vlib.build_harness(work, "txnrec", "txnrec")
    recs = os.path.join(work, "recs.ndjson")
    open(recs, "w").close()
    for fam, n in FAMILIES[prop][tier]:
        part = os.path.join(work, "part_%s.ndjson" % fam)
        if fam == "malleate":
            # third-party modifications offered to a real follower visor (overlay test in package visor)
            vbin = vlib.build_pkg_test(work, "src/visor", "visor")
            out = vlib.fresh_dir(os.path.join(work, "mall"))
            env = dict(os.environ, VERIF_OUT=out, VERIF_SEED=str(seed), VERIF_HISTORIES=str(n[0]), VERIF_BLOCKS=str(n[1]))
            p = vlib.run([vbin, "-test.run", "TestVerifMalleate$", "-test.count=1", "-test.timeout", "3000s"], env=env, timeout=3100, check=False)
            part = os.path.join(out, "malleate.ndjson")
            if p.returncode != 0 or not os.path.exists(part):
                raise Infra("malleation recorder failed:\n" + "\n".join(l for l in (p.stdout or "").splitlines() if "INFO" not in l and "DEBUG" not in l and "WARN" not in l)[-2000:])
        else:
            vlib.run([binary, part, str(seed), str(n), fam], timeout=3000)
        with open(recs, "a") as fh, open(part) as src:
            fh.write(src.read())
    st, mism = vlib.validate_records(SPEC, "TxnRecords", "TxnRecords.cfg", work, recs, chunk=20000, with_reason=True)
    for i, (r, parts) in enumerate(mism):
        sig = "txn:%s:%s" % (r["fn"], parts[1])
        rp = vlib.save_replay(work, "%s_%s_%d.json" % (prop, r["fn"], i), {"engine": "txn", "signature": sig, "seed": seed, "tier": tier, "record": r}) if i < 30 else ""
        res.mismatch(prop, sig, "real %s differs from TxnRules.tla (%s): %s" % (r["fn"], parts[1], json.dumps(brief(r))[:300]), rp)
    extra = {}
    if prop == "C11":
        # the soft/hard/user classification on the path that applies all rule sets in order: real user and foreign injections
        from engines import pool
        sub = vlib.Result("C11", tier, seed, "exploration")
        pool.run(sub, "C11", tier, seed, os.path.join(work, "pool"))
        for m in sub.mismatches:
            res.mismatch("C11", m["signature"], m["what"], m["replay"])
        extra = {"pool_records_checked_by_tlc": sub.coverage.get("pool_records_checked_by_tlc"),
                 "pool_records_by_event_and_result": sub.coverage.get("records_by_event_and_result")}
    seen = set()
    per = collections.Counter()
    samples = {}
    with open(recs) as fh:
        for line in fh:
            r = json.loads(line)
            key = json.dumps({k: v for k, v in r.items() if k not in ("err",)}, sort_keys=True)
            if key in seen:
                continue
            seen.add(key)
            outcome = r.get("res", "decoded" if r.get("decoded") else "undecodable")
            if r["fn"] == "malleate":
                outcome = "%s/%s/%s" % (r["object"], r["how"], "accepted" if r["accepted"] else "refused")
            elif r["fn"] == "produced":
                outcome = "recid%d" % r["recid"]
            per["%s/%s%s" % (r["fn"], outcome, ("/" + r["errkind"]) if r.get("errkind") else "")] += 1
            samples.setdefault("%s/%s" % (r["fn"], outcome), brief(r))
    res.coverage.update({
        "evaluations": st["records"], "distinct_nontrivial": len(seen),
        "rule": "one record per call of the real function; inputs are enumerated (C09 decision table: 0..2 inputs/outputs x every fault x signature "
                "forms) or drawn from seeded generators biased to the rule boundaries (fee = required-1/required/required+1, size = limit-1/limit/limit+1, "
                "exact-coin matches, duplicate/zero/null receivers, index patterns); distinct = distinct records; each is non-trivial: TLC computes the "
                "expected verdict and post-condition from the logged raw fields",
        "records_by_function_and_outcome": dict(per), "samples": list(samples.values())[:4],
        "traces_validated_against_impl": st["records"], "checker_cmd": st["cmd"], "tlc_record_states": st["tlc_states"],
        "exhaustive_part": "C09: all 4224 feature vectors x {Verify, VerifyUnsigned}" if prop == "C09" else "",
    })
    res.coverage.update(extra)
    res.assumptions += ["signature forms are what the recorder constructed (valid / null / high-s / recovery id >= 4 / zero r / zero s); curve arithmetic is C14",
                        "encoded size is measured with the reflection encoder", "TLC, SANY and the CommunityModules Json reader are trusted"]
