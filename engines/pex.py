"""Engine `pex` (C26): the peer list against specs/pex/Pex.tla.
MC (exhaustive, cached): MCPex - every interleaving of AddPeer, AddPeers, remove, trust, retry, ageing and clean-up on a small
universe: only valid addresses are keys, bulk additions never exceed Max, trusted peers leave only by explicit removal.
record -> validate: seeded operation sequences on a real pex.Pex (overlay test in package pex, peers.json in a scratch
directory, restarts included); every operation is one record and TLC evaluates Pex.tla's operators on it."""
import collections
import json
import os

from lib import vlib
from engines import gossip
from lib.vlib import Infra

SPEC = os.path.join(vlib.SPECS, "pex")
COUNT = {"quick": 120, "thorough": 6000}


def run(res, prop, tier, seed, work, replay=None):
    res.level = "model_checking"
    mc = vlib.model_check(SPEC, "MCPex", "MCPex.cfg", os.path.join(work, "mc"), timeout=900)
    binary = vlib.build_pkg_test(work, "src/daemon/pex", "pex")
    out = vlib.fresh_dir(os.path.join(work, "rec"))
    env = dict(os.environ, VERIF_OUT=out, VERIF_SEED=str(seed), VERIF_COUNT=str(COUNT[tier]))
    p = vlib.run([binary, "-test.run", "TestVerifPex$", "-test.count=1", "-test.timeout", "3000s"], env=env, timeout=3100, check=False)
    recs = os.path.join(out, "pex.ndjson")
    if p.returncode != 0 or not os.path.exists(recs):
        raise Infra("pex recorder failed:\n" + (p.stdout or "")[-2000:])
    st, mism = vlib.validate_records(SPEC, "PexRecords", "PexRecords.cfg", work, recs, chunk=20000, with_reason=True)
    notes = {}
    for i, (r, parts) in enumerate(mism):
        if parts[1] == "harness-ageing":
            raise Infra("the recorder's ageing step did not take effect: " + json.dumps(r)[:300])
        if parts[1] in ("bookkeeping-result", "bookkeeping-post-state", "resetall", "is-full", "all-trusted"):
            # not about which peers the list holds: no listed property owns these
            if parts[1] not in notes:
                print("NOTE: peer list bookkeeping (no listed property): %s at sequence %d step %d: %s(%s) -> %s" % (parts[1], r["seq"], r["step"], r["op"], json.dumps([a["raw"] for a in r["args"]]), r["res"]))
            notes[parts[1]] = notes.get(parts[1], 0) + 1
            continue
        sig = "pex:%s:%s" % (r["op"], parts[1])
        rp = vlib.save_replay(work, "C26_%d_%d.json" % (r["seq"], r["step"]), {"engine": "pex", "signature": sig, "seed": seed, "tier": tier, "record": r}) if i < 30 else ""
        res.mismatch("C26", sig, "sequence %d step %d: %s(%s) -> %s; Pex.tla disagrees: %s" % (r["seq"], r["step"], r["op"], json.dumps([a["raw"] for a in r["args"]]), r["res"], parts[1]), rp)
    gossip.run_peers(res, prop, tier, seed, work)      # the same rules, reached through GIVP / GETP on a real node
    all_recs = vlib.read_ndjson(recs)
    per = collections.Counter("%s/%s" % (r["op"], r["res"]) for r in all_recs)
    classes = collections.Counter("%s:%s" % (a["class"], a["port"]) for r in all_recs if r["op"] in ("add", "bulk") for a in r["args"])
    distinct = len({json.dumps([r["op"], r["args"], r["pre"], r["max"], r["allowLocal"]], sort_keys=True) for r in all_recs})
    s0 = next((r for r in all_recs if r["op"] == "add" and r["res"] == "full"), all_recs[0])
    res.coverage.update({
        "states": mc["distinct"], "transitions": mc["generated"],
        "mc": {"module": "MCPex", "distinct": mc["distinct"], "generated": mc["generated"], "depth": mc["depth"], "cached": mc["cached"],
               "constants": "Max=2 AllowLocal=TRUE, 4 valid + 4 invalid addresses, 3 ages", "complete_state_space": True},
        "traces_validated_against_impl": COUNT[tier], "evaluations": len(all_recs), "distinct_nontrivial": distinct,
        "rule": "one record per operation on the real Pex (30 operations per sequence; Max in {2,3,4,unbounded}, localhost allowed or not); address arguments are built "
                "from 21 IP forms x 14 port forms (+ missing port, extra part, embedded whitespace); distinct = distinct (operation, arguments, pre list, config)",
        "records_by_op_and_result": dict(per), "address_argument_classes": dict(classes.most_common(40)), "samples": [s0],
        "checker_cmd": st["cmd"], "tlc_record_states": st["tlc_states"],
    })
    res.assumptions += ["the class of an address argument is what the recorder built it from", "peers are aged by setting LastSeen (assigned ages are hours apart, 10 s steps)",
                        "a custom peers file given at start-up is operator configuration and outside the claim", "TLC, SANY and the CommunityModules Json reader are trusted"]
