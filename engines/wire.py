"""Engine `wire` (C22, C23): gnet receive path and outgoing message truncation against specs/wire.
MC (exhaustive, cached): MCFraming (every split of every small stream), MCTruncate (scan == definition).
record -> validate: the real decodeData/convertToMessage/sendMessage (gnet overlay test) and the real
message constructors (harness/truncrec) are called, TLC evaluates Framing.tla on every record."""
import collections
import json
import os

from lib import vlib
from lib.vlib import Infra

SPEC = os.path.join(vlib.SPECS, "wire")
COUNT = {"quick": 800, "thorough": 40000}
OWN = {"C22": ("decode", "stream", "convert", "fuzz", "conns"), "C23": ("trunc", "send")}


def short(r):
    out = {}
    for k, v in r.items():
        out[k] = (v[:40] + ["..."]) if isinstance(v, list) and len(v) > 40 else v
    return out


def run(res, prop, tier, seed, work, replay=None):
    res.level = "model_checking"
    count = COUNT[tier]
    recs = os.path.join(work, "recs.ndjson")
    if prop == "C22":
        mc = vlib.model_check(SPEC, "MCFraming", "MCFraming.cfg", os.path.join(work, "mc"), timeout=600)
        mcname, consts = "MCFraming", "MaxLen=6 MaxMsgs=3 three bodies, four bad tails, every read size"
    else:
        mc = vlib.model_check(SPEC, "MCTruncate", "MCTruncate.cfg", os.path.join(work, "mc"), timeout=600)
        mcname, consts = "MCTruncate", "MaxItems=5 Sizes={0,1,3} MaxLimit=20 Empty=4"
    gbin = vlib.build_pkg_test(work, "src/daemon/gnet", "gnet")
    out = vlib.fresh_dir(os.path.join(work, "gnet"))
    env = dict(os.environ, VERIF_OUT=out, VERIF_SEED=str(seed), VERIF_COUNT=str(count))
    p = vlib.run([gbin, "-test.run", "TestVerifWire$", "-test.count=1"], env=env, timeout=1200, check=False)
    wire = os.path.join(out, "wire.ndjson")
    if p.returncode != 0 or not os.path.exists(wire):
        raise Infra("wire recorder failed:\n" + (p.stdout or "")[-2000:])
    with open(recs, "w") as fh, open(wire) as src:
        for line in src:
            if json.loads(line)["fn"] in OWN[prop]:
                fh.write(line)
    if prop == "C23":
        tbin = vlib.build_harness(work, "truncrec", "truncrec")
        tr = os.path.join(work, "trunc.ndjson")
        vlib.run([tbin, tr, str(seed), str(count)], timeout=1200)
        with open(recs, "a") as fh, open(tr) as src:
            fh.write(src.read())
    st, mism = vlib.validate_records(SPEC, "WireRecords", "WireRecords.cfg", work, recs, chunk=20000)
    for i, r in enumerate(mism):
        sig = "wire:%s" % r["fn"] + (":" + r["kind"] if r["fn"] in ("trunc", "convert") else "")
        rp = vlib.save_replay(work, "%s_%s_%d.json" % (prop, r["fn"], i), {"engine": "wire", "signature": sig, "record": r}) if i < 20 else ""
        res.mismatch(prop, sig, "real behaviour differs from Framing.tla: %s" % json.dumps(short(r))[:300], rp)
    per = collections.Counter()
    seen = set()
    nontrivial = 0
    samples = []
    with open(recs) as fh:
        for line in fh:
            r = json.loads(line)
            per[r["fn"]] += 1
            if line in seen:
                continue
            seen.add(line)
            # non-trivial: something was delivered / cut / refused, i.e. not the empty case
            if r.get("out") or r.get("delivered") or r.get("err", "none") != "none" or r.get("res") in ("disconnect", "exceeds") \
                    or (r["fn"] == "trunc" and r["kept"] < len(r["sizes"])) or r.get("res") in ("message", "sent"):
                nontrivial += 1
                if len(samples) < 3 and (r.get("out") or r["fn"] == "trunc"):
                    samples.append(short(r))
    res.coverage.update({
        "states": mc["distinct"], "transitions": mc["generated"],
        "mc": {"module": mcname, "distinct": mc["distinct"], "generated": mc["generated"], "depth": mc["depth"],
               "cached": mc["cached"], "constants": consts, "complete_state_space": True},
        "traces_validated_against_impl": st["records"],
        "evaluations": st["records"], "distinct_nontrivial": nontrivial,
        "rule": "one record per call of the real code on seeded random inputs (streams of 0..4 frames cut at random read sizes, "
                "one in three ending in an invalid frame; limits placed at prefix boundaries +-1); distinct record lines that deliver, cut or refuse something",
        "records_by_kind": dict(per), "samples": samples or [short(json.loads(open(recs).readline()))],
        "checker_cmd": st["cmd"], "tlc_record_states": st["tlc_states"],
    })
    res.assumptions += ["the overlay's own message type stands for registered message types in convertToMessage (the daemon's message codecs are C21/C25)",
                        "TLC, SANY and the CommunityModules Json reader are trusted"]
