"""Shared part `kv` (not a listed property): the key-value storage manager (src/kvstorage) against specs/kv/KV.tla.
MC (exhaustive, cached): MCKV - load / unload / add / remove / restart (any subset of types, API on or off) over 3 type names,
2 keys, 2 values: a loaded storage always equals its file, a failing operation changes nothing, what was added is read back
across unload + load and restarts until removed.  record -> validate: harness/kvrec runs seeded operation sequences with
restarts on a real kvstorage.Manager; state before / after is what the manager answers and what the files hold; TLC (KVRecords)
evaluates KV.tla's operators on every record.  Mismatches are NOTE lines (no listed property owns them).
Called by the filesave engine (C20 owns the save path these operations end in)."""
import collections
import json
import os

from lib import vlib
from lib.vlib import Infra

SPEC = os.path.join(vlib.SPECS, "kv")
SEQS = {"quick": 40, "thorough": 3000}


def run(res, prop, tier, seed, work):
    mc = vlib.model_check(SPEC, "MCKV", "MCKV.cfg", os.path.join(work, "mc-kv"), timeout=900)
    binary = vlib.build_harness(work, "kvrec", "kvrec")
    recs = os.path.join(work, "kv.ndjson")
    p = vlib.run([binary, recs, str(seed), str(SEQS[tier])], timeout=3000, check=False)
    if p.returncode != 0 or not os.path.exists(recs):
        raise Infra("kv recorder failed:\n" + (p.stdout or "")[-2000:])
    kwork = os.path.join(work, "kv")
    os.makedirs(kwork, exist_ok=True)
    st, mism = vlib.validate_records(SPEC, "KVRecords", "KVRecords.cfg", kwork, recs, chunk=20000, with_reason=True)
    notes = collections.Counter()
    for r, parts in mism:
        sig = "kv:%s" % parts[1]
        notes[sig] += 1
        if notes[sig] == 1:
            print("NOTE: key-value storage (no listed property): %s: %s" % (sig, json.dumps({k: r[k] for k in ("op", "t", "k", "v", "res", "pre", "post")})[:400]))
    all_recs = vlib.read_ndjson(recs)
    res.coverage["kvstorage"] = {
        "mc": {"module": "MCKV", "distinct": mc["distinct"], "generated": mc["generated"], "cached": mc["cached"],
               "constants": "types txid/client/bogus, 2 keys, 2 values, restarts with any enabled subset"},
        "operations_on_a_real_manager": len(all_recs), "sequences": SEQS[tier],
        "by_operation_and_result": dict(collections.Counter("%s/%s" % (r["op"], r["res"]) for r in all_recs)),
        "notes_no_listed_property": dict(notes), "checker_cmd": st["cmd"],
    }
