"""Engine `apigate` (C27): HTTP API access control against specs/api/ApiGate.tla.
The documented route table (ApiRoutes.tla, generated once from src/api/README.md) and the documented checks are the
specification; the real server mux (api.create, overlay test in package api, stub gateway that reveals when an endpoint's
logic runs) is asked every documented route x method under seeded configurations (enabled API sets, CSRF and header
checks on/off, credentials) and header classes (auth, Host, Origin, Referer, CSRF token, content type); TLC evaluates
the verdict (401 / 415 / 403 host / 403 origin / 403 csrf / 405 / 403 disabled / pass) for every record."""
import collections
import json
import os
import re

from lib import vlib
from lib.vlib import Infra

SPEC = os.path.join(vlib.SPECS, "api")
COUNT = {"quick": 120, "thorough": 4000}   # configurations; 60 requests each


def run(res, prop, tier, seed, work, replay=None):
    res.level = "exploration"
    routes = re.findall(r'uri \|-> "([^"]+)"', open(os.path.join(SPEC, "ApiRoutes.tla")).read())
    rp_ = os.path.join(work, "routes.json")
    with open(rp_, "w") as fh:
        json.dump(routes, fh)
    binary = vlib.build_pkg_test(work, "src/api", "api")
    out = vlib.fresh_dir(os.path.join(work, "rec"))
    env = dict(os.environ, VERIF_OUT=out, VERIF_SEED=str(seed), VERIF_COUNT=str(COUNT[tier]), VERIF_ROUTES=rp_)
    p = vlib.run([binary, "-test.run", "TestVerifGate$", "-test.count=1", "-test.timeout", "3000s"], env=env, timeout=3100, check=False)
    recs = os.path.join(out, "gate.ndjson")
    if p.returncode != 0 or not os.path.exists(recs):
        raise Infra("api gate recorder failed:\n" + "\n".join(l for l in (p.stdout or "").splitlines() if "[api]" not in l)[-2000:])
    st, mism = vlib.validate_records(SPEC, "ApiRecords", "ApiRecords.cfg", work, recs, chunk=20000, with_reason=True)
    for i, (r, parts) in enumerate(mism):
        sig = "apigate:%s" % parts[1]
        rp = vlib.save_replay(work, "C27_%d.json" % i, {"engine": "apigate", "signature": sig, "seed": seed, "tier": tier, "record": r}) if i < 30 else ""
        res.mismatch("C27", sig, "%s %s (auth=%s host=%s origin=%s referer=%s token=%s ctype=%s cfg=%s) -> %d %s; ApiGate.tla: %s"
                     % (r["method"], r["uri"], r["auth"], r["host"], r["origin"], r["referer"], r["token"], r["ctype"], json.dumps(r["cfg"]), r["status"], r["gate"], parts[1]), rp)
    all_recs = vlib.read_ndjson(recs)
    if not any(r["reached"] or (r["status"] in (200, 400, 404) and not r["gate"]) for r in all_recs):
        raise Infra("no request ever reached an endpoint: the recorder is not observing the server")
    per = collections.Counter()
    for r in all_recs:
        per["reached" if r["reached"] else "%d%s" % (r["status"], ("-" + r["gate"]) if r["gate"] else "")] += 1
    distinct = len({json.dumps({k: v for k, v in r.items() if k not in ("body", "status", "gate", "reached")}, sort_keys=True) for r in all_recs})
    s0 = next((r for r in all_recs if r["gate"] == "csrf"), all_recs[0])
    res.coverage.update({
        "evaluations": len(all_recs), "distinct_nontrivial": distinct,
        "rule": "one record per HTTP request served by the real mux; route and method drawn over the %d documented routes x {GET, POST, PUT, DELETE}, configuration over "
                "enabled API sets x CSRF on/off x header check on/off x credentials, each header class 3:1 valid:invalid; distinct = distinct requests (route, method, "
                "configuration, classes)" % len(routes),
        "documented_routes": len(routes), "configurations": COUNT[tier], "outcomes": dict(per), "samples": [{k: v for k, v in s0.items() if k != "body"}],
        "traces_validated_against_impl": len(all_recs), "checker_cmd": st["cmd"], "tlc_record_states": st["tlc_states"],
    })
    res.assumptions += ["the route table is the README's (frozen in ApiRoutes.tla); undocumented routes are not exercised",
                        "the stub gateway reveals that an endpoint's logic ran; CORS pre-flight (OPTIONS) is not exercised",
                        "TLC, SANY and the CommunityModules Json reader are trusted"]
