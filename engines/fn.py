"""Engine `fn` (C29, C31): pure helpers against specs/fn/Fn.tla.
record -> validate: the real Go functions are called on boundary-biased and random arguments, every
call is one record, and TLC evaluates the mathematical definition (exact naturals, BigNat) on each.
C29 additionally model-checks the paging definitions (pages partition the list) exhaustively."""
import collections
import json
import os

from lib import vlib
from lib.vlib import Infra

SPEC = os.path.join(vlib.SPECS, "fn")
COUNT = {"C31": {"quick": 6000, "thorough": 1000000}, "C29": {"quick": 4000, "thorough": 200000}}
CHUNK = 40000


def N(l):
    return sum(v * 10000 ** i for i, v in enumerate(l))


def human(r):
    return {k: (str(N(v)) if isinstance(v, list) and k != "items" else v) for k, v in r.items()}


def run(res, prop, tier, seed, work, replay=None):
    count = COUNT[prop][tier]
    recs = os.path.join(work, "recs.ndjson")
    mc = None
    # --replay: the recorders are deterministic in the seed, so a replay is a re-run of the quick tier
    replay = None
    binary = vlib.build_harness(work, "fnrec", "fnrec")
    if prop == "C31":
        res.level = "exploration"
        if not replay:
            vlib.run([binary, recs, str(seed), str(count // 10), "arith"], timeout=900)
    else:
        res.level = "model_checking"
        mc = vlib.model_check(SPEC, "MCPaging", "MCPaging.cfg", os.path.join(work, "mc"), timeout=600)
        if not replay:
            vlib.run([binary, recs, str(seed), str(count // 2), "paging"], timeout=900)
            vbin = vlib.build_pkg_test(work, "src/visor", "visor")
            out = vlib.fresh_dir(os.path.join(work, "pag"))
            env = dict(os.environ, VERIF_OUT=out, VERIF_SEED=str(seed), VERIF_COUNT=str(count // 2))
            p = vlib.run([vbin, "-test.run", "TestVerifPaginate$", "-test.count=1"], env=env, timeout=900, check=False)
            pag = os.path.join(out, "paginate.ndjson")
            if p.returncode != 0 or not os.path.exists(pag):
                raise Infra("paginate recorder failed:\n" + (p.stdout or "")[-2000:])
            with open(recs, "a") as fh, open(pag) as src:
                fh.write(src.read())
    st, mism = vlib.validate_records(SPEC, "FnRecords", "FnRecords.cfg", work, recs)
    sample = vlib.read_ndjson(recs, limit=2000)
    per_fn = collections.Counter(r["fn"] for r in sample)
    for i, r in enumerate(mism):
        sig = "fn:%s" % r["fn"]
        if r.get("panic"):
            sig += ":panic"
        rp_path = vlib.save_replay(work, "%s_%s_%d.json" % (prop, r["fn"], i), {"engine": "fn", "signature": sig, "record": r, "readable": human(r)}) if i < 20 else ""
        res.mismatch(prop, sig, "real result differs from the definition in Fn.tla: %s" % json.dumps(human(r))[:260], rp_path)
    # distinct records are counted over the whole file
    seen = set()
    nontrivial = 0
    with open(recs) as fh:
        for line in fh:
            if line in seen:
                continue
            seen.add(line)
            r = json.loads(line)
            # non-trivial: an error/boundary outcome or a multi-limb (> 10^8) argument
            if r.get("err") or any(isinstance(v, list) and len(v) > 2 for k, v in r.items() if k != "items") or r.get("items"):
                nontrivial += 1
    cov = {
        "evaluations": st["records"], "distinct_nontrivial": nontrivial,
        "rule": "one record per call of the real function; arguments drawn (seeded) from boundary classes (0..3, 2^k-1..2^k+1, "
                "MaxUint64-3.., products/sums placed at the 2^64 boundary, wrap-around page numbers) and uniformly random; "
                "distinct = distinct record lines, non-trivial = error outcome, non-empty page, or an argument above 10^8",
        "samples": [human(r) for r in sample[:3]] + [human(r) for r in sample if r.get("err")][:2],
        "traces_validated_against_impl": st["records"],
        "records_by_function_first_2000": dict(per_fn),
        "checker_cmd": st["cmd"], "tlc_record_states": st["tlc_states"], "chunks": st["chunks"],
    }
    if prop == "C29":
        # the same statement on a real node: pages 1..N+2 of every kind of GetTransactions query (recorded with the view records)
        from engines import views
        sub = vlib.Result("C29", tier, seed, "model_checking")
        views.run(sub, "C29", tier, seed, os.path.join(work, "views"))
        for m in sub.mismatches:
            res.mismatch("C29", m["signature"], m["what"], m["replay"])
        cov["real_node_pages_checked"] = sub.coverage.get("pages_checked")
        cov["real_node_view_records"] = sub.coverage.get("view_records")
    if mc:
        cov.update({"states": mc["distinct"], "transitions": mc["generated"],
                    "mc": {"module": "MCPaging", "distinct": mc["distinct"], "generated": mc["generated"], "depth": mc["depth"],
                           "cached": mc["cached"], "constants": "MaxN=25 MaxSize=7", "complete_state_space": True}})
    res.coverage.update(cov)
    res.assumptions += ["BigNat.tla (checked against TLC's native integers by MCBigNat) is the definition of exact arithmetic",
                        "TLC, SANY and the CommunityModules Json reader are trusted"]
