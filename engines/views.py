"""Engine `views` (C07, and the real-node part of C29): derived indexes and query views of a real visor
against specs/ledger/ViewRecords.tla.
record -> validate: the pool histories (engines/pool.py recorder) take a view record at chosen points (head still
genesis with a pending transaction; pending pool; right after a block, before the pool is pruned; end of round;
after the address index or the history was dropped in the database file and rebuilt at a restart).  TLC derives every
view from the chain as read back block by block, the unspent projection and the pool, and compares."""
import collections
import json
import os

from lib import vlib
from lib.vlib import Infra

SPEC = os.path.join(vlib.SPECS, "ledger")
SIZE = {"quick": (8, 5), "thorough": (120, 9)}


def record(work, tier, seed):
    vbin = vlib.build_pkg_test(work, "src/visor", "visor")
    nh, nb = SIZE[tier]
    out = vlib.fresh_dir(os.path.join(work, "rec"))
    env = dict(os.environ, VERIF_OUT=out, VERIF_SEED=str(seed), VERIF_HISTORIES=str(nh), VERIF_BLOCKS=str(nb))
    p = vlib.run([vbin, "-test.run", "TestVerifPool$", "-test.count=1", "-test.timeout", "3000s"], env=env, timeout=3100, check=False)
    views = os.path.join(out, "views.ndjson")
    if p.returncode != 0 or not os.path.exists(views):
        raise Infra("views recorder failed:\n" + "\n".join(l for l in (p.stdout or "").splitlines() if "INFO" not in l and "DEBUG" not in l and "WARN" not in l)[-2000:])
    return views, nh


def run(res, prop, tier, seed, work, replay=None, only=None):
    res.level = "exploration"
    views, nh = record(work, tier, seed)
    st, mism = vlib.validate_records(SPEC, "ViewRecords", "ViewRecords.cfg", work, views, chunk=300, data_name="views.ndjson", with_reason=True)
    notes = collections.Counter()
    for i, (r, parts) in enumerate(mism):
        owner, _, what = parts[1].partition(":")
        sig = "views:%s" % what
        if owner == "X":          # a view no listed property owns: a NOTE, once per kind
            notes[what] += 1
            if notes[what] == 1:
                print("NOTE: view (no listed property): %s at history %d step %d node %s phase %s" % (what, r["hist"], r["step"], r["node"], r["phase"]))
            continue
        rp = vlib.save_replay(work, "%s_h%d_s%d.json" % (owner, r["hist"], r["step"]),
                              {"engine": "views", "signature": sig, "seed": seed, "tier": tier, "phase": r["phase"], "errText": r.get("errText", []),
                               "record": {k: v for k, v in r.items() if k not in ("chain",)}}) if owner == prop and i < 40 else ""
        res.mismatch(owner, sig, "history %d step %d node %s phase %s: view differs from what chain+pool imply: %s %s"
                     % (r["hist"], r["step"], r["node"], r["phase"], what, "; ".join(r.get("errText", []))[:160]), rp)
    recs = vlib.read_ndjson(views)
    phases = collections.Counter(r["phase"] for r in recs)
    nq = sum(len(r["uxouts"]) + len(r["balances"]) + len(r["unspentsOf"]) + len(r["paged"]) + 8 for r in recs)
    npages = sum(len(pg["pages"]) for r in recs for pg in r["paged"])
    distinct = len({json.dumps([r["st"]["headHash"], r["st"]["pool"], r["addrs"], r["phase"], r["node"]]) for r in recs})
    s0 = next((r for r in recs if r["phase"] == "pending" and r["pool"]), recs[0])
    res.coverage.update({
        "evaluations": nq, "distinct_nontrivial": distinct,
        "rule": "one view record per observation point of a real node; a record holds every query answer (unspents of addresses, address count, checksum, "
                "spent-by of every output ever created, address/confirmed/pending/all transaction lists, confirmed and predicted balances, last blocks, "
                "block range, pages 1..N+2 of five query kinds in both orders, plain and verbose; blocks by sequence list / since / verbose range / verbose last, head block, single-transaction status plain and with resolved inputs; and - as NOTE-level views no listed property owns - metadata counts, pool listings, outputs summary, rich list); evaluations = individual query answers compared by TLC; "
                "distinct = distinct (head, pool, queried addresses, phase, node)",
        "notes_no_listed_property": dict(notes),
        "further_views": {"status_queries": sum(len(r["more"]["status"]) for r in recs), "verbose_blocks": sum(len(r["more"]["vRange"]) + len(r["more"]["vLast"]) for r in recs),
                          "outputs_summaries_answered": sum(1 for r in recs if r["more"]["sumOK"]), "outputs_summaries_refused": sum(1 for r in recs if not r["more"]["sumOK"]),
                          "rich_lists": sum(1 for r in recs if r["more"]["richOK"])},
        "view_records": len(recs), "records_by_phase": dict(phases), "pages_checked": npages,
        "traces_validated_against_impl": nh,
        "samples": [{"phase": s0["phase"], "node": s0["node"], "head": s0["st"]["headSeq"], "pool": [t["hash"][:8] for t in s0["pool"]],
                     "addrs": s0["addrs"], "txAddr": [h[:8] for h in s0["txAddr"]], "balances": s0["balances"][:2],
                     "paged": [{k: (v if k not in ("unpaged", "pages") else len(v)) for k, v in pg.items()} for pg in s0["paged"][:2]]}],
        "checker_cmd": st["cmd"], "tlc_record_states": st["tlc_states"],
    })
    res.assumptions += ["the chain used for the derivation is what GetSignedBlockBySeq returns block by block (the ledger engine relates it to the offered blocks)",
                        "the checksum is recomputed by the recorder with crypto/sha256 over its own fixed 85-byte layout",
                        "TLC, SANY and the CommunityModules Json reader are trusted"]
