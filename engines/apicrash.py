"""Engine `apicrash` (C28): no HTTP request crashes or hangs the node.
harness/apirec composes a REAL node in its process (wallet service, visor on a bolt file with a chain and a pending pool - or
still at the genesis block -, daemon with networking disabled, key-value storage, api.NewGateway, api.Create on 127.0.0.1) and
sends it requests over TCP: documented routes x methods x parameters drawn from the node's state and from hostile values, as
query, form or JSON.  One record per request; TLC (HttpRecords.tla) checks: a complete response with a documented status - no
dropped connection (a recovered handler panic), no hang.  A death of the whole process is attributed to the last request."""
import collections
import json
import os
import re

from lib import vlib
from lib.vlib import Infra

SPEC = os.path.join(vlib.SPECS, "api")
COUNT = {"quick": (3, 1200), "thorough": (30, 8000)}   # nodes (seeds), requests per node


def run(res, prop, tier, seed, work, replay=None):
    res.level = "exploration"
    txt = open(os.path.join(SPEC, "ApiRoutes.tla")).read()
    routes = [{"uri": u, "methods": re.findall(r'"([A-Z]+)"', m)} for u, m in re.findall(r'uri \|-> "([^"]+)", version \|-> \d, methods \|-> \{([^}]*)\}', txt)]
    rp_ = os.path.join(work, "routes.json")
    with open(rp_, "w") as fh:
        json.dump(routes, fh)
    binary = vlib.build_harness(work, "apirec", "apirec")
    nodes, per_node = COUNT[tier]
    recs = os.path.join(work, "recs.ndjson")
    open(recs, "w").close()
    for i in range(nodes):
        part = os.path.join(work, "part%d.ndjson" % i)
        p = vlib.run([binary, part, str(seed * 3 + i), str(per_node), rp_], timeout=3000, check=False)   # consecutive seeds: one of three nodes is still at genesis
        out = p.stdout or ""
        if p.returncode != 0:
            if p.returncode == 2 and ("panic:" in out or "fatal error:" in out) and "github.com/skycoin/skycoin/src/" in out:
                sent = [l for l in out.splitlines() if l.startswith("SENDING ")]
                last = sent[-1][8:] if sent else "?"
                trace = "\n".join(l for l in out.splitlines() if "panic" in l or "skycoin/src/" in l)[:1500]
                rp = vlib.save_replay(work, "C28_crash_%d.json" % i, {"engine": "apicrash", "signature": "apicrash:node-died", "last_request": last, "panic": trace})
                res.mismatch("C28", "apicrash:node-died", "the node process died while serving: %s | %s" % (last[:200], trace[:300].replace("\n", " | ")), rp)
            else:
                raise Infra("apirec failed (%d):\n%s" % (p.returncode, out[-1500:]))
        if os.path.exists(part):
            with open(recs, "a") as fh:
                fh.write(open(part).read())
    st, mism = vlib.validate_records(SPEC, "HttpRecords", "HttpRecords.cfg", work, recs, chunk=20000, with_reason=True)
    for i, (r, parts) in enumerate(mism):
        sig = "apicrash:%s" % parts[1]
        rp = vlib.save_replay(work, "C28_%d.json" % i, {"engine": "apicrash", "signature": sig, "seed": seed, "tier": tier, "record": r}) if i < 30 else ""
        res.mismatch("C28", sig, "%s %s %s -> status %s dropped=%s timeout=%s %s" % (r["method"], r["uri"], r["params"][:160], r["status"], r["dropped"], r["timeout"], r["err"][:80]), rp)
    all_recs = vlib.read_ndjson(recs)
    per = collections.Counter(str(r["status"]) if r["complete"] else ("dropped" if r["dropped"] else "timeout") for r in all_recs)
    byroute = collections.Counter(r["uri"] for r in all_recs)
    distinct = len({(r["method"], r["uri"], r["params"], r["form"], r["atGenesis"]) for r in all_recs})
    s0 = next((r for r in all_recs if r["status"] == 422), all_recs[0])
    res.coverage.update({
        "evaluations": len(all_recs), "distinct_nontrivial": distinct,
        "rule": "one record per HTTP request over TCP to a real in-process node; route uniform over the documented ones, method mostly a documented one, parameters = the endpoint's "
                "documented ones plus random extras, each value from the node's state (addresses, transaction / output / block ids: confirmed, pending, spent, unknown; wallet ids; "
                "encoded transactions spending unspent / spent / unknown outputs, unsigned) or hostile (empty, huge, negative, non-numeric, wrong JSON type, cut JSON); distinct requests",
        "nodes": nodes, "statuses": dict(per), "routes_hit": len(byroute), "samples": [s0], "traces_validated_against_impl": nodes,
        "checker_cmd": st["cmd"], "tlc_record_states": st["tlc_states"],
    })
    res.assumptions += ["CSRF and header checks are off and all API sets on for this engine (C27 decides the gate)", "net/http turns a handler panic into a closed connection: observed as 'dropped'",
                        "counts of addresses to scan/derive are capped at 1000 in the random part and probed separately with 2^63-1", "TLC, SANY and the CommunityModules Json reader are trusted"]
