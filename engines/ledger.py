"""Engine `ledger` (C01, C02, C04): a real follower visor against specs/ledger/Ledger.tla.
MC (exhaustive, cached): MCLedger - every offered block (valid or flawed) in every reachable state of a small universe.
record -> validate: seeded random histories; a real publisher visor builds blocks, the follower is offered
mutants of each block and then the block; TLC evaluates Valid/Apply on every edge {pre, blk, res, post}."""
import collections
import json
import os

from lib import vlib
from lib.vlib import Infra

SPEC = os.path.join(vlib.SPECS, "ledger")
SIZE = {"quick": (6, 8), "thorough": (400, 16)}   # histories, valid blocks per history

COIN_MUTS = {"coins-created", "coins-destroyed", "zero-coin-output", "legacy-overflow-input-coins-destroyed"}
SPEND_MUTS = {"double-spend-in-block", "replayed-spend", "unknown-input", "dup-input"}
HOURS_MUTS = {"hours-created", "hours-plus-one", "hours-wrap", "legacy-overflow-input-hours-1", "spend-of-an-input-whose-coin-seconds-overflow"}


def owner(mut, reason):
    """Which property a mismatching edge violates."""
    if reason == "supply":
        return "C01"
    if reason in ("unspent", "duplicate-ids"):
        return "C02"
    if mut.startswith("arb-"):
        mut = mut[4:]
    if reason == "invalid-accepted":
        if mut in COIN_MUTS:
            return "C01"
        if mut in SPEND_MUTS:
            return "C02"
        if mut in HOURS_MUTS:
            return "C03"
        return "C04"
    if reason == "valid-rejected":
        return "C05" if mut in ("created", "created-pub") else None
    if reason == "pool":
        return "C06"
    return "C04"   # stored, head-or-pool, history, rejected-but-changed, length


def validate_edges(work, es, chunk=1500):
    """TLC (LedgerEdges) over a list of edge records; returns ([(index, mut, reason)], states, cmd)."""
    mism = []
    states = 0
    cmd = ""
    for ci, off in enumerate(range(0, len(es), chunk)):
        part = os.path.join(work, "edges_%03d.ndjson" % ci)
        with open(part, "w") as fh:
            for e in es[off:off + chunk]:
                fh.write(json.dumps(e) + "\n")
        r = vlib.run_tlc(SPEC, "LedgerEdges", "LedgerEdges.cfg", os.path.join(work, "tlc_%03d" % ci), files={"edges.ndjson": part},
                         timeout=1500, heap="6g")
        if r["violated"] or r["distinct"] != len(es[off:off + chunk]):
            raise Infra("edge oracle failed or skipped edges: " + r["tail"][-1500:])
        states += r["distinct"]
        cmd = r["cmd"]
        for m in r["mismatches"]:
            parts = [x.strip().strip('"') for x in m.strip("<>").split(",")]
            mism.append((off + int(parts[2]) - 1, parts[3], parts[4]))
    return mism, states, cmd


def run(res, prop, tier, seed, work, replay=None):
    res.level = "model_checking"
    mc = vlib.model_check(SPEC, "MCLedger", "MCLedger.cfg", os.path.join(work, "mc"), timeout=900)
    vbin = vlib.build_pkg_test(work, "src/visor", "visor")
    nh, nb = SIZE[tier]
    out = vlib.fresh_dir(os.path.join(work, "rec"))
    env = dict(os.environ, VERIF_OUT=out, VERIF_SEED=str(seed), VERIF_HISTORIES=str(nh), VERIF_BLOCKS=str(nb))
    p = vlib.run([vbin, "-test.run", "TestVerifLedger$", "-test.count=1", "-test.timeout", "3000s"], env=env, timeout=3100, check=False)
    edges = os.path.join(out, "edges.ndjson")
    if p.returncode != 0 or not os.path.exists(edges):
        raise Infra("ledger recorder failed:\n" + "\n".join(l for l in (p.stdout or "").splitlines() if "INFO" not in l and "DEBUG" not in l)[-2000:])
    es = vlib.read_ndjson(edges)
    if not es:
        raise Infra("no edges recorded")
    # second source of edges: the pool histories (blocks made by a real arbitrating publisher from its pool, offered to it and to
    # the follower, each preceded by the same block carrying one more, invalid, transaction)
    out2 = vlib.fresh_dir(os.path.join(work, "rec2"))
    env2 = dict(os.environ, VERIF_OUT=out2, VERIF_SEED=str(seed), VERIF_HISTORIES=str(max(4, nh // 3)), VERIF_BLOCKS=str(max(5, nb // 2)))
    p2 = vlib.run([vbin, "-test.run", "TestVerifPool$", "-test.count=1", "-test.timeout", "3000s"], env=env2, timeout=3100, check=False)
    if p2.returncode != 0:
        raise Infra("pool recorder failed:\n" + "\n".join(l for l in (p2.stdout or "").splitlines() if "INFO" not in l and "DEBUG" not in l and "WARN" not in l)[-2000:])
    for e in vlib.read_ndjson(os.path.join(out2, "edges.ndjson")):
        e["hist"] += 100000
        es.append(e)
    mism, states, cmd = validate_edges(work, es)
    # the pool operations of the same histories: PoolRecords.tla owns clauses of these properties too (a transaction admitted
    # to the pool although the coin-hour rule alone forbids it is C03's)
    pool_file = os.path.join(out2, "pool.ndjson")
    pwork = os.path.join(work, "poolrecs")
    os.makedirs(pwork, exist_ok=True)
    pst, pmism = vlib.validate_records(SPEC, "PoolRecords", "PoolRecords.cfg", pwork, pool_file, chunk=1500, data_name="pool.ndjson", with_reason=True)
    for i, (r, parts) in enumerate(pmism):
        for clause in parts[1].split("+"):
            who, _, what = clause.partition(":")
            sig = "pool:%s:%s" % (r["ev"], what)
            rp = vlib.save_replay(work, "%s_pool_h%d_s%d.json" % (who, r["hist"], r["step"]),
                                  {"engine": "ledger", "signature": sig, "seed": seed, "tier": tier, "record": r}) if who == prop and i < 40 else ""
            res.mismatch(who, sig, "pool history %d step %d node %s: %s %s -> real result %s %s; TxPool.tla disagrees on: %s"
                         % (r["hist"], r["step"], r["node"], r["ev"], r.get("kind", ""), r["res"], r.get("err", "")[:80], what), rp)
    dead = 0
    for idx, mut, reason in mism:
        e = es[idx]
        who = owner(mut, reason)
        if who is None:
            dead += 1
            continue
        sig = "ledger:%s:%s" % (reason, mut)
        rp = vlib.save_replay(work, "%s_h%d_s%d.json" % (who, e["hist"], e["step"]),
                              {"engine": "ledger", "signature": sig, "seed": seed, "tier": tier, "edge": e}) if who == prop else ""
        res.mismatch(who, sig, "history %d step %d: block mutation '%s' was %s by the real node (%s); Ledger.tla says: %s"
                     % (e["hist"], e["step"], mut, e["res"], e.get("err", "")[:80], reason), rp)
    if dead and not res.mismatches:
        raise Infra("%d valid publisher block(s) were rejected by the follower: the histories cannot be driven (not a verdict on %s)" % (dead, prop))
    if dead:
        print("NOTE: %d valid publisher block(s) were rejected by the node (no clause of %s; the history ends there)" % (dead, prop))
    kinds = collections.Counter("%s/%s" % (e["mut"], e["res"]) for e in es)
    accepted = sum(1 for e in es if e["res"] == "accepted")
    distinct = len({json.dumps([e["pre"]["headHash"], e["blk"]], sort_keys=True) for e in es})
    s0 = es[min(3, len(es) - 1)]
    res.coverage.update({
        "states": mc["distinct"], "transitions": mc["generated"],
        "mc": {"module": "MCLedger", "distinct": mc["distinct"], "generated": mc["generated"], "depth": mc["depth"], "cached": mc["cached"],
               "constants": "MaxBlocks=3 Volume=3", "complete_state_space": True},
        "traces_validated_against_impl": nh, "edges_checked_by_tlc": len(es), "tlc_edge_states": states,
        "evaluations": len(es), "distinct_nontrivial": distinct,
        "rule": "one edge per block offered to the real follower; distinct = distinct (head, block) pairs; every edge is non-trivial "
                "(a valid block that must be applied exactly, or a flawed one that must change nothing)",
        "blocks_accepted": accepted, "edges_by_mutation_and_verdict": dict(kinds),
        "samples": [{"mut": s0["mut"], "res": s0["res"], "err": s0.get("err", ""), "blk": {k: v for k, v in s0["blk"].items() if k != "txns"},
                     "txns": s0["blk"]["txns"][:1], "pre_unspent": len(s0["pre"]["unspent"]), "post_unspent": len(s0["post"]["unspent"])}],
        "checker_cmd": cmd,
    })
    res.assumptions += ["sigOK/bodyOK/sigsOK describe what the harness did to the block by construction (signed with the publisher key over this "
                        "header; body hash recomputed; inputs signed by their owners) - signature arithmetic itself is C14/C10",
                        "coin-hour overflow (the legacy exception of C03) does not occur in the explored histories",
                        "the node is a non-arbitrating follower; blocks come from a real publisher visor",
                        "TLC, SANY and the CommunityModules Json reader are trusted"]
