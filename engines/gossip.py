"""Shared part `gossip` (not a property of its own): the transaction gossip sub-protocol (ANNT / GETT / GIVT) of a real node
behind a TCP socket against specs/sync/Gossip.tla.  MC (exhaustive, cached): MCGossip - two nodes over reliable FIFO channels,
users submitting valid / soft-invalid / hard-invalid transactions at either node: no hard-invalid transaction is ever pooled,
pools hold only what users submitted, and the network falls silent with both pools equal to the submitted non-hard transactions
(liveness).  record -> validate: harness/syncrec (mode gossip) sends seeded ANNT / GETT / GIVT messages built from valid,
conflicting, fee-less, foreign-signed, unknown-input and already-confirmed transactions to the real node, with a PING/PONG
barrier after each; TLC (GossipRecords) evaluates Gossip.tla's Handle on every record.
Ownership: a hard-invalid transaction entering the pool is C06's; the protocol clauses (replies, pool after a message) belong to
no listed property and are reported as NOTE lines and counted in the evidence, never as a violation of a listed property.
Called by the pool engine (C06) and by the sync engine (coverage)."""
import collections
import json
import os

from lib import vlib
from lib.vlib import Infra

SPEC = os.path.join(vlib.SPECS, "sync")
RUNS = {"quick": 6, "thorough": 300}


def run(res, prop, tier, seed, work):
    mc = vlib.model_check(SPEC, "MCGossip", "MCGossip.cfg", os.path.join(work, "mc-gossip"), timeout=900)
    binary = vlib.build_harness(work, "syncrec", "syncrec")
    recs = os.path.join(work, "gossip.ndjson")
    p = vlib.run([binary, recs, str(seed), str(RUNS[tier]), "gossip"], timeout=3000, check=False)
    if p.returncode != 0 or not os.path.exists(recs):
        raise Infra("gossip recorder failed:\n" + (p.stdout or "")[-2000:])
    gwork = os.path.join(work, "gossip")
    os.makedirs(gwork, exist_ok=True)
    st, mism = vlib.validate_records(SPEC, "GossipRecords", "GossipRecords.cfg", gwork, recs, chunk=20000, with_reason=True)
    notes = collections.Counter()
    for i, (r, parts) in enumerate(mism):
        owner, _, what = parts[1].partition(":")
        sig = "gossip:%s:%s" % (r["msg"], what)
        if owner == "X":
            notes[sig] += 1
            if notes[sig] == 1:
                print("NOTE: gossip protocol (no listed property): %s: %s" % (sig, json.dumps({k: r[k] for k in ("msg", "items", "sent")})[:300]))
            continue
        rp = vlib.save_replay(work, "%s_gossip_%d.json" % (owner, i), {"engine": "gossip", "signature": sig, "seed": seed, "tier": tier, "record": r}) if owner == prop and i < 20 else ""
        res.mismatch(owner, sig, "a real node over TCP, run %d step %d: %s of %s -> pool %s" % (r["run"], r["step"], r["msg"], json.dumps(r["items"])[:200], json.dumps(r["post"])[:200]), rp)
    all_recs = vlib.read_ndjson(recs)
    res.coverage["gossip"] = {
        "mc": {"module": "MCGossip", "distinct": mc["distinct"], "generated": mc["generated"], "cached": mc["cached"], "liveness_checked": True,
               "constants": "2 nodes, 4 transactions (2 valid, 1 soft, 1 hard), FIFO channels"},
        "messages_to_a_real_node": len(all_recs), "runs": RUNS[tier],
        "by_message_and_replies": dict(collections.Counter("%s->%s" % (r["msg"], "+".join(s["id"] for s in r["sent"]) or "-") for r in all_recs)),
        "item_kinds": dict(collections.Counter(it["kind"] for r in all_recs for it in r["items"])),
        "protocol_notes_no_listed_property": dict(notes), "checker_cmd": st["cmd"],
    }


PEER_RUNS = {"quick": 10, "thorough": 400}


def run_peers(res, prop, tier, seed, work):
    """C26 over the wire: GETP / GIVP messages to a real node (harness/syncrec mode peers) against Pex.tla's Valid and bound
    (specs/pex/PeerWireRecords.tla).  Invalid address admitted / list beyond Max / peer dropped -> C26; reply clauses -> notes."""
    spec = os.path.join(vlib.SPECS, "pex")
    binary = vlib.build_harness(work, "syncrec", "syncrec")
    recs = os.path.join(work, "peers.ndjson")
    p = vlib.run([binary, recs, str(seed), str(PEER_RUNS[tier]), "peers"], timeout=3000, check=False)
    if p.returncode != 0 or not os.path.exists(recs):
        raise Infra("peers recorder failed:\n" + (p.stdout or "")[-2000:])
    pwork = os.path.join(work, "peers")
    os.makedirs(pwork, exist_ok=True)
    st, mism = vlib.validate_records(spec, "PeerWireRecords", "PeerWireRecords.cfg", pwork, recs, chunk=20000, with_reason=True)
    notes = collections.Counter()
    for i, (r, parts) in enumerate(mism):
        owner, _, what = parts[1].partition(":")
        sig = "peerwire:%s:%s" % (r["msg"], what)
        if owner == "X":
            notes[sig] += 1
            if notes[sig] == 1:
                print("NOTE: peer exchange protocol (no listed property): %s: %s" % (sig, json.dumps({k: r[k] for k in ("msg", "items", "sent", "max")})[:300]))
            continue
        rp = vlib.save_replay(work, "%s_peerwire_%d.json" % (owner, i), {"engine": "peerwire", "signature": sig, "seed": seed, "tier": tier, "record": r}) if owner == prop and i < 20 else ""
        res.mismatch(owner, sig, "a real node over TCP, run %d step %d (Max %d): %s of %s -> list %s" % (r["run"], r["step"], r["max"], r["msg"], json.dumps(r["items"])[:200], json.dumps(r["post"])[:200]), rp)
    all_recs = vlib.read_ndjson(recs)
    res.coverage["over_the_wire"] = {
        "messages_to_a_real_node": len(all_recs), "runs": PEER_RUNS[tier],
        "by_message": dict(collections.Counter(r["msg"] for r in all_recs)),
        "address_classes_given": dict(collections.Counter("%s:%s" % (it["class"], it["port"]) for r in all_recs for it in r["items"]).most_common(30)),
        "list_sizes_reached_by_max": dict(collections.Counter("max%d:%d" % (r["max"], len(r["post"])) for r in all_recs).most_common(12)),
        "protocol_notes_no_listed_property": dict(notes), "checker_cmd": st["cmd"],
    }
