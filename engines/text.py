"""Engine `text` (C15, C30): text conversions against executable TLA+ definitions in specs/text.
C30  Droplet.tla: what a decimal text denotes (digit-sequence arithmetic, no 32-bit limits), when it is an amount, the text of
     a value.  MCDroplet checks the definitions on their own exhaustively for a small instance (2 places, values <= 1299: every
     value, every text of length <= 5 over {0,1,3,9,.,-,+,e}) against native integers.  record -> validate: droplet.FromString
     (under a 6 s watchdog) and droplet.ToString (with the parse of its result) on boundary-placed and random values and on
     texts built near such values (exact, seventh decimal, padded, shifted point, exponent forms incl. huge exponents, foreign
     bytes); TLC evaluates ParseVerdict / FormatVerdict on every record.
C15  Base58.tla: the big-integer definition (schoolbook base conversion of digit sequences), the bijection between byte strings
     and alphabet texts, address texts (25 bytes, version 0, checksum).  MCBase58 checks the definitions exhaustively on short
     byte strings / texts against native integers.  record -> validate: base58.Encode (+ Decode of the result), base58.Decode on
     mutated texts (foreign characters incl. non-ASCII, added/removed leading '1's, cuts, long texts) and
     cipher.DecodeBase58Address on valid / wrong-version / wrong-checksum / wrong-length / mutated texts (SHA-256 by the
     recorder's crypto/sha256 over math/big reference bytes, which TLC also compares with the definition)."""
import collections
import json
import os

from lib import vlib
from lib.vlib import Infra

SPEC = os.path.join(vlib.SPECS, "text")
CONF = {
    "C30": dict(mode="droplet", mc=("MCDroplet", "MCDroplet.cfg"), oracle=("DropletRecords", "DropletRecords.cfg"), count={"quick": 12000, "thorough": 600000},
                mcconst="Places=2 MaxValue=1299 MaxLen=5 alphabet {0,1,3,9,.,-,+,e}"),
    "C15": dict(mode="base58", mc=("MCBase58", "MCBase58.cfg"), oracle=("Base58Records", "Base58Records.cfg"), count={"quick": 4000, "thorough": 30000},
                mcconst="byte strings of length <= 3 over {0,1,57,58,59,127,128,255}; texts of length <= 3 over {1,2,A,z,0,I,l,0xC8}"),
}


def run(res, prop, tier, seed, work, replay=None):
    c = CONF[prop]
    res.level = "exploration"
    mc = vlib.model_check(SPEC, c["mc"][0], c["mc"][1], os.path.join(work, "mc"), timeout=900)
    binary = vlib.build_harness(work, "textrec", "textrec")
    recs = os.path.join(work, "recs.ndjson")
    count = c["count"][tier]
    p = vlib.run([binary, recs, str(seed), str(count), c["mode"]], timeout=3000, check=False)
    if p.returncode != 0 or not os.path.exists(recs):
        raise Infra("textrec failed:\n" + (p.stdout or "")[-2000:])
    st, mism = vlib.validate_records(SPEC, c["oracle"][0], c["oracle"][1], work, recs, chunk=10000, with_reason=True)
    seen = collections.Counter()
    for i, (r, parts) in enumerate(mism):
        why = parts[1]
        if why.startswith("harness-"):
            raise Infra("the recorder's reference decoding differs from Base58.tla: " + json.dumps(r)[:400])
        sig = "text:%s:%s:%s" % (c["mode"], r["fn"], why)
        seen[sig] += 1
        rp = vlib.save_replay(work, "%s_%d.json" % (prop, i), {"engine": "text", "signature": sig, "seed": seed, "tier": tier, "record": r}) if seen[sig] <= 5 else ""
        shown = r.get("str") or json.dumps({k: v for k, v in r.items() if k in ("n", "bytes", "text", "ok")})[:200]
        res.mismatch(prop, sig, "%s(%s): real result differs from the definition: %s" % (r["fn"], shown[:120], why), rp)
    per = collections.Counter()
    distinct = set()
    n = 0
    with open(recs) as fh:
        for line in fh:
            r = json.loads(line)
            n += 1
            per["%s/%s%s" % (r["fn"], "ok" if r.get("ok", True) else "rejected", (":" + r["err"][:24]) if r.get("err") else "")] += 1
            distinct.add(json.dumps(r.get("s") or r.get("text") or r.get("n") or r.get("bytes")))
    res.coverage.update({
        "states": mc["distinct"], "transitions": mc["generated"],
        "mc": {"module": c["mc"][0], "distinct": mc["distinct"], "generated": mc["generated"], "cached": mc["cached"], "constants": c["mcconst"],
               "what": "the definitions themselves, exhaustively on a small instance, against native integers"},
        "evaluations": n, "distinct_nontrivial": len(distinct), "records_by_call_and_result": dict(per.most_common(30)),
        "rule": "one record per call of the real function; inputs are boundary-placed or random values and texts derived from them (see the engine docstring); "
                "distinct = distinct inputs", "samples": vlib.read_ndjson(recs, limit=2), "checker_cmd": st["cmd"], "tlc_record_states": st["tlc_states"],
        "traces_validated_against_impl": n,
    })
    res.assumptions += ["sampling, not proof: the input space is unbounded; the exhaustive part is the definitions on a small instance",
                        "C15: SHA-256 is taken from Go's crypto/sha256 (the checksum's input bytes are checked against the definition by TLC)",
                        "C30: a parse that has not returned after 6 s counts as not returning; texts without an integer digit ('.5') may but need not be accepted",
                        "TLC, SANY and the CommunityModules Json reader are trusted"]
