"""Engine `poolrun` (C32): the connection pool's concurrency against specs/pool/Pool.tla.
MC (exhaustive, cached): Pool.tla under PoolFixed.cfg - every interleaving of Run, the strand worker, two API callers (query or
Connect, with the connection goroutine a Connect starts) and Shutdown: Shutdown terminates, every call returns, no result cell is
read while the worker may write it, wg.Add never runs from zero during wg.Wait, nothing is registered and no pool goroutine is
left once Shutdown has returned, a call answered "closed" was not made.  The three other configurations (PoolAsIs*.cfg) are the
designs the code had before its repairs: TLC must still refute each (the properties are not vacuous).
record -> validate: a real gnet.ConnectionPool (overlay test in package gnet, built with -race) listens on 127.0.0.1, 1-4
goroutines issue random operations (connect, disconnect, send, broadcast, pings, size and connection queries, listening address,
incoming connections that send a frame or garbage and leave) with scheduling noise under GOMAXPROCS in {1,2,4,8,16}, Shutdown is
called after a seeded delay (0 = overlapping the start of Run) under a watchdog, and every operation is called once more after
Shutdown returned.  One record per pool lifetime plus one per race-detector report; TLC evaluates PoolCore's operators on each."""
import collections
import json
import os
import re

from lib import vlib
from lib.vlib import Infra

SPEC = os.path.join(vlib.SPECS, "pool")
COUNT = {"quick": (4, 300), "thorough": (16, 1500)}     # processes (seeds), pool lifetimes per process
REFUTED = {"PoolAsIsListener.cfg": "ShutdownTerminates", "PoolAsIsAbandon.cfg": "NoResultRace", "PoolAsIsAdd.cfg": "NoWaitGroupMisuse"}


def refuted(work):
    """The pre-repair designs must still be rejected by TLC (cached by spec hash)."""
    names = [f for f in os.listdir(SPEC) if f.endswith((".tla", ".cfg"))]
    cpath = os.path.join(vlib.VERIF, ".cache", "mc", "pool-refuted-%s.json" % vlib.spec_hash(SPEC, names))
    if os.path.exists(cpath):
        try:
            return json.load(open(cpath))
        except ValueError:
            pass
    out = {}
    for cfg, prop in REFUTED.items():
        r = vlib.run_tlc(SPEC, "Pool", cfg, os.path.join(work, "mc-" + cfg[:-4]), timeout=900)
        if r["ok"] or not any(prop in v for v in r["violated"]) and prop not in r["tail"]:
            raise Infra("Pool.tla under %s should violate %s but TLC says: %s" % (cfg, prop, r["tail"][-800:]))
        out[cfg] = {"violates": prop, "distinct": r["distinct"]}
    os.makedirs(os.path.dirname(cpath), exist_ok=True)
    tmp = "%s.%d.tmp" % (cpath, os.getpid())
    with open(tmp, "w") as fh:
        json.dump(out, fh)
    os.replace(tmp, cpath)
    return out


_FRAME = re.compile(r"^\s+(github\.com/skycoin/skycoin/\S+?)\(\)\s*$")


def race_reports(text):
    """[(signature, excerpt)] - the signature is the innermost skycoin frame of each of the two accesses."""
    out = []
    for blk in text.split("WARNING: DATA RACE")[1:]:
        blk = blk.split("==================")[0]
        stacks = re.split(r"\n\s*\n", blk.strip("\n"))
        tops = []
        for st in stacks[:2]:
            fr = [m.group(1).replace("github.com/skycoin/skycoin/src/", "") for m in map(_FRAME.match, st.splitlines()) if m]
            sync = any("runtime.race" in l for l in st.splitlines()[:3])
            tops.append((fr[0] if fr else "?") + ("[sync]" if sync else ""))
        out.append((" <-> ".join(sorted(tops)), "\n".join(l for l in blk.splitlines() if not l.startswith("["))[:1500]))
    return out


def pool_panic(text):
    """(signature, excerpt) when the process died with a Go panic raised under a non-test frame of the pool or the strand."""
    m = re.search(r"^(panic: .*|fatal error: .*)$", text, re.M)
    if not m:
        return None
    tail = text[m.start():]
    first = tail.split("\n\n")[0] + "\n" + (tail.split("\n\n")[1] if "\n\n" in tail else "")
    fr = [f for f in re.findall(r"^(github\.com/skycoin/skycoin/src/\S+?)\(", first, re.M) if "TestVerif" not in f]
    if not fr:
        return None
    return ("%s @ %s" % (m.group(1)[:120], fr[0].replace("github.com/skycoin/skycoin/src/", "")), tail[:2500])


def run(res, prop, tier, seed, work, replay=None):
    res.level = "model_checking"
    mc = vlib.model_check(SPEC, "Pool", "PoolFixed.cfg", os.path.join(work, "mc"), timeout=900)
    ref = refuted(work)
    binary = vlib.build_pkg_test(work, "src/daemon/gnet", "gnet", race=True)
    nproc, count = COUNT[tier]
    recs = os.path.join(work, "recs.ndjson")
    n_runs = 0
    races = collections.OrderedDict()
    with open(recs, "w") as fh:
        for i in range(nproc):
            out = vlib.fresh_dir(os.path.join(work, "rec"))
            s = seed * 1000 + i
            env = dict(os.environ, VERIF_OUT=out, VERIF_SEED=str(s), VERIF_COUNT=str(count), GORACE="halt_on_error=0")
            p = vlib.run([binary, "-test.run", "TestVerifPoolRun$", "-test.count=1", "-test.timeout", "3000s"], env=env, timeout=3100, check=False)
            part = os.path.join(out, "pool.ndjson")
            lines = open(part).read().splitlines() if os.path.exists(part) else []
            reports = race_reports(p.stdout or "")
            pan = pool_panic(p.stdout or "")
            if pan:
                # the process died in the pool's own code: the lifetimes recorded so far are still judged
                fh.write(json.dumps({"kind": "panic", "seed": s, "sig": pan[0]}) + "\n")
                races.setdefault(pan[0], pan[1])
            elif (len(lines) != count and all(json.loads(x)["shutdownReturned"] for x in lines)) or \
                    (p.returncode != 0 and not reports and all(json.loads(x)["shutdownReturned"] for x in lines)):
                raise Infra("pool recorder failed (rc=%s, %d/%d records):\n%s" % (p.returncode, len(lines), count, "\n".join(
                    l for l in (p.stdout or "").splitlines() if not l.startswith("["))[-2500:]))
            for x in lines:
                r = json.loads(x)
                r.update(kind="run", seed=s)
                fh.write(json.dumps(r) + "\n")
                n_runs += 1
            for sig, text in reports:
                races.setdefault(sig, text)
                fh.write(json.dumps({"kind": "race", "seed": s, "sig": sig}) + "\n")
    st, mism = vlib.validate_records(SPEC, "PoolRecords", "PoolRecords.cfg", work, recs, chunk=20000, with_reason=True)
    seen = set()
    for i, (r, parts) in enumerate(mism):
        sig = "poolrun:%s" % parts[1] + (":" + r["sig"] if r["kind"] in ("race", "panic") else "")
        if sig in seen and len(seen) > 30:
            continue
        seen.add(sig)
        body = {"engine": "poolrun", "signature": sig, "seed": seed, "process_seed": r["seed"], "tier": tier, "record": r}
        if r["kind"] in ("race", "panic"):
            body["report"] = races.get(r["sig"], "")
        rp = vlib.save_replay(work, "C32_%d.json" % i, body) if i < 30 else ""
        what = ("race detector: %s" % r["sig"]) if r["kind"] == "race" else ("the pool crashed the process: %s" % r["sig"]) if r["kind"] == "panic" else \
            "pool lifetime %d (seed %d, Shutdown after %d us, %d callers, GOMAXPROCS %d): %s" % (r["iter"], r["seed"], r["delayUs"], r["callers"], r["procs"], parts[1])
        res.mismatch("C32", sig, what, rp)
    all_recs = [r for r in vlib.read_ndjson(recs) if r["kind"] == "run"]
    per = collections.Counter(x for r in all_recs for x in r["results"])
    delays = collections.Counter("0" if r["delayUs"] == 0 else "<200us" if r["delayUs"] < 200 else "<2ms" if r["delayUs"] < 2200 else "<10ms" for r in all_recs)
    res.coverage.update({
        "states": mc["distinct"], "transitions": mc["generated"],
        "mc": {"module": "Pool", "cfg": "PoolFixed.cfg", "distinct": mc["distinct"], "generated": mc["generated"], "depth": mc["depth"], "cached": mc["cached"],
               "constants": "2 callers (each a query or a Connect with its connection goroutine), Run, worker, Shutdown", "liveness_checked": True,
               "complete_state_space": True, "refuted_designs": ref},
        "traces_validated_against_impl": n_runs, "schedules": n_runs, "evaluations": n_runs, "race_detector": True, "race_reports": len(races),
        "calls_made": sum(r["calls"] for r in all_recs), "results_seen_in_lifetimes": dict(per), "shutdown_delay_classes": dict(delays),
        "gomaxprocs": dict(collections.Counter(str(r["procs"]) for r in all_recs)),
        "rule": "one record per pool lifetime: did Shutdown, Run, every concurrent call and every call after Shutdown return (30 s watchdogs), the result class of every call, "
                "what is left registered; one record per distinct race-detector report of the process",
        "samples": all_recs[:1], "checker_cmd": st["cmd"], "tlc_record_states": st["tlc_states"], "budget": True,
    })
    res.assumptions += ["schedules are sampled (seeded delays, scheduling noise, GOMAXPROCS 1..16), not enumerated: the race detector reports only races that the sampled schedules exercise",
                        "a call that has not returned 30 s after Shutdown is counted as never returning",
                        "the daemon's callbacks are not installed: the pool is exercised on its own",
                        "TLC, SANY and the CommunityModules Json reader are trusted"]
