"""Engine `conn` (C24): daemon.Connections against specs/conn/Connections.tla.
MC (exhaustive, cached) + explore->validate (every call in every reachable implementation state,
TLC as transition oracle) + generate->replay (TLC -simulate behaviours replayed on the real object)."""
import json
import os
import subprocess
from concurrent.futures import ThreadPoolExecutor

from lib import vlib
from lib.vlib import Infra

SPEC = os.path.join(vlib.SPECS, "conn")

CFG = {
    # the same alphabet as thorough (cross-IP and same-IP interactions), explored breadth-first up to max_states states
    "quick": {"ips": ["10.0.0.1", "10.0.0.2"], "ports": [6000, 6001], "mirrors": [0, 7], "lports": [0, 6000], "gids": [0, 1, 2],
              "max_states": 2500, "budget": True},
    "thorough": {"ips": ["10.0.0.1", "10.0.0.2"], "ports": [6000, 6001], "mirrors": [0, 7], "lports": [0, 6000],
                 "gids": [0, 1, 2, 3], "max_states": 60000},
}
SIM = {"quick": (300, 14), "thorough": (5000, 22)}
CHUNK = 150000


def explore(binary, out, cfg, replay_path=None, timeout=1500):
    vlib.fresh_dir(out)
    env = dict(os.environ, VERIF_OUT=out, VERIF_CONN_CFG=json.dumps(cfg))
    if replay_path is not None:
        env["VERIF_CONN_REPLAY_PATH"] = json.dumps(replay_path)
    p = vlib.run([binary, "-test.run", "TestVerifConnExplore$", "-test.count=1", "-test.timeout", "%ds" % timeout],
                 env=env, timeout=timeout + 30, check=False)
    if p.returncode != 0 or not os.path.exists(os.path.join(out, "explore_summary.json")):
        raise Infra("conn explorer failed:\n" + (p.stdout or "")[-2000:])
    with open(os.path.join(out, "explore_summary.json")) as fh:
        return json.load(fh)


def validate_edges(work, out, res, tier):
    """TLC as transition oracle over the recorded edges (chunked; chunks run in parallel)."""
    edges = os.path.join(out, "edges.ndjson")
    chunks = []
    with open(edges) as fh:
        buf, n = [], 0
        for line in fh:
            buf.append(line)
            if len(buf) >= CHUNK:
                chunks.append(buf)
                buf = []
        if buf or not chunks:
            chunks.append(buf)
    paths = []
    offs = []
    off = 0
    for i, c in enumerate(chunks):
        p = os.path.join(out, "edges_%03d.ndjson" % i)
        with open(p, "w") as fh:
            fh.writelines(c)
        paths.append(p)
        offs.append(off)
        off += len(c)
    par = 4 if len(chunks) > 1 else 1
    workers = max(2, vlib.NCPU // par)

    def one(i):
        # the state table is checked with the first chunk only
        files = {"edges.ndjson": paths[i], "states.ndjson": os.path.join(out, "states.ndjson")}
        cfg = "ConnectionsEdges.cfg" if i == 0 else "ConnectionsEdgesOnly.cfg"
        return vlib.run_tlc(SPEC, "ConnectionsEdges", cfg, os.path.join(work, "tlc_edges_%03d" % i), files=files,
                            workers=workers, timeout=1500, heap="6g")
    with ThreadPoolExecutor(max_workers=par) as ex:
        results = list(ex.map(one, range(len(chunks))))
    gen = sum(r["generated"] for r in results)
    dist = sum(r["distinct"] for r in results)
    mism = []
    for i, r in enumerate(results):
        if not r["ok"]:
            raise Infra("edge oracle failed: " + r["tail"][-1500:])
        for m in r["mismatches"]:
            mism.append((i, m))
    return {"generated": gen, "distinct": dist, "cmd": results[0]["cmd"], "chunks": len(chunks)}, mism, offs, chunks


def edge_signature(edge, kind):
    c = edge["call"]
    return "conn:%s:%s" % (kind, c["op"])


def run(res, tier, seed, work, replay=None):
    res.level = "model_checking"
    # 1. exhaustive model checking of the design (complete state space for the stated constants)
    mc = vlib.model_check(SPEC, "MCConnections", "MCConnections.cfg", os.path.join(work, "mc"), timeout=900)
    binary = vlib.build_pkg_test(work, "src/daemon", "daemon")
    out = os.path.join(work, "explore")
    if replay:
        with open(replay) as fh:
            rp = json.load(fh)
        summ = explore(binary, out, CFG["thorough"], replay_path=rp["path"])
    else:
        summ = explore(binary, out, CFG[tier])
    tl, mism, offs, chunks = validate_edges(work, out, res, tier)
    paths = None
    nm = 0
    for ci, line in mism:
        nm += 1
        parts = [x.strip() for x in line.strip("<>").split(",")]
        kind = parts[1].strip('"')
        idx = int(parts[2])
        if paths is None:
            paths = {p["id"]: p["path"] for p in vlib.read_ndjson(os.path.join(out, "paths.ndjson"))}
        if kind == "state":
            path = paths.get(idx, [])
            sig = "conn:state:maps-do-not-describe-live-set"
            rp = vlib.save_replay(work, "C24_state_%d.json" % idx, {"engine": "conn", "kind": "state", "path": path})
            if nm <= 50:
                res.mismatch("C24", sig, "after %s the secondary maps do not describe the live connections" % json.dumps(path[-3:]), rp)
        else:
            edge = json.loads(chunks[ci][idx - 1])
            path = paths.get(edge["pre"], []) + [edge["call"]]
            rp = vlib.save_replay(work, "C24_edge_%d_%d.json" % (ci, idx), {"engine": "conn", "kind": kind, "path": path, "observed": edge, "tlc": line})
            if nm <= 50:
                res.mismatch("C24", edge_signature(edge, kind), "call %s returned %s / post-state differs; spec says %s" % (json.dumps(edge["call"]), edge["res"], line[:200]), rp)
    if summ.get("truncated") and not CFG[tier].get("budget"):
        # only where max_states exceeds the model's complete state count is reaching it a verdict; in the quick tier it is a budget
        res.mismatch("C24", "conn:unbounded", "the implementation reaches more projected states (> %d) than the complete model (%d): bookkeeping grows without bound" % (summ["states"], mc["distinct"]), "")
    # 2. generate -> replay
    nbeh = nsteps = 0
    samples = []
    if not replay:
        num, depth = SIM[tier]
        with open(os.path.join(SPEC, "GenConnections.cfg")) as fh:
            cfgtxt = fh.read().replace("Depth = 12", "Depth = %d" % depth)
        gcfg = os.path.join(work, "GenConnections.cfg")
        with open(gcfg, "w") as fh:
            fh.write(cfgtxt)
        g = vlib.run_tlc(SPEC, "GenConnections", "GenConnections.cfg", os.path.join(work, "tlc_gen"), files={"GenConnections.cfg": gcfg},
                         simulate=num, depth=depth + 2, seed=seed + 1, timeout=900, extra=["-deadlock"])
        if len(g["printed"]) == 0:
            raise Infra("generator produced no behaviours:\n" + g["tail"])
        beh = os.path.join(work, "behaviours.ndjson")
        with open(beh, "w") as fh:
            for line in g["printed"]:
                fh.write(line + "\n")
        rout = vlib.fresh_dir(os.path.join(work, "replay"))
        env = dict(os.environ, VERIF_OUT=rout, VERIF_CONN_BEHAVIOURS=beh)
        p = vlib.run([binary, "-test.run", "TestVerifConnReplay$", "-test.count=1"], env=env, timeout=900, check=False)
        if p.returncode != 0 or not os.path.exists(os.path.join(rout, "replay_summary.json")):
            raise Infra("conn replayer failed:\n" + (p.stdout or "")[-2000:])
        with open(os.path.join(rout, "replay_summary.json")) as fh:
            rs = json.load(fh)
        nbeh, nsteps = rs["behaviours"], rs["steps"]
        behs = g["printed"]
        for m in vlib.read_ndjson(os.path.join(rout, "replay_mismatches.ndjson")):
            b = json.loads(behs[m["behaviour"] - 1])
            path = [s["call"] for s in b[:m["step"]]]
            rp = vlib.save_replay(work, "C24_beh_%d.json" % m["behaviour"], {"engine": "conn", "kind": "behaviour", "path": path, "mismatch": m})
            res.mismatch("C24", "conn:replay:%s:%s" % (m["what"], m["call"]["op"]),
                         "step %d of generated behaviour: expected %s observed %s" % (m["step"], json.dumps(m["expected"])[:150], json.dumps(m["observed"])[:150]), rp)
        samples.append({"generated_behaviour_first_steps": json.loads(behs[0])[:3]})
    first_edges = vlib.read_ndjson(os.path.join(out, "edges.ndjson"), limit=400)
    samples.append({"implementation_edges": [e for e in first_edges if e["res"] == "ok"][:4]})
    res.coverage.update({
        "states": mc["distinct"], "transitions": mc["generated"],
        "mc": {"module": "MCConnections", "distinct": mc["distinct"], "generated": mc["generated"], "depth": mc["depth"],
               "cached": mc["cached"], "complete_state_space": True},
        "traces_validated_against_impl": summ["edges"] + nbeh,
        "implementation_states_explored": summ["states"], "implementation_edges_checked_by_tlc": summ["edges"],
        "edge_oracle_tlc_states": tl["distinct"], "edge_chunks": tl["chunks"],
        "generated_behaviours_replayed": nbeh, "replayed_steps": nsteps,
        "exhaustive": not summ.get("truncated", False),
        "alphabet": CFG[tier] if not replay else "replay",
        "samples": samples,
        "checker_cmd": tl["cmd"],
    })
    res.assumptions += ["gnet never hands out a connection id held by a live connection (FreshGid); id 0 is never handed out",
                        "remote addresses have a non-zero port", "TLC, SANY and the CommunityModules Json reader are trusted"]
