module verifharness

go 1.14

require github.com/skycoin/skycoin v0.0.0

replace github.com/skycoin/skycoin => /repo
