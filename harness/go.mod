module verifharness

go 1.14

require (
	github.com/shopspring/decimal v0.0.0-20180709203117-cd690d0c9e24
	github.com/skycoin/skycoin v0.0.0
)

replace github.com/skycoin/skycoin => /repo
