// Command txnrec calls the real transaction-level functions of skycoin on generated cases and writes one
// record per call for the TLC record oracle specs/ledger/TxnRecords.tla:
//
//	verify  coin.Transaction.Verify / VerifyUnsigned on transactions built from random feature vectors   (C09)
//	decode  coin.DeserializeTransaction on mutated byte strings (decodes => re-encodes to the same bytes)  (C09)
//	soft    transaction.VerifySingleTxnSoftConstraints over parameter grids and boundary fees             (C11)
//	create  transaction.Create on random spend requests                                                  (C12)
//	sign    wallet.SignTransaction over wallet type x encryption x index/ownership/pre-signed patterns   (C13)
//
// The harness logs what each input IS (raw fields, 64-bit values as base-10^4 limbs) and what the real code
// returned; validity is decided by TLC.  Usage: txnrec <out.ndjson> <seed> <count> <families,comma separated>
package main

import (
	"bufio"
	"bytes"
	"encoding/json"
	"fmt"
	"log"
	"math/big"
	"math/rand"
	"os"
	"sort"
	"strconv"
	"strings"

	"github.com/shopspring/decimal"

	"github.com/skycoin/skycoin/src/cipher"
	"github.com/skycoin/skycoin/src/cipher/bip39"
	"github.com/skycoin/skycoin/src/cipher/bip44"
	"github.com/skycoin/skycoin/src/cipher/crypto"
	"github.com/skycoin/skycoin/src/cipher/encoder"
	"github.com/skycoin/skycoin/src/coin"
	"github.com/skycoin/skycoin/src/params"
	"github.com/skycoin/skycoin/src/transaction"
	"github.com/skycoin/skycoin/src/util/fee"
	"github.com/skycoin/skycoin/src/util/logging"
	"github.com/skycoin/skycoin/src/wallet"
	"github.com/skycoin/skycoin/src/wallet/bip44wallet"
	"github.com/skycoin/skycoin/src/wallet/collection"
	"github.com/skycoin/skycoin/src/wallet/deterministic"
	"github.com/skycoin/skycoin/src/wallet/xpubwallet"
)

type rec map[string]interface{}

func L(x uint64) []int {
	out := []int{}
	v := new(big.Int).SetUint64(x)
	base := big.NewInt(10000)
	m := new(big.Int)
	for v.Sign() > 0 {
		v.DivMod(v, base, m)
		out = append(out, int(m.Int64()))
	}
	return out
}

var rng *rand.Rand
var enc *json.Encoder

func emit(r rec) {
	if err := enc.Encode(r); err != nil {
		log.Fatal(err)
	}
}

type owner struct {
	addr cipher.Address
	pub  cipher.PubKey
	sec  cipher.SecKey
}

func newOwner(tag string) owner {
	p, s, err := cipher.GenerateDeterministicKeyPair([]byte(fmt.Sprintf("%s-%d", tag, rng.Int63())))
	if err != nil {
		log.Fatal(err)
	}
	return owner{cipher.AddressFromPubKey(p), p, s}
}

func randHash() cipher.SHA256 {
	var h cipher.SHA256
	rng.Read(h[:])
	return h
}

type outJ struct {
	ID    string `json:"id"`
	Addr  string `json:"addr"`
	Coins []int  `json:"coins"`
	Hours []int  `json:"hours"`
}

type uxJ struct {
	ID    string `json:"id"`
	Addr  string `json:"addr"`
	Coins []int  `json:"coins"`
	Hours []int  `json:"hours"`
	Time  uint64 `json:"time"`
}

func outsOf(txn *coin.Transaction) []outJ {
	o := []outJ{}
	for i, x := range txn.Out {
		o = append(o, outJ{ID: fmt.Sprintf("o%d", i), Addr: x.Address.String(), Coins: L(x.Coins), Hours: L(x.Hours)})
	}
	return o
}

func insOf(txn *coin.Transaction) []string {
	o := []string{}
	for _, h := range txn.In {
		o = append(o, h.Hex())
	}
	return o
}

func guard(f func()) (panicked bool) {
	defer func() {
		if r := recover(); r != nil {
			panicked = true
		}
	}()
	f()
	return false
}

// ---------------------------------------------------------------------------------------------- verify (C09)

var secpN, _ = new(big.Int).SetString("FFFFFFFFFFFFFFFFFFFFFFFFFFFFFFFEBAAEDCE6AF48A03BBFD25E8CD0364141", 16)

// a signature that can never be accepted: what was done to it is the logged kind
func breakSig(sig cipher.Sig, kind string) cipher.Sig {
	s := sig
	switch kind {
	case "highs": // s -> n - s (the other, equally valid in ECDSA, non-canonical solution), recovery id flipped
		sv := new(big.Int).SetBytes(sig[32:64])
		sv.Sub(secpN, sv)
		b := sv.Bytes()
		for i := 32; i < 64; i++ {
			s[i] = 0
		}
		copy(s[64-len(b):64], b)
		s[64] ^= 1
	case "recid4":
		s[64] += 4
	case "zeros":
		for i := 32; i < 64; i++ {
			s[i] = 0
		}
	case "zeror":
		for i := 0; i < 32; i++ {
			s[i] = 0
		}
	}
	return s
}

type vfeat struct {
	nIn, nOut, dSig                            int
	dupIn, dupOut, zero, ovf, badLen, badInner bool
	typ                                        int
	kinds                                      []string
}

func buildVerify(f vfeat) {
	o := newOwner("v")
	var txn coin.Transaction
	for i := 0; i < f.nIn; i++ {
		txn.In = append(txn.In, randHash())
	}
	if f.nIn >= 2 && f.dupIn {
		txn.In[f.nIn-1] = txn.In[0] // repeated input
	}
	for i := 0; i < f.nOut; i++ {
		txn.Out = append(txn.Out, coin.TransactionOutput{Address: newOwner("d").addr, Coins: uint64(1+rng.Intn(5)) * 1e6, Hours: uint64(rng.Intn(100))})
	}
	if f.nOut >= 1 && f.zero {
		txn.Out[rng.Intn(f.nOut)].Coins = 0
	}
	if f.nOut >= 2 && f.dupOut {
		txn.Out[f.nOut-1] = txn.Out[0] // identical outputs
	}
	if f.nOut >= 2 && f.ovf {
		txn.Out[0].Coins = ^uint64(0) - uint64(rng.Intn(3))
		txn.Out[1].Coins = uint64(3 + rng.Intn(5)) // sum above 2^64-1
	}
	txn.Type = uint8(f.typ)
	txn.InnerHash = txn.HashInner()
	nSigs := f.nIn + f.dSig
	if nSigs < 0 {
		nSigs = 0
	}
	kinds := []string{}
	for i := 0; i < nSigs; i++ {
		var sig cipher.Sig
		kind := "valid"
		if i < len(f.kinds) {
			kind = f.kinds[i]
		}
		if kind != "null" {
			var in cipher.SHA256
			if i < f.nIn {
				in = txn.In[i]
			}
			sig = breakSig(cipher.MustSignHash(cipher.AddSHA256(txn.InnerHash, in), o.sec), kind)
		}
		txn.Sigs = append(txn.Sigs, sig)
		kinds = append(kinds, kind)
	}
	if f.badInner {
		txn.InnerHash = randHash()
	}
	size := len(encoder.Serialize(txn))
	txn.Length = uint32(size)
	if f.badLen {
		txn.Length = uint32(size + []int{-1, 1, 100}[rng.Intn(3)])
	}
	// the rule set does not depend on the packages' exported switches for "checks for impossible conditions": every
	// third transaction is judged a second time with all of them off
	modes := []bool{false}
	if rng.Intn(3) == 0 {
		modes = append(modes, true)
	}
	for _, debugOff := range modes {
		for _, signed := range []bool{true, false} {
			t2 := txn
			var err error
			pan := guard(func() {
				if debugOff {
					cipher.DebugLevel1, cipher.DebugLevel2, coin.DebugLevel1, coin.DebugLevel2 = false, false, false, false
					defer func() {
						cipher.DebugLevel1, cipher.DebugLevel2, coin.DebugLevel1, coin.DebugLevel2 = true, true, true, true
					}()
				}
				if signed {
					err = t2.Verify()
				} else {
					err = t2.VerifyUnsigned()
				}
			})
			r := rec{"fn": "verify", "signed": signed, "ins": insOf(&txn), "outs": outsOf(&txn), "sigKinds": kinds, "type": int(txn.Type),
				"length": int(txn.Length), "size": size, "innerOK": !f.badInner, "res": "ok", "err": "", "panic": pan, "debugOff": debugOff}
			if err != nil {
				r["res"], r["err"] = "err", err.Error()
			}
			emit(r)
		}
	}
}

func genVerify() {
	f := vfeat{nIn: []int{0, 1, 1, 1, 2, 2, 2, 3, 3}[rng.Intn(9)], nOut: []int{0, 1, 1, 1, 2, 2, 2, 3, 3}[rng.Intn(9)]}
	if rng.Intn(10) == 0 {
		f.nIn = 8 + rng.Intn(9) // many inputs: every signature counts, wherever it stands
	}
	f.dupIn, f.dupOut, f.zero, f.ovf = rng.Intn(12) == 0, rng.Intn(12) == 0, rng.Intn(16) == 0, rng.Intn(16) == 0
	f.badLen, f.badInner = rng.Intn(16) == 0, rng.Intn(16) == 0
	if rng.Intn(16) == 0 {
		f.typ = 1 + rng.Intn(3)
	}
	switch rng.Intn(16) {
	case 0:
		f.dSig = 1
	case 1:
		f.dSig = -1
	}
	one := -1
	if f.nIn >= 8 {
		one = rng.Intn(f.nIn) // exactly one flawed signature, at a random place
	}
	for i := 0; i < f.nIn+1; i++ {
		kind := "valid"
		if (one < 0 && rng.Intn(5) == 0) || i == one {
			kind = []string{"null", "null", "highs", "recid4", "zeros", "zeror"}[rng.Intn(6)]
		}
		f.kinds = append(f.kinds, kind)
	}
	buildVerify(f)
}

// every feature vector of the small abstract domain (0..2 inputs and outputs, each fault on/off, each signature valid / null /
// non-canonical), each built as a real transaction: the complete decision table of Verify and VerifyUnsigned
func genVerifyAll() {
	bools := []bool{false, true}
	ks := []string{"valid", "null", "highs"}
	for nIn := 0; nIn <= 2; nIn++ {
		for nOut := 0; nOut <= 2; nOut++ {
			for dSig := -1; dSig <= 1; dSig++ {
				for _, dupIn := range bools {
					for _, dupOut := range bools {
						for _, zero := range bools {
							for _, ovf := range bools {
								for _, badLen := range bools {
									for _, badInner := range bools {
										for typ := 0; typ <= 1; typ++ {
											for _, k1 := range ks {
												for _, k2 := range ks {
													if (dupIn && nIn < 2) || (dupOut && nOut < 2) || (ovf && (nOut < 2 || dupOut || zero)) || (zero && nOut == 0) || (nIn < 2 && k2 != "valid") || (nIn < 1 && k1 != "valid") {
														continue
													}
													buildVerify(vfeat{nIn: nIn, nOut: nOut, dSig: dSig, dupIn: dupIn, dupOut: dupOut, zero: zero, ovf: ovf,
														badLen: badLen, badInner: badInner, typ: typ, kinds: []string{k1, k2}})
												}
											}
										}
									}
								}
							}
						}
					}
				}
			}
		}
	}
}

func validTxn(nIn, nOut int) coin.Transaction {
	o := newOwner("t")
	var txn coin.Transaction
	keys := []cipher.SecKey{}
	for i := 0; i < nIn; i++ {
		txn.In = append(txn.In, randHash())
		keys = append(keys, o.sec)
	}
	for i := 0; i < nOut; i++ {
		txn.Out = append(txn.Out, coin.TransactionOutput{Address: newOwner("d").addr, Coins: uint64(1+rng.Intn(5)) * 1e6, Hours: uint64(rng.Intn(100))})
	}
	txn.SignInputs(keys)
	if err := txn.UpdateHeader(); err != nil {
		log.Fatal(err)
	}
	return txn
}

func genDecode() {
	txn := validTxn(1+rng.Intn(3), 1+rng.Intn(3))
	b, err := txn.Serialize()
	if err != nil {
		log.Fatal(err)
	}
	how := rng.Intn(7)
	switch how {
	case 0: // unchanged
	case 1: // truncated
		b = b[:rng.Intn(len(b))]
	case 2: // extended
		b = append(b, byte(rng.Intn(256)))
	case 3: // a length prefix byte changed (sigs at 37, then ins, outs follow)
		b[37+rng.Intn(4)] ^= byte(1 << uint(rng.Intn(8)))
	case 4: // random byte flipped
		b[rng.Intn(len(b))] ^= byte(1 << uint(rng.Intn(8)))
	case 5: // random bytes
		b = make([]byte, rng.Intn(300))
		rng.Read(b)
	case 6: // huge declared length
		if len(b) > 41 {
			b[40] = 0xff
		}
	}
	var t2 coin.Transaction
	var derr error
	pan := guard(func() { t2, derr = coin.DeserializeTransaction(b) })
	r := rec{"fn": "decode", "how": how, "len": len(b), "decoded": derr == nil && !pan, "reencEq": false, "panic": pan}
	if derr == nil && !pan {
		b2, err := t2.Serialize()
		r["reencEq"] = err == nil && bytes.Equal(b, b2)
	}
	emit(r)
}

// ---------------------------------------------------------------------------------------------- soft (C11)

var sharePtr = map[[2]int]*decimal.Decimal{}

func genSoft() {
	owners := []owner{newOwner("a"), newOwner("b"), newOwner("c")}
	lockedOwner := owners[2]
	dist := params.Distribution{MaxCoinSupply: 100, InitialUnlockedCount: 1, Addresses: []string{owners[1].addr.String(), lockedOwner.addr.String()}}
	headTime := uint64(2000000 + rng.Intn(1000000))
	nIn := 1 + rng.Intn(3)
	hugeHours := rng.Intn(12) == 0 // one input whose hours are within a few of 2^64-1: the fee arithmetic at the top of the range
	if hugeHours {
		nIn = 1
	}
	var uxIn coin.UxArray
	var txn coin.Transaction
	keys := []cipher.SecKey{}
	unspent := []uxJ{}
	var hin, cin uint64
	for i := 0; i < nIn; i++ {
		ow := owners[rng.Intn(2)]
		if rng.Intn(8) == 0 {
			ow = lockedOwner
		}
		ux := coin.UxOut{Head: coin.UxHead{Time: headTime - uint64(rng.Intn(500000)), BkSeq: uint64(1 + rng.Intn(10))},
			Body: coin.UxBody{SrcTransaction: randHash(), Address: ow.addr, Coins: uint64(1+rng.Intn(50)) * 1e6, Hours: uint64(rng.Intn(2000))}}
		if rng.Intn(10) == 0 {
			ux.Body.Hours = 0
			ux.Head.Time = headTime
		}
		if hugeHours {
			ux.Body.Hours = ^uint64(0) - uint64(rng.Intn(12))
			ux.Head.Time = headTime
		}
		uxIn = append(uxIn, ux)
		txn.In = append(txn.In, ux.Hash())
		keys = append(keys, ow.sec)
		h, err := ux.CoinHours(headTime)
		if err != nil {
			log.Fatal(err)
		}
		hin += h
		cin += ux.Body.Coins
		unspent = append(unspent, uxJ{ID: ux.Hash().Hex(), Addr: ow.addr.String(), Coins: L(ux.Body.Coins), Hours: L(ux.Body.Hours), Time: ux.Head.Time})
	}
	p := params.VerifyTxn{BurnFactor: uint32([]int{2, 3, 4, 7, 10, 100}[rng.Intn(6)]), MaxDropletPrecision: uint8(rng.Intn(7))}
	req := fee.RequiredFee(hin, p.BurnFactor)
	outH := hin - req
	switch rng.Intn(6) {
	case 0:
		if req > 0 {
			outH = hin - req + 1 // one hour short of the required fee
		}
	case 1:
		if outH > 0 {
			outH-- // one more than required
		}
	case 2:
		outH = hin // nothing burnt
	case 3:
		outH = hin + 1 + uint64(rng.Intn(3)) // more hours than the inputs have
	case 4:
		if hin < 1<<62 {
			outH = uint64(rng.Int63n(int64(hin + 1)))
		} else {
			outH = hin - uint64(rng.Intn(3))
		}
	}
	nOut := 1 + rng.Intn(3)
	if rng.Intn(12) == 0 {
		nOut = 24 + rng.Intn(12) // a large transaction, around the size limits
	}
	unit := []uint64{1, 10, 100, 1000, 10000, 100000, 1000000, 1000000}[rng.Intn(8)]
	rem, remH := cin, outH
	for k := 0; k < nOut; k++ {
		c, hh := rem, remH
		last := k == nOut-1
		if q := rem / unit / uint64(nOut-k); !last && q > 0 {
			c = (1 + uint64(rng.Int63n(int64(q)))) * unit
			hh = rng.Uint64() % (remH/uint64(nOut-k) + 1) // remH may be near 2^64
		} else {
			last = true
		}
		txn.Out = append(txn.Out, coin.TransactionOutput{Address: owners[rng.Intn(2)].addr, Coins: c, Hours: hh})
		rem -= c
		remH -= hh
		if last {
			break
		}
	}
	txn.SignInputs(keys)
	if err := txn.UpdateHeader(); err != nil {
		log.Fatal(err)
	}
	size := len(encoder.Serialize(txn))
	p.MaxTransactionSize = uint32(size + []int{-1, 0, 1, 1000, 30000}[rng.Intn(5)])
	if p.MaxTransactionSize < 100 {
		p.MaxTransactionSize = 100
	}
	// the soft rules, asked on their own, judge the encoded size - whatever the length field of the transaction claims
	lengthLies := 0
	if rng.Intn(6) == 0 {
		lengthLies = []int{-1, 1, -size / 2, size, 40000}[rng.Intn(5)]
		txn.Length = uint32(size + lengthLies)
	}
	var err error
	pan := guard(func() { err = transaction.VerifySingleTxnSoftConstraints(txn, headTime, uxIn, dist, p) })
	res := "ok"
	switch err.(type) {
	case nil:
	case transaction.ErrTxnViolatesSoftConstraint:
		res = "soft"
	case transaction.ErrTxnViolatesHardConstraint:
		res = "hard"
	default:
		res = "other"
	}
	r := rec{"fn": "soft", "st": rec{"headTime": headTime, "unspent": unspent}, "size": size, "ins": insOf(&txn), "outs": outsOf(&txn),
		"p":      rec{"burn": L(uint64(p.BurnFactor)), "maxSize": int(p.MaxTransactionSize), "prec": int(p.MaxDropletPrecision)},
		"locked": []string{lockedOwner.addr.String()}, "res": res, "err": "", "panic": pan, "lengthLies": lengthLies}
	if err != nil {
		r["err"] = err.Error()
	}
	emit(r)
}

// ---------------------------------------------------------------------------------------------- create (C12)

func genCreate() {
	owners := []owner{newOwner("a"), newOwner("b"), newOwner("c")}
	dests := []owner{newOwner("x"), newOwner("y"), owners[0]}
	headTime := uint64(2000000 + rng.Intn(1000000))
	burn := uint32([]int{2, 3, 10}[rng.Intn(3)])
	params.UserVerifyTxn.BurnFactor = burn
	nUx := []int{0, 1, 1, 2, 2, 3, 3, 4, 4, 5, 5, 6}[rng.Intn(12)]
	auxs := coin.AddressUxOuts{}
	offered := []uxJ{}
	small := rng.Intn(3) == 0 // small numbers make exact matches (no change, equal outputs) likely
	// tight: the requested hours are what ALL offered outputs together can just pay (one larger output whose hours are a
	// multiple of the burn factor and several one-hour outputs, none of which helps alone); coins are covered by the first
	tight := rng.Intn(6) == 0
	tightTotal := uint64(0)
	if tight {
		nUx = 3 + rng.Intn(4)
	}
	for i := 0; i < nUx; i++ {
		ow := owners[rng.Intn(len(owners))]
		c := uint64(1+rng.Intn(50)) * 1e6
		h := uint64(rng.Intn(3000))
		tm := headTime - uint64(rng.Intn(400000))
		if tight {
			c, h, tm = 1e6, 1, headTime
			if i == 0 {
				c, h = 10e6, uint64(burn)*uint64(1+rng.Intn(3))
			}
			tightTotal += h
		} else
		if small {
			c = uint64(1+rng.Intn(4)) * 1e6
			h = uint64(rng.Intn(8))
			tm = headTime
		}
		if !tight && rng.Intn(4) == 0 {
			h, tm = 0, headTime
		}
		ux := coin.UxOut{Head: coin.UxHead{Time: tm, BkSeq: uint64(1 + rng.Intn(10))},
			Body: coin.UxBody{SrcTransaction: randHash(), Address: ow.addr, Coins: c, Hours: h}}
		auxs[ow.addr] = append(auxs[ow.addr], ux)
		offered = append(offered, uxJ{ID: ux.Hash().Hex(), Addr: ow.addr.String(), Coins: L(c), Hours: L(h), Time: tm})
	}
	p := transaction.Params{}
	mode := []string{"manual", "auto"}[rng.Intn(2)]
	if tight {
		mode = "manual"
	}
	shareNum, shareDen := 0, 1
	if mode == "manual" {
		p.HoursSelection = transaction.HoursSelection{Type: transaction.HoursSelectionTypeManual}
	} else {
		shareDen = []int{1, 2, 4, 10, 100}[rng.Intn(5)]
		shareNum = rng.Intn(shareDen + 1)
		// callers keep their parameters: the same share-factor value (the same pointer) is used for every request with this share
		key := [2]int{shareNum, shareDen}
		if sharePtr[key] == nil {
			sf := decimal.New(int64(shareNum), 0).Div(decimal.New(int64(shareDen), 0))
			sharePtr[key] = &sf
		}
		p.HoursSelection = transaction.HoursSelection{Type: transaction.HoursSelectionTypeAuto, Mode: transaction.HoursSelectionModeShare, ShareFactor: sharePtr[key]}
	}
	nTo := 1 + rng.Intn(3)
	if tight {
		nTo = 1
	}
	to := []outJ{}
	for i := 0; i < nTo; i++ {
		d := dests[rng.Intn(len(dests))]
		c := uint64(1+rng.Intn(40)) * 1e6
		if tight {
			// all hours that remain after the fee on everything offered (sometimes one less, sometimes one too many)
			fee := (tightTotal + uint64(burn) - 1) / uint64(burn)
			hh := tightTotal - fee + uint64(rng.Intn(3)) - 1
			if rng.Intn(2) == 0 {
				hh = tightTotal - fee
			}
			cc := uint64(1+rng.Intn(9)) * 1e6
			p.To = append(p.To, coin.TransactionOutput{Address: d.addr, Coins: cc, Hours: hh})
			to = append(to, outJ{ID: fmt.Sprintf("t%d", i), Addr: d.addr.String(), Coins: L(cc), Hours: L(hh)})
			continue
		}
		if small {
			c = uint64(1+rng.Intn(4)) * 1e6
		}
		if rng.Intn(6) == 0 {
			c = c/1e6*1e6 + uint64(rng.Intn(1000))*1000
		}
		h := uint64(0)
		if mode == "manual" {
			h = uint64(rng.Intn(600))
			if small {
				h = uint64(rng.Intn(4))
			}
		}
		switch rng.Intn(40) {
		case 0:
			c = 0
		case 1:
			d = owner{}
		case 2:
			if mode == "auto" {
				h = 1
			}
		}
		p.To = append(p.To, coin.TransactionOutput{Address: d.addr, Coins: c, Hours: h})
		to = append(to, outJ{ID: fmt.Sprintf("t%d", i), Addr: d.addr.String(), Coins: L(c), Hours: L(h)})
	}
	if nTo >= 2 && rng.Intn(20) == 0 {
		p.To[nTo-1] = p.To[0]
		to[nTo-1] = to[0]
		to[nTo-1].ID = fmt.Sprintf("t%d", nTo-1)
	}
	change := ""
	switch rng.Intn(4) {
	case 0: // automatic
	case 1:
		a := dests[rng.Intn(len(dests))].addr
		p.ChangeAddress = &a
		change = a.String()
	default:
		a := owners[rng.Intn(len(owners))].addr
		p.ChangeAddress = &a
		change = a.String()
	}
	if rng.Intn(40) == 0 {
		a := cipher.Address{}
		p.ChangeAddress = &a
		change = a.String()
	}
	var txn *coin.Transaction
	var err error
	pan := guard(func() { txn, _, err = transaction.Create(p, auxs, headTime) })
	r := rec{"fn": "create", "headTime": headTime, "burn": L(uint64(burn)), "offered": offered, "to": to, "mode": mode, "shareNum": shareNum, "shareDen": shareDen,
		"change": change, "nullAddr": cipher.Address{}.String(), "res": "ok", "errkind": "", "err": "", "panic": pan,
		"ins": []string{}, "outs": []outJ{}, "nSigs": 0, "allNull": true, "lenOK": true, "innerOK": true, "minSpentAddr": ""}
	if err != nil {
		r["err"] = err.Error()
		_, user := err.(transaction.Error)
		switch {
		case err == transaction.ErrInsufficientBalance:
			r["res"], r["errkind"] = "user", "balance"
		case err == transaction.ErrInsufficientHours:
			r["res"], r["errkind"] = "user", "hours"
		case err == transaction.ErrNoUnspents:
			r["res"], r["errkind"] = "user", "nounspents"
		case err == transaction.ErrChangeDuplicatesReceiver:
			r["res"], r["errkind"] = "user", "dupchange"
		case err == fee.ErrTxnNoFee:
			r["res"], r["errkind"] = "user", "nofee"
		case user:
			r["res"], r["errkind"] = "user", "params"
		default:
			r["res"], r["errkind"] = "internal", "internal"
		}
	} else if txn != nil {
		r["ins"], r["outs"], r["nSigs"] = insOf(txn), outsOf(txn), len(txn.Sigs)
		for _, s := range txn.Sigs {
			if !s.Null() {
				r["allNull"] = false
			}
		}
		r["lenOK"] = int(txn.Length) == len(encoder.Serialize(*txn))
		r["innerOK"] = txn.InnerHash == txn.HashInner()
		// the byte-wise smallest address among the owners of the spent outputs (the documented automatic change address)
		var addrs [][]byte
		for _, in := range txn.In {
			for _, uxs := range auxs {
				for _, ux := range uxs {
					if ux.Hash() == in {
						addrs = append(addrs, ux.Body.Address.Bytes())
					}
				}
			}
		}
		sort.Slice(addrs, func(i, j int) bool { return bytes.Compare(addrs[i], addrs[j]) < 0 })
		if len(addrs) > 0 {
			a, _ := cipher.AddressFromBytes(addrs[0])
			r["minSpentAddr"] = a.String()
		}
	}
	emit(r)
}

// ---------------------------------------------------------------------------------------------- sign (C13)

func genSign() {
	wtype := []string{"deterministic", "collection", "bip44", "xpub"}[rng.Intn(4)]
	if rng.Intn(10) > 1 && wtype == "xpub" {
		wtype = "deterministic"
	}
	encrypted := rng.Intn(6) == 0
	var w wallet.Wallet
	var err error
	n := 2 + rng.Intn(4)
	seed := fmt.Sprintf("seed-%d", rng.Int63())
	switch wtype {
	case "deterministic":
		w, err = deterministic.NewWallet("s.wlt", "l", seed, wallet.OptionGenerateN(uint64(n)))
	case "collection":
		var keys []cipher.SecKey
		for i := 0; i < n; i++ {
			keys = append(keys, newOwner("c").sec)
		}
		w, err = collection.NewWallet("s.wlt", "l", wallet.OptionCollectionPrivateKeys(keys))
	case "bip44":
		ent := make([]byte, 16)
		rng.Read(ent)
		m, e2 := bip39.NewMnemonic(ent)
		if e2 != nil {
			log.Fatal(e2)
		}
		w, err = bip44wallet.NewWallet("s.wlt", "l", m, "", wallet.OptionGenerateN(uint64(n)))
	case "xpub":
		ent := make([]byte, 16)
		rng.Read(ent)
		m, _ := bip39.NewMnemonic(ent)
		xpubs, e3 := xpubOf(m)
		if e3 != nil {
			log.Fatal(e3)
		}
		w, err = xpubwallet.NewWallet("s.wlt", "l", xpubs, wallet.OptionGenerateN(uint64(n)))
	}
	if err != nil {
		log.Fatal(wtype, err)
	}
	// every second encrypted wallet is used the way the wallet service uses it: locked, (bip44: further addresses on both
	// chains made from the public keys while it is locked), then unlocked with the password - signing happens on that copy
	viaUnlock := encrypted && wtype != "xpub" && rng.Intn(2) == 0
	lockedGen := 0
	if viaUnlock {
		w.SetCryptoType(crypto.CryptoTypeSha256Xor)
		if err := w.Lock([]byte("pw")); err != nil {
			log.Fatal(err)
		}
		if wtype == "bip44" {
			for _, opts := range [][]wallet.Option{{wallet.OptionGenerateN(uint64(rng.Intn(3)))}, {wallet.OptionGenerateN(uint64(1 + rng.Intn(3))), wallet.OptionChange()}} {
				as, err := w.GenerateAddresses(opts...)
				if err != nil {
					log.Fatal("generate while locked: ", err)
				}
				lockedGen += len(as)
			}
		}
		uw, err := w.Unlock([]byte("pw"))
		if err != nil {
			log.Fatal("unlock: ", err)
		}
		w = uw
	}
	addrs, err := w.GetAddresses()
	if err != nil || len(addrs) == 0 {
		log.Fatal("no addresses", err)
	}
	entries, _ := w.GetEntries()
	if lockedGen > 0 && rng.Intn(2) == 0 {
		entries = entries[len(entries)-lockedGen:] // only the addresses made while locked
	}
	stranger := newOwner("stranger")
	nIn := 1 + rng.Intn(4)
	var txn coin.Transaction
	var uxOuts []coin.UxOut
	owned := []bool{}
	secOf := []cipher.SecKey{}
	for i := 0; i < nIn; i++ {
		var a cipher.Address
		var sec cipher.SecKey
		mine := rng.Intn(5) > 0
		if mine {
			e := entries[rng.Intn(len(entries))]
			a, sec = e.SkycoinAddress(), e.Secret
		} else {
			a, sec = stranger.addr, stranger.sec
		}
		ux := coin.UxOut{Head: coin.UxHead{Time: 100, BkSeq: 1}, Body: coin.UxBody{SrcTransaction: randHash(), Address: a, Coins: 1e6, Hours: 10}}
		uxOuts = append(uxOuts, ux)
		txn.In = append(txn.In, ux.Hash())
		owned = append(owned, mine)
		secOf = append(secOf, sec)
	}
	txn.Out = append(txn.Out, coin.TransactionOutput{Address: stranger.addr, Coins: uint64(nIn) * 1e6, Hours: 1})
	txn.InnerHash = txn.HashInner()
	txn.Sigs = make([]cipher.Sig, nIn)
	pre := make([]bool, nIn)
	for i := 0; i < nIn; i++ {
		if rng.Intn(4) == 0 && wtype != "xpub" && lockedGen == 0 {
			// an existing signature (by the rightful owner, who may be the stranger)
			k := secOf[i]
			if (k == cipher.SecKey{}) {
				k = stranger.sec
			}
			txn.Sigs[i] = cipher.MustSignHash(cipher.AddSHA256(txn.InnerHash, txn.In[i]), k)
			pre[i] = true
		}
	}
	innerOK := true
	_ = txn.UpdateHeader()
	if rng.Intn(12) == 0 {
		txn.InnerHash = randHash() // after UpdateHeader, which would recompute it
		innerOK = false
	}
	// indexes
	idx := []int{}
	switch rng.Intn(5) {
	case 0, 1: // none: all unsigned inputs
	case 2:
		idx = append(idx, rng.Intn(nIn))
	case 3:
		for i := 0; i < nIn; i++ {
			if rng.Intn(2) == 0 {
				idx = append(idx, i)
			}
		}
	case 4:
		idx = append(idx, rng.Intn(nIn+2)-1, rng.Intn(nIn)) // possibly out of range or duplicated
	}
	if encrypted && wtype != "xpub" && !viaUnlock {
		w.SetCryptoType(crypto.CryptoTypeSha256Xor) // the default scrypt parameters cost seconds per lock
		if err := w.Lock([]byte("pw")); err != nil {
			log.Fatal(err)
		}
	}
	before, _ := txn.Serialize()
	var out *coin.Transaction
	var serr error
	pan := guard(func() { out, serr = wallet.SignTransaction(w, &txn, idx, uxOuts) })
	after, _ := txn.Serialize()
	r := rec{"fn": "sign", "wtype": wtype, "encrypted": encrypted && wtype != "xpub" && !viaUnlock, "viaUnlock": viaUnlock, "lockedGen": lockedGen, "nIns": nIn, "preSigned": pre, "owned": owned, "indexes": idx, "innerOK": innerOK,
		"res": "ok", "err": "", "panic": pan, "inputUntouched": bytes.Equal(before, after),
		"sigNonNull": []bool{}, "sigVerifies": []bool{}, "existingKept": true, "insSame": true, "outsSame": true, "innerSame": true}
	if serr != nil || out == nil {
		r["res"] = "err"
		if serr != nil {
			r["err"] = serr.Error()
		}
	} else {
		nn, vf := []bool{}, []bool{}
		kept := len(out.Sigs) == nIn
		for i := 0; i < nIn && i < len(out.Sigs); i++ {
			nn = append(nn, !out.Sigs[i].Null())
			h := cipher.AddSHA256(out.InnerHash, out.In[i])
			vf = append(vf, !out.Sigs[i].Null() && cipher.VerifyAddressSignedHash(uxOuts[i].Body.Address, out.Sigs[i], h) == nil)
			if pre[i] && out.Sigs[i] != txn.Sigs[i] {
				kept = false
			}
		}
		r["sigNonNull"], r["sigVerifies"], r["existingKept"] = nn, vf, kept
		r["insSame"] = fmt.Sprint(out.In) == fmt.Sprint(txn.In)
		r["outsSame"] = fmt.Sprint(out.Out) == fmt.Sprint(txn.Out)
		r["innerSame"] = out.InnerHash == txn.InnerHash && out.HashInner() == txn.HashInner()
	}
	emit(r)
}

// the extended public key of the external chain of account 0 of the bip44 wallet made from this mnemonic
func xpubOf(mnemonic string) (string, error) {
	seed, err := bip39.NewSeed(mnemonic, "")
	if err != nil {
		return "", err
	}
	c, err := bip44.NewCoin(seed, bip44.CoinTypeSkycoin)
	if err != nil {
		return "", err
	}
	a, err := c.Account(0)
	if err != nil {
		return "", err
	}
	e, err := a.External()
	if err != nil {
		return "", err
	}
	return e.PublicKey().String(), nil
}

func main() {
	if len(os.Args) < 5 {
		log.Fatal("usage: txnrec <out.ndjson> <seed> <count> <families>")
	}
	logging.Disable()
	seed, _ := strconv.ParseInt(os.Args[2], 10, 64)
	count, _ := strconv.Atoi(os.Args[3])
	rng = rand.New(rand.NewSource(seed))
	f, err := os.Create(os.Args[1])
	if err != nil {
		log.Fatal(err)
	}
	w := bufio.NewWriterSize(f, 1<<20)
	enc = json.NewEncoder(w)
	saved := params.UserVerifyTxn
	for _, fam := range strings.Split(os.Args[4], ",") {
		for i := 0; i < count; i++ {
			switch fam {
			case "verifyall":
				if i == 0 {
					genVerifyAll()
				}
			case "verify":
				genVerify()
			case "decode":
				genDecode()
			case "soft":
				genSoft()
			case "create":
				genCreate()
			case "sign":
				genSign()
			default:
				log.Fatal("unknown family ", fam)
			}
		}
	}
	params.UserVerifyTxn = saved
	w.Flush()
	f.Close()
}
