// Command filerec performs ONE real save of a wallet file or of a key-value storage file (to be run under strace by
// engines/filesave.py), or loads a directory the way a node start does and reports what it found (C20).
//   filerec prepare-wallet <dir>   a wallet with label "old"
//   filerec save-wallet <dir>      loads it, sets label "new", wallet.Save (the real save path)
//   filerec newaddr-wallet <dir>   wallet.NewService + Service.NewAddresses(1) (writability probe, derivation, save)
//   filerec load-wallet <dir>      wallet.NewService on the directory: {"ok":bool,"content":"old"|"new"|"other","err":...}
//   filerec prepare-kv <dir> / save-kv <dir> / load-kv <dir>   the same for kvstorage (key k: "old" -> "new")
package main

import (
	"encoding/json"
	"fmt"
	"os"
	"path/filepath"

	"github.com/skycoin/skycoin/src/kvstorage"
	"github.com/skycoin/skycoin/src/util/logging"
	"github.com/skycoin/skycoin/src/wallet"
	"github.com/skycoin/skycoin/src/wallet/deterministic"
)

const wname = "w.wlt"

func out(ok bool, content, err string) {
	b, _ := json.Marshal(map[string]interface{}{"ok": ok, "content": content, "err": err})
	fmt.Println(string(b))
}

func die(err error) {
	out(false, "", err.Error())
	os.Exit(0)
}

func kvcfg(dir string) kvstorage.Config {
	return kvstorage.Config{StorageDir: dir, EnabledStorages: []kvstorage.Type{kvstorage.TypeGeneral}, EnableStorageAPI: true}
}

func main() {
	logging.Disable()
	if len(os.Args) < 3 {
		fmt.Println("usage")
		os.Exit(2)
	}
	dir := os.Args[2]
	switch os.Args[1] {
	case "prepare-wallet":
		w, err := deterministic.NewWallet(wname, "old", "a seed for the crash test", wallet.OptionGenerateN(3))
		if err != nil {
			die(err)
		}
		if err := wallet.Save(w, dir); err != nil {
			die(err)
		}
		out(true, "old", "")
	case "save-wallet":
		w, err := wallet.Load(filepath.Join(dir, wname))
		if err != nil {
			die(err)
		}
		w.SetLabel("new")
		if err := wallet.Save(w, dir); err != nil {
			die(err)
		}
		out(true, "new", "")
	case "prepare-none":
		// a wallet directory without the wallet (the state before its first save)
		if err := os.MkdirAll(dir, 0700); err != nil {
			die(err)
		}
		out(true, "old", "")
	case "create-wallet":
		// the very first save of a wallet: the service creates it
		cfg := wallet.NewConfig()
		cfg.WalletDir = dir
		cfg.EnableWalletAPI = true
		s, err := wallet.NewService(cfg)
		if err != nil {
			die(err)
		}
		if _, err := s.CreateWallet(wname, wallet.Options{Type: wallet.WalletTypeDeterministic, Seed: "a seed for the crash test", Label: "new", GenerateN: 3}); err != nil {
			die(err)
		}
		out(true, "new", "")
	case "load-wallet-or-none":
		// as load-wallet, but the previous state is "no such wallet yet"
		cfg := wallet.NewConfig()
		cfg.WalletDir = dir
		cfg.EnableWalletAPI = true
		s, err := wallet.NewService(cfg)
		if err != nil {
			die(err)
		}
		ws, err := s.GetWallets()
		if err != nil {
			die(err)
		}
		w, ok := ws[wname]
		if !ok {
			out(true, "old", "")
			return
		}
		es, _ := w.GetEntries()
		if w.Label() == "new" && len(es) == 3 {
			out(true, "new", "")
		} else {
			out(true, "other", "")
		}
	case "newaddr-wallet":
		// the service-level path: NewAddresses checks that the file is writable, derives one more address and saves
		cfg := wallet.NewConfig()
		cfg.WalletDir = dir
		cfg.EnableWalletAPI = true
		s, err := wallet.NewService(cfg)
		if err != nil {
			die(err)
		}
		if _, err := s.NewAddresses(wname, nil, wallet.OptionGenerateN(1)); err != nil {
			die(err)
		}
		out(true, "new", "")
	case "load-wallet":
		cfg := wallet.NewConfig()
		cfg.WalletDir = dir
		cfg.EnableWalletAPI = true
		s, err := wallet.NewService(cfg)
		if err != nil {
			die(err)
		}
		ws, err := s.GetWallets()
		if err != nil {
			die(err)
		}
		w, ok := ws[wname]
		if !ok {
			out(false, "missing", "the wallet is not loaded")
			return
		}
		// old: label "old" and 3 entries; new: either the label became "new" or a fourth address was derived
		es, _ := w.GetEntries()
		c := "other"
		switch {
		case w.Label() == "old" && len(es) == 3:
			c = "old"
		case (w.Label() == "new" && len(es) == 3) || (w.Label() == "old" && len(es) == 4):
			c = "new"
		}
		out(true, c, "")
	case "prepare-kv":
		m, err := kvstorage.NewManager(kvcfg(dir))
		if err != nil {
			die(err)
		}
		if err := m.AddStorageValue(kvstorage.TypeGeneral, "k", "old"); err != nil {
			die(err)
		}
		out(true, "old", "")
	case "save-kv":
		m, err := kvstorage.NewManager(kvcfg(dir))
		if err != nil {
			die(err)
		}
		if err := m.AddStorageValue(kvstorage.TypeGeneral, "k", "new"); err != nil {
			die(err)
		}
		out(true, "new", "")
	case "load-kv":
		m, err := kvstorage.NewManager(kvcfg(dir))
		if err != nil {
			die(err)
		}
		v, err := m.GetStorageValue(kvstorage.TypeGeneral, "k")
		if err != nil {
			// the node starts, but the stored value is gone
			out(true, "lost", err.Error())
			return
		}
		if v != "old" && v != "new" {
			v = "other"
		}
		out(true, v, "")
	}
}
