// Command fnrec calls the real pure helpers of skycoin (mathutil, fee, coin.UxOut.CoinHours,
// visor.PageIndex) on boundary-biased and random arguments and writes one record per call
// (arguments + result, 64-bit values as base-10^4 limb arrays) for the TLC record oracle
// specs/fn/FnRecords.tla.  Usage: fnrec <out.ndjson> <seed> <count> <families: arith,paging>
package main

import (
	"bufio"
	"encoding/json"
	"fmt"
	"io/ioutil"
	"log"
	"math"
	"math/big"
	"math/rand"
	"os"
	"strconv"
	"strings"

	"github.com/skycoin/skycoin/src/coin"
	"github.com/skycoin/skycoin/src/util/fee"
	"github.com/skycoin/skycoin/src/util/mathutil"
	"github.com/skycoin/skycoin/src/visor"
)

type rec map[string]interface{}

func limbsBig(x *big.Int) []int {
	out := []int{}
	v := new(big.Int).Set(x)
	base := big.NewInt(10000)
	m := new(big.Int)
	for v.Sign() > 0 {
		v.DivMod(v, base, m)
		out = append(out, int(m.Int64()))
	}
	return out
}

func L(x uint64) []int { return limbsBig(new(big.Int).SetUint64(x)) }

var rng *rand.Rand

// boundary-biased uint64
func u64() uint64 {
	switch rng.Intn(10) {
	case 0:
		return uint64(rng.Intn(4))
	case 1:
		k := uint(rng.Intn(64))
		return (uint64(1) << k) + uint64(rng.Intn(3)) - 1
	case 2:
		return math.MaxUint64 - uint64(rng.Intn(4))
	case 3:
		return uint64(rng.Intn(100000))
	case 4:
		return math.MaxInt64 + uint64(rng.Intn(4)) - 1
	case 5:
		return math.MaxUint32 + uint64(rng.Intn(4)) - 1
	case 6:
		return rng.Uint64() >> uint(rng.Intn(64))
	default:
		return rng.Uint64()
	}
}

// b such that a*b is at the 2^64 boundary
func mulPartner(a uint64) uint64 {
	if a == 0 {
		return u64()
	}
	q := math.MaxUint64 / a
	return q + uint64(rng.Intn(3)) - 1
}

func main() {
	out, seedS, countS, fams := os.Args[1], os.Args[2], os.Args[3], os.Args[4]
	seed, _ := strconv.ParseInt(seedS, 10, 64)
	count, _ := strconv.Atoi(countS)
	rng = rand.New(rand.NewSource(seed))
	log.SetOutput(ioutil.Discard)
	f, err := os.Create(out)
	if err != nil {
		panic(err)
	}
	w := bufio.NewWriter(f)
	enc := json.NewEncoder(w)
	emit := func(r rec) {
		if err := enc.Encode(r); err != nil {
			panic(err)
		}
	}
	errRes := func(r rec, v uint64, err error) rec {
		r["err"] = err != nil
		r["r"] = L(v)
		return r
	}
	for _, fam := range strings.Split(fams, ",") {
		for i := 0; i < count; i++ {
			switch fam {
			case "arith":
				arith(i, emit, errRes)
			case "paging":
				paging(i, emit)
			default:
				panic("unknown family " + fam)
			}
		}
	}
	w.Flush()
	f.Close()
}

func arith(i int, emit func(rec), errRes func(rec, uint64, error) rec) {
	a, b := u64(), u64()
	switch i % 10 {
	case 0:
		if rng.Intn(2) == 0 {
			b = math.MaxUint64 - a + uint64(rng.Intn(3)) - 1
		}
		v, err := mathutil.AddUint64(a, b)
		emit(errRes(rec{"fn": "add64", "a": L(a), "b": L(b)}, v, err))
	case 1:
		if rng.Intn(3) != 0 {
			b = mulPartner(a)
		}
		v, err := mathutil.MultUint64(a, b)
		emit(errRes(rec{"fn": "mul64", "a": L(a), "b": L(b)}, v, err))
	case 2:
		x, y := uint32(a), uint32(b)
		if rng.Intn(2) == 0 {
			y = math.MaxUint32 - x + uint32(rng.Intn(3)) - 1
		}
		v, err := mathutil.AddUint32(x, y)
		emit(errRes(rec{"fn": "add32", "a": L(uint64(x)), "b": L(uint64(y))}, uint64(v), err))
	case 3:
		v, err := mathutil.Uint64ToInt64(a)
		if v < 0 {
			panic("negative result")
		}
		emit(errRes(rec{"fn": "u2i", "a": L(a)}, uint64(v), err))
	case 4:
		x := int64(a)
		mag := new(big.Int).Abs(big.NewInt(x))
		v, err := mathutil.Int64ToUint64(x)
		emit(errRes(rec{"fn": "i2u", "neg": x < 0, "a": limbsBig(mag)}, v, err))
	case 5:
		x := int(int64(a))
		mag := new(big.Int).Abs(big.NewInt(int64(x)))
		v, err := mathutil.IntToUint32(x)
		emit(errRes(rec{"fn": "int2u32", "neg": x < 0, "a": limbsBig(mag)}, uint64(v), err))
	case 6:
		burn := uint32(b)
		if burn == 0 || rng.Intn(2) == 0 {
			burn = uint32(rng.Intn(100) + 1)
		}
		emit(rec{"fn": "reqfee", "a": L(a), "b": L(uint64(burn)), "r": L(fee.RequiredFee(a, burn))})
		emit(rec{"fn": "remaining", "a": L(a), "b": L(uint64(burn)), "r": L(fee.RemainingHours(a, burn))})
	case 7:
		burn := uint32(rng.Intn(20) + 1)
		if rng.Intn(4) == 0 {
			burn = uint32(b) | 1
		}
		hours, fe := a, b
		switch rng.Intn(4) {
		case 0: // at the required-fee boundary
			hours = a >> uint(rng.Intn(40)+1)
			total := hours
			req := fee.RequiredFee(total, burn)
			fe = req + uint64(rng.Intn(3)) - 1
			if hours >= fe {
				hours -= fe
			}
		case 1:
			fe = uint64(rng.Intn(3))
		case 2:
			fe = math.MaxUint64 - hours + uint64(rng.Intn(3)) - 1
		}
		e := fee.VerifyTransactionFeeForHours(hours, fe, burn)
		res := "ok"
		switch {
		case e == nil:
		case e == fee.ErrTxnNoFee:
			res = "nofee"
		case e == fee.ErrTxnInsufficientFee:
			res = "insufficient"
		case e.Error() == "Hours and fee overflow":
			res = "overflow"
		default:
			res = "other:" + e.Error()
		}
		emit(rec{"fn": "verifyfee", "a": L(hours), "fee": L(fe), "b": L(uint64(burn)), "res": res})
	default:
		var ux coin.UxOut
		ux.Head.Time = u64()
		coins, hours, t := u64(), u64(), u64()
		switch rng.Intn(6) {
		case 0: // realistic
			coins = uint64(rng.Int63n(100e12))
			hours = uint64(rng.Int63n(1e12))
			ux.Head.Time = uint64(1.4e9 + rng.Int63n(1e9))
			t = ux.Head.Time + uint64(rng.Int63n(1e9))
		case 1: // whole-coin seconds at the 2^64 boundary
			whole := (rng.Uint64() >> uint(rng.Intn(50)+8)) + 1
			coins = whole*1e6 + uint64(rng.Intn(1e6))
			secs := math.MaxUint64/whole + uint64(rng.Intn(3)) - 1
			ux.Head.Time = uint64(rng.Intn(1000))
			t = ux.Head.Time + secs
			hours = uint64(rng.Intn(1000))
		case 2: // droplet seconds at the boundary
			rem := uint64(rng.Intn(999999) + 1)
			coins = rem
			if rng.Intn(2) == 0 {
				coins += uint64(rng.Intn(3)) * 1e6
			}
			secs := math.MaxUint64/rem + uint64(rng.Intn(3)) - 1
			ux.Head.Time = 0
			t = secs
			hours = uint64(rng.Intn(1000))
		case 3: // final sum at the boundary
			coins = uint64(rng.Int63n(1e15))
			ux.Head.Time = uint64(rng.Intn(1e6))
			t = ux.Head.Time + uint64(rng.Int63n(1e10))
			var tmp coin.UxOut
			tmp.Head.Time, tmp.Body.Coins = ux.Head.Time, coins
			earned, _ := tmp.CoinHours(t)
			hours = math.MaxUint64 - earned + uint64(rng.Intn(3)) - 1
		case 4: // whole-coin seconds just fit, the droplet part pushes the sum over
			whole := (rng.Uint64() >> uint(rng.Intn(30)+30)) + 1
			secs := math.MaxUint64 / whole
			coins = whole*1e6 + uint64(rng.Intn(1e6))
			ux.Head.Time = 0
			t = secs
			hours = uint64(rng.Intn(10))
		}
		ux.Body.Coins, ux.Body.Hours = coins, hours
		v, err := ux.CoinHours(t)
		emit(errRes(rec{"fn": "coinhours", "coins": L(coins), "hours": L(hours), "uxtime": L(ux.Head.Time), "t": L(t)}, v, err))
	}
}

func paging(i int, emit func(rec)) {
	size, page, n := uint64(rng.Intn(101)), u64(), uint64(rng.Intn(400))
	switch rng.Intn(4) {
	case 0:
		page = uint64(rng.Intn(8))
	case 1:
		if size > 0 {
			page = n/size + uint64(rng.Intn(4))
		}
	case 2: // page numbers whose start offset wraps 2^64
		if size > 0 {
			page = math.MaxUint64/size + uint64(rng.Intn(5)) - 1
			if rng.Intn(2) == 0 {
				page = (uint64(1) << uint(64-rng.Intn(8))) / size * uint64(rng.Intn(3)+1) + uint64(rng.Intn(3))
			}
		}
	}
	if rng.Intn(8) == 0 {
		// any list length a Go slice can have (len is an int): n <= 2^63-1
		n = u64() >> 1
	}
	var start, end, total uint64
	var err error
	pi, perr := visor.NewPageIndex(size, page)
	if perr != nil {
		// the constructor refuses size 0, page 0 and size > MaxTxnPageSize; Cal itself also guards
		var z visor.PageIndex
		_ = z
		emit(rec{"fn": "cal", "size": L(size), "page": L(page), "n": L(n), "err": true, "start": L(0), "end": L(0), "total": L(0),
			"ctor": fmt.Sprint(perr)})
		if size != 0 && page != 0 && size <= visor.MaxTxnPageSize {
			panic("constructor refused a valid page index")
		}
		return
	}
	start, end, total, err = pi.Cal(n)
	emit(rec{"fn": "cal", "size": L(size), "page": L(page), "n": L(n), "err": err != nil, "start": L(start), "end": L(end), "total": L(total)})
}
