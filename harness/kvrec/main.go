// kvrec records operation sequences on a real kvstorage.Manager (with restarts) for specs/kv/KVRecords.tla:
//   kvrec <out.ndjson> <seed> <sequences>
// One record per operation: abstract state before (API flag, loaded maps, file contents read back from the directory), the
// operation, its result, the state after.
package main

import (
	"bufio"
	"encoding/json"
	"io/ioutil"
	"log"
	"math/rand"
	"os"
	"path/filepath"
	"sort"
	"strconv"

	"github.com/skycoin/skycoin/src/kvstorage"
	"github.com/skycoin/skycoin/src/util/logging"
)

type rec map[string]interface{}

var types = []kvstorage.Type{kvstorage.TypeTxIDNotes, kvstorage.TypeGeneral}

func pairs(m map[string]string) [][]string {
	out := [][]string{}
	for k, v := range m {
		out = append(out, []string{k, v})
	}
	sort.Slice(out, func(i, j int) bool { return out[i][0] < out[j][0] })
	return out
}

func class(err error) string {
	switch err {
	case nil:
		return "ok"
	case kvstorage.ErrStorageAPIDisabled:
		return "disabled"
	case kvstorage.ErrNoSuchStorage:
		return "not-loaded"
	case kvstorage.ErrStorageAlreadyLoaded:
		return "already-loaded"
	case kvstorage.ErrUnknownKVStorageType:
		return "unknown-type"
	case kvstorage.ErrNoSuchKey:
		return "no-such-key"
	}
	return "other:" + err.Error()
}

// the abstract state: what the manager answers for every type, and what the files hold
func state(m *kvstorage.Manager, dir string, api bool) rec {
	mem, disk := rec{}, rec{}
	for _, t := range types {
		all, err := m.GetAllStorageValues(t)
		if err == nil {
			mem[string(t)] = rec{"loaded": true, "m": pairs(all)}
		} else {
			mem[string(t)] = rec{"loaded": false, "m": [][]string{}}
		}
		raw, err := ioutil.ReadFile(filepath.Join(dir, string(t)+".json"))
		if err != nil {
			disk[string(t)] = rec{"file": false, "m": [][]string{}}
			continue
		}
		var d map[string]string
		if err := json.Unmarshal(raw, &d); err != nil {
			disk[string(t)] = rec{"file": true, "m": [][]string{{"<unreadable>", err.Error()}}}
			continue
		}
		disk[string(t)] = rec{"file": true, "m": pairs(d)}
	}
	return rec{"api": api, "mem": mem, "disk": disk}
}

func main() {
	if len(os.Args) < 4 {
		log.Fatal("usage: kvrec <out.ndjson> <seed> <sequences>")
	}
	logging.Disable()
	seed, _ := strconv.ParseInt(os.Args[2], 10, 64)
	count, _ := strconv.Atoi(os.Args[3])
	rng := rand.New(rand.NewSource(seed))
	f, err := os.Create(os.Args[1])
	if err != nil {
		log.Fatal(err)
	}
	w := bufio.NewWriter(f)
	enc := json.NewEncoder(w)
	keys := []string{"k1", "k2", "", "a key with spaces", "é世", "k\"q"}
	vals := []string{"v1", "v2", "", "{\"json\":1}", "line\nbreak"}
	tnames := []string{"txid", "client", "bogus", ""}
	for s := 0; s < count; s++ {
		dir, err := ioutil.TempDir("", "verifkv")
		if err != nil {
			log.Fatal(err)
		}
		api := true
		mk := func(api bool, enabled []kvstorage.Type) *kvstorage.Manager {
			m, err := kvstorage.NewManager(kvstorage.Config{StorageDir: dir, EnabledStorages: enabled, EnableStorageAPI: api})
			if err != nil {
				log.Fatal("NewManager: ", err)
			}
			return m
		}
		m := mk(true, nil)
		for step := 0; step < 30; step++ {
			pre := state(m, dir, api)
			t := tnames[rng.Intn(len(tnames))]
			if rng.Intn(3) > 0 {
				t = tnames[rng.Intn(2)]
			}
			k, v := keys[rng.Intn(len(keys))], vals[rng.Intn(len(vals))]
			r := rec{"fn": "kv", "seq": s, "step": step, "t": t, "k": k, "v": v, "val": "", "all": [][]string{}, "enabled": []string{}, "newApi": api}
			var opErr error
			switch x := rng.Intn(14); {
			case x < 2:
				r["op"] = "load"
				opErr = m.LoadStorage(kvstorage.Type(t))
			case x < 3:
				r["op"] = "unload"
				opErr = m.UnloadStorage(kvstorage.Type(t))
			case x < 7:
				r["op"] = "add"
				opErr = m.AddStorageValue(kvstorage.Type(t), k, v)
			case x < 9:
				r["op"] = "remove"
				opErr = m.RemoveStorageValue(kvstorage.Type(t), k)
			case x < 11:
				r["op"] = "get"
				var val string
				val, opErr = m.GetStorageValue(kvstorage.Type(t), k)
				r["val"] = val
			case x < 12:
				r["op"] = "getall"
				var all map[string]string
				all, opErr = m.GetAllStorageValues(kvstorage.Type(t))
				r["all"] = pairs(all)
			default:
				r["op"] = "restart"
				var en []kvstorage.Type
				ens := []string{}
				for _, tt := range types {
					if rng.Intn(2) == 0 {
						en = append(en, tt)
						ens = append(ens, string(tt))
					}
				}
				api = rng.Intn(5) > 0
				r["enabled"], r["newApi"] = ens, api
				m = mk(api, en)
			}
			r["res"], r["pre"], r["post"] = class(opErr), pre, state(m, dir, api)
			if err := enc.Encode(r); err != nil {
				log.Fatal(err)
			}
		}
		os.RemoveAll(dir)
	}
	w.Flush()
	f.Close()
}
