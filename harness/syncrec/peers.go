package main

// Mode "peers": the peer exchange sub-protocol (GETP / GIVP) of a real node behind a real TCP socket, one record per message
// for specs/pex/PeerWireRecords.tla: the node's exchangeable peer list before, the message (addresses with the class they were
// built from), what the node sent back before the PONG barrier, the list after.  C26 over the wire.

import (
	"encoding/binary"
	"fmt"
	"log"
	"net"
	"os"
	"path/filepath"
	"reflect"
	"sort"
	"time"
	"unsafe"

	"github.com/skycoin/skycoin/src/cipher/encoder"
	"github.com/skycoin/skycoin/src/daemon/pex"
)

type ipAddr struct {
	IP   uint32
	Port uint16
}

type givp struct {
	Peers []ipAddr
}

// the daemon's peer list is not exported: reach the *pex.Pex behind the unexported field (read-only use of its exported methods)
func pexOf(n *node) *pex.Pex {
	f := reflect.ValueOf(n.d).Elem().FieldByName("pex")
	return (*pex.Pex)(unsafe.Pointer(f.Pointer()))
}

func peerList(n *node) []string {
	px := pexOf(n)
	seen := map[string]bool{}
	for _, p := range append(px.Random(0), px.AllTrusted()...) {
		seen[p.Addr] = true
	}
	out := []string{}
	for a := range seen {
		out = append(out, a)
	}
	sort.Strings(out)
	return out
}

func runPeers(dir string, c *chain, id int, steps int, max int) {
	pexMax = max
	dir = filepath.Join(dir, fmt.Sprintf("peers-%d", id)) // its own peers.json: a list saved by an earlier run would start this one full
	if err := os.MkdirAll(dir, 0700); err != nil {
		log.Fatal(err)
	}
	n := startNode(dir, c, 10*time.Hour)
	defer n.close()
	p, _, closed := introduce(n, c)
	defer p.c.Close()
	if closed {
		log.Fatal("proper introduction refused")
	}
	type ipc struct{ ip, class string }
	ips := []ipc{{"8.8.8.8", "unicast4"}, {"10.0.0.5", "unicast4"}, {"192.168.1.7", "unicast4"}, {"52.1.2.3", "unicast4"}, {"172.16.9.9", "unicast4"}, {"8.8.4.4", "unicast4"},
		{"9.9.9.9", "unicast4"}, {"1.1.1.1", "unicast4"}, {"127.0.0.1", "loopback"}, {"127.9.8.7", "loopback"}, {"0.0.0.0", "unspecified"}, {"224.0.0.1", "multicast"},
		{"255.255.255.255", "broadcast"}, {"169.254.1.1", "linklocal"}}
	ports := []int{6000, 6001, 1024, 65535, 1023, 0, 80, 7000, 7001}
	for step := 0; step < steps; step++ {
		pre := peerList(n)
		kind := "GIVP"
		if rng.Intn(4) == 0 {
			kind = "GETP"
		}
		items := []rec{}
		var body []byte
		if kind == "GIVP" {
			var g givp
			for i := 0; i < 1+rng.Intn(6); i++ {
				x := ips[rng.Intn(len(ips))]
				if rng.Intn(2) == 0 {
					x = ips[rng.Intn(8)]
				}
				port := ports[rng.Intn(len(ports))]
				if rng.Intn(2) == 0 {
					port = ports[rng.Intn(4)]
				}
				ip := net.ParseIP(x.ip).To4()
				g.Peers = append(g.Peers, ipAddr{IP: binary.BigEndian.Uint32(ip), Port: uint16(port)})
				items = append(items, rec{"clean": fmt.Sprintf("%s:%d", x.ip, port), "class": x.class, "port": port})
			}
			body = encoder.Serialize(g)
		}
		if err := p.send(kind, body); err != nil {
			break
		}
		got, closed := p.barrier()
		sent := []rec{}
		for _, m := range got {
			r := rec{"id": m.ID, "peers": []string{}}
			if m.ID == "GIVP" {
				var g givp
				if _, err := encoder.DeserializeRaw(m.Body, &g); err == nil {
					ps := []string{}
					for _, a := range g.Peers {
						b := make([]byte, 4)
						binary.BigEndian.PutUint32(b, a.IP)
						ps = append(ps, fmt.Sprintf("%s:%d", net.IP(b).String(), a.Port))
					}
					r["peers"] = ps
				}
			}
			sent = append(sent, r)
		}
		emit(rec{"fn": "peers", "run": id, "step": step, "msg": kind, "items": items, "pre": pre, "post": peerList(n), "sent": sent, "closed": closed, "max": max, "allowLocal": true,
			"replyCount": n.dcfg.Pex.ReplyCount})
		if closed {
			break
		}
	}
}
