// Command syncrec drives a REAL node (daemon.Daemon + visor.Visor on a bolt file, listening on 127.0.0.1) as its
// only peer over a real TCP connection and records what it does (C33 syncing, C25 introduction gate):
//
//	sync   <scripts.json>: after a proper introduction the peer sends GIVB messages (publisher blocks in any order, duplicated,
//	       split, forged, not extending) as scripted (scripts come from TLC behaviours of specs/sync/GenSync, or are drawn
//	       from the seed); after each message and a PING/PONG barrier the follower's head, its chain and the messages it
//	       sent are logged: one record per message for specs/sync/SyncRecords.tla
//	intro  introductions over the decision table (mirror, version, extra-bytes classes) and every message type as the
//	       first message of a fresh connection: one record per connection
//
// The peer frames messages itself ([len32][id][body]) and encodes bodies with the reflection encoder.
// Usage: syncrec <out.ndjson> <seed> <count> <sync|intro|converge|gossip|peers> [scripts.json]
package main

import (
	"bufio"
	"encoding/binary"
	"encoding/json"
	"fmt"
	"io"
	"io/ioutil"
	"log"
	"math/rand"
	"net"
	"os"
	"path/filepath"
	"sort"
	"strconv"
	"strings"
	"time"

	"github.com/skycoin/skycoin/src/cipher"
	"github.com/skycoin/skycoin/src/cipher/encoder"
	"github.com/skycoin/skycoin/src/coin"
	"github.com/skycoin/skycoin/src/daemon"
	"github.com/skycoin/skycoin/src/daemon/gnet"
	"github.com/skycoin/skycoin/src/params"
	"github.com/skycoin/skycoin/src/util/logging"
	"github.com/skycoin/skycoin/src/util/useragent"
	"github.com/skycoin/skycoin/src/visor"
)

type rec map[string]interface{}

var rng *rand.Rand
var enc *json.Encoder

var flush = func() {}

func emit(r rec) {
	if err := enc.Encode(r); err != nil {
		log.Fatal(err)
	}
	flush()
}

const genesisTime = uint64(1000000)
const volume = uint64(100e12)

type chain struct {
	osec   cipher.SecKey
	oaddr  cipher.Address
	pub    cipher.PubKey
	sec    cipher.SecKey
	other  cipher.SecKey
	blocks []coin.SignedBlock // blocks[0] = genesis
	cfg    visor.Config
}

// a publisher visor makes n blocks (one transaction each) on a scratch database
func makeChain(dir string, n int) *chain {
	pub, sec, _ := cipher.GenerateDeterministicKeyPair([]byte(fmt.Sprintf("publisher-%d", rng.Int63())))
	_, other, _ := cipher.GenerateDeterministicKeyPair([]byte("someone else"))
	op, osec, _ := cipher.GenerateDeterministicKeyPair([]byte(fmt.Sprintf("owner-%d", rng.Int63())))
	addr := cipher.AddressFromPubKey(op)
	cfg := visor.NewConfig()
	cfg.BlockchainPubkey = pub
	cfg.GenesisAddress = addr
	cfg.GenesisTimestamp = genesisTime
	cfg.GenesisCoinVolume = volume
	cfg.Distribution = params.MainNetDistribution
	pcfg := cfg
	pcfg.IsBlockPublisher = true
	pcfg.Arbitrating = true
	pcfg.BlockchainSeckey = sec
	db, err := visor.OpenDB(filepath.Join(dir, "pub.db"), false)
	if err != nil {
		log.Fatal(err)
	}
	defer db.Close()
	v, err := visor.New(pcfg, db, nil)
	if err != nil {
		log.Fatal(err)
	}
	if err := v.Init(); err != nil {
		log.Fatal(err)
	}
	c := &chain{pub: pub, sec: sec, other: other, osec: osec, oaddr: addr}
	gb, err := v.GetSignedBlockBySeq(0)
	if err != nil || gb == nil {
		log.Fatal("no genesis")
	}
	c.blocks = append(c.blocks, *gb)
	now := genesisTime
	for i := 0; i < n; i++ {
		now += 3600 * uint64(10+rng.Intn(50))
		uxs, _ := v.GetAllUnspentOutputs()
		head := c.blocks[len(c.blocks)-1]
		var in coin.UxOut
		found := false
		for _, ux := range uxs {
			if h, err := ux.CoinHours(head.Head.Time); err == nil && h >= 4 && ux.Body.Coins > in.Body.Coins {
				in, found = ux, true
			}
		}
		if !found {
			log.Fatal("no spendable output")
		}
		h, _ := in.CoinHours(head.Head.Time)
		var txn coin.Transaction
		_ = txn.PushInput(in.Hash())
		txn.Out = append(txn.Out, coin.TransactionOutput{Address: addr, Coins: in.Body.Coins - 1e6, Hours: h / 4},
			coin.TransactionOutput{Address: addr, Coins: 1e6, Hours: h / 8})
		txn.SignInputs([]cipher.SecKey{osec})
		_ = txn.UpdateHeader()
		b, err := v.CreateBlockFromTxns(coin.Transactions{txn}, now)
		if err != nil {
			log.Fatal(err)
		}
		sb := coin.SignedBlock{Block: b, Sig: cipher.MustSignHash(b.HashHeader(), sec)}
		if err := v.ExecuteSignedBlock(sb); err != nil {
			log.Fatal(err)
		}
		c.blocks = append(c.blocks, sb)
	}
	cfg.GenesisSignature = gb.Sig
	c.cfg = cfg
	return c
}

type node struct {
	d      *daemon.Daemon
	v      *visor.Visor
	close  func()
	port   int
	mirror uint32
	dcfg   daemon.Config
	pub    cipher.PubKey
}

func freePort() int {
	l, err := net.Listen("tcp", "127.0.0.1:0")
	if err != nil {
		log.Fatal(err)
	}
	defer l.Close()
	return l.Addr().(*net.TCPAddr).Port
}

var pexMax int // > 0: the peer list bound of the next node (mode peers)

func startNode(dir string, c *chain, blocksRequestRate time.Duration) *node {
	db, err := visor.OpenDB(filepath.Join(dir, fmt.Sprintf("f-%d.db", rng.Int63())), false)
	if err != nil {
		log.Fatal(err)
	}
	// every third node is itself configured as a block publisher (a standby or restarted publisher catching up from its
	// peers): what it is sent is judged by the same rules; its own block-making timer never fires here
	vcfg := c.cfg
	if rng.Intn(3) == 0 {
		vcfg.IsBlockPublisher = true
		vcfg.BlockchainSeckey = c.sec
		vcfg.Arbitrating = rng.Intn(2) == 0
	}
	v, err := visor.New(vcfg, db, nil)
	if err != nil {
		log.Fatal(err)
	}
	if err := v.Init(); err != nil {
		log.Fatal(err)
	}
	dc := daemon.NewConfig()
	dc.Daemon.Address = "127.0.0.1"
	dc.Daemon.LocalhostOnly = true
	dc.Daemon.Port = freePort()
	dc.Daemon.DataDirectory = dir
	dc.Daemon.DisableOutgoingConnections = true
	dc.Daemon.BlockchainPubkey = c.pub
	dc.Daemon.GenesisHash = c.blocks[0].HashHeader()
	dc.Daemon.UserAgent = useragent.Data{Coin: "skycoin", Version: "0.27.0"}
	dc.Daemon.Mirror = 0x5ca1ab1e
	hours := 10 * time.Hour
	dc.Daemon.OutgoingRate, dc.Daemon.OutgoingTrustedRate = hours, hours
	dc.Daemon.BlocksRequestRate, dc.Daemon.BlocksAnnounceRate = blocksRequestRate, hours
	dc.Daemon.UnconfirmedRefreshRate, dc.Daemon.UnconfirmedRemoveInvalidRate = hours, hours
	dc.Daemon.FlushAnnouncedTxnsRate, dc.Daemon.CullInvalidRate = hours, hours
	dc.Daemon.IntroductionWait = 30 * time.Second
	dc.Daemon.BlockCreationInterval = 360000 // seconds
	dc.Daemon.IPCountsMax = 1000
	dc.Daemon.UnconfirmedVerifyTxn = params.UserVerifyTxn
	dc.Daemon.MaxBlockTransactionsSize = c.cfg.MaxBlockTransactionsSize
	dc.Pool.PingRate, dc.Pool.IdleLimit, dc.Pool.IdleCheckRate = hours, hours, hours
	dc.Pex.DataDirectory = dir
	dc.Pex.DownloadPeerList = false
	dc.Pex.AllowLocalhost = true
	dc.Pex.RequestRate, dc.Pex.CullRate, dc.Pex.ClearOldRate = hours, hours, hours
	dc.Pex.DefaultConnections = nil
	if pexMax > 0 {
		dc.Pex.Max = pexMax
	}
	gnet.EraseMessages() // daemon.New registers the message types in a process-wide table; one node at a time lives here
	d, err := daemon.New(dc, v)
	if err != nil {
		log.Fatal(err)
	}
	done := make(chan struct{})
	go func() {
		if err := d.Run(); err != nil {
			log.Printf("daemon.Run: %v", err)
		}
		close(done)
	}()
	// wait until it accepts connections
	for i := 0; i < 200; i++ {
		cn, err := net.DialTimeout("tcp", fmt.Sprintf("127.0.0.1:%d", dc.Daemon.Port), 200*time.Millisecond)
		if err == nil {
			cn.Close()
			break
		}
		time.Sleep(20 * time.Millisecond)
	}
	time.Sleep(50 * time.Millisecond)
	return &node{d: d, v: v, port: dc.Daemon.Port, mirror: dc.Daemon.Mirror, dcfg: dc, pub: c.pub, close: func() {
		d.Shutdown()
		<-done
		db.Close()
	}}
}

// ---------------------------------------------------------------------------------------------- the peer

type peer struct {
	c net.Conn
	r *bufio.Reader
}

type msg struct {
	ID   string
	Body []byte
}

func dial(n *node) *peer {
	c, err := net.DialTimeout("tcp", fmt.Sprintf("127.0.0.1:%d", n.port), 2*time.Second)
	if err != nil {
		log.Fatal(err)
	}
	return &peer{c: c, r: bufio.NewReader(c)}
}

func frame(id string, body []byte) []byte {
	b := make([]byte, 4, 8+len(body))
	binary.LittleEndian.PutUint32(b, uint32(4+len(body)))
	b = append(b, []byte(id)...)
	return append(b, body...)
}

var lastSent string

func (p *peer) send(id string, body []byte) error {
	if id != "PING" {
		lastSent = fmt.Sprintf("%s %x", id, body)
		if len(lastSent) > 400 {
			lastSent = lastSent[:400]
		}
		fmt.Fprintln(os.Stderr, "SENDING", lastSent)
	}
	_, err := p.c.Write(frame(id, body))
	return err
}

// next message, or closed = true when the node closed the connection, or timeout
func (p *peer) recv(d time.Duration) (m msg, closed bool, timeout bool) {
	_ = p.c.SetReadDeadline(time.Now().Add(d))
	var l [4]byte
	if _, err := io.ReadFull(p.r, l[:]); err != nil {
		if ne, ok := err.(net.Error); ok && ne.Timeout() {
			return msg{}, false, true
		}
		return msg{}, true, false
	}
	n := binary.LittleEndian.Uint32(l[:])
	if n < 4 || n > 1<<24 {
		return msg{}, true, false
	}
	b := make([]byte, n)
	if _, err := io.ReadFull(p.r, b); err != nil {
		return msg{}, true, false
	}
	return msg{ID: string(b[:4]), Body: b[4:]}, false, false
}

// PING, then everything up to the PONG (the node handles one connection's messages in order, so the PONG proves that
// everything sent before was processed).  closed = the node closed the connection instead.
func (p *peer) barrier() (got []msg, closed bool) {
	if err := p.send("PING", nil); err != nil {
		closed = true
	}
	for {
		m, cl, to := p.recv(30 * time.Second)
		if cl {
			return got, true
		}
		if to {
			return got, closed
		}
		if m.ID == "PONG" {
			return got, false
		}
		got = append(got, m)
	}
}

type introMsg struct {
	Mirror          uint32
	ListenPort      uint16
	ProtocolVersion int32
	Extra           []byte `enc:",omitempty"`
}

func goodExtra(c *chain) []byte {
	b := append([]byte{}, c.pub[:]...)
	b = append(b, encoder.Serialize(params.VerifyTxn{BurnFactor: 10, MaxTransactionSize: 32768, MaxDropletPrecision: 3})...)
	b = append(b, encoder.SerializeString("skycoin:0.27.0")...)
	h := c.blocks[0].HashHeader()
	return append(b, h[:]...)
}

func describe(ms []msg) []rec {
	out := []rec{}
	for _, m := range ms {
		r := rec{"id": m.ID, "n": 0, "req": 0}
		switch m.ID {
		case "GETB":
			if len(m.Body) >= 16 {
				r["n"], r["req"] = binary.LittleEndian.Uint64(m.Body[:8]), binary.LittleEndian.Uint64(m.Body[8:16])
			}
		case "ANNB":
			if len(m.Body) >= 8 {
				r["n"] = binary.LittleEndian.Uint64(m.Body[:8])
			}
		case "DISC":
			if len(m.Body) >= 2 {
				r["n"] = binary.LittleEndian.Uint16(m.Body[:2])
			}
		}
		out = append(out, r)
	}
	return out
}

// connect and introduce properly; returns the peer and the messages the node sent (its INTR, then GETB ...)
func introduce(n *node, c *chain) (*peer, []msg, bool) {
	p := dial(n)
	_ = p.send("INTR", encoder.Serialize(introMsg{Mirror: 7, ListenPort: 6001, ProtocolVersion: 2, Extra: goodExtra(c)}))
	got, closed := p.barrier()
	return p, got, closed
}

// ---------------------------------------------------------------------------------------------- sync (C33)

type item struct {
	Seq  int    `json:"seq"`
	Kind string `json:"kind"`
}

func (c *chain) concrete(it item, followerChain []string) coin.SignedBlock {
	if it.Seq < 1 || it.Seq >= len(c.blocks) {
		it.Seq = len(c.blocks) - 1
	}
	b := c.blocks[it.Seq]
	switch it.Kind {
	case "forged":
		b.Sig = cipher.MustSignHash(b.HashHeader(), c.other)
	case "alien":
		rng.Read(b.Head.PrevHash[:])
		b.Sig = cipher.MustSignHash(b.HashHeader(), c.sec)
	case "rebodied":
		// the publisher's genuine header and signature over another, individually valid, body: the same input spent
		// to differently divided outputs (signed by the owner of the input)
		old := b.Body.Transactions[0]
		var txn coin.Transaction
		_ = txn.PushInput(old.In[0])
		txn.Out = append(txn.Out, coin.TransactionOutput{Address: c.oaddr, Coins: old.Out[0].Coins - 1e6, Hours: old.Out[0].Hours / 2},
			coin.TransactionOutput{Address: c.oaddr, Coins: old.Out[1].Coins + 1e6, Hours: old.Out[1].Hours})
		txn.SignInputs([]cipher.SecKey{c.osec})
		_ = txn.UpdateHeader()
		b.Body = coin.BlockBody{Transactions: coin.Transactions{txn}}
	}
	return b
}

type givb struct {
	Blocks []coin.SignedBlock
}

func headOf(n *node) (uint64, []string) {
	seq, _, err := n.v.HeadBkSeq()
	if err != nil {
		log.Fatal(err)
	}
	hs := []string{}
	for i := uint64(0); i <= seq; i++ {
		b, err := n.v.GetSignedBlockBySeq(i)
		if err != nil || b == nil {
			log.Fatal("chain hole")
		}
		h := b.HashHeader().Hex()
		if n.pub != (cipher.PubKey{}) && b.VerifySignature(n.pub) != nil {
			h = "stored-with-a-signature-that-is-not-the-publisher's:" + h // never equal to a publisher block's hash
		}
		hs = append(hs, h)
	}
	return seq, hs
}

func runSyncScript(dir string, c *chain, id int, script [][]item, source string) {
	n := startNode(dir, c, 10*time.Hour)
	defer n.close()
	p, got, closed := introduce(n, c)
	defer p.c.Close()
	if closed {
		log.Fatal("proper introduction refused")
	}
	emit(rec{"fn": "introduced", "script": id, "sent": describe(got)})
	for step, items := range script {
		pre, _ := headOf(n)
		var m givb
		for _, it := range items {
			m.Blocks = append(m.Blocks, c.concrete(it, nil))
		}
		if err := p.send("GIVB", encoder.Serialize(m)); err != nil {
			break
		}
		got, closed := p.barrier()
		post, hashes := headOf(n)
		prefix := true
		for i, h := range hashes {
			if i >= len(c.blocks) || c.blocks[i].HashHeader().Hex() != h {
				prefix = false
			}
		}
		its := []rec{}
		for _, it := range items {
			its = append(its, rec{"seq": it.Seq, "kind": it.Kind})
		}
		emit(rec{"fn": "givb", "source": source, "script": id, "step": step, "n": len(c.blocks) - 1, "pre": pre, "items": its, "post": post,
			"chainIsPublisherPrefix": prefix, "sent": describe(got), "closed": closed})
		if closed {
			break
		}
	}
}

var forcePattern bool // the next random script is the early-block pattern with a foreign signature

func randomScript(n int) [][]item {
	var s [][]item
	if forcePattern || rng.Intn(4) == 0 {
		// a genuine block arrives before its predecessor (refused for the gap), the chain catches up, and then the same block
		// comes again with a flaw: signed by another key, re-bodied, or alien - what was seen earlier must not vouch for it
		k := 2 + rng.Intn(n-1)
		for q := 1; q < k-1; q++ {
			s = append(s, []item{{q, "pub"}})
		}
		s = append(s, []item{{k, "pub"}})
		if !forcePattern && rng.Intn(3) == 0 {
			s = append(s, []item{{k, "pub"}, {k - 1, "pub"}}) // the early block first: the message ends there
		}
		s = append(s, []item{{k - 1, "pub"}})
		kind := []string{"forged", "forged", "rebodied", "alien"}[rng.Intn(4)]
		if forcePattern {
			kind = "forged"
		}
		s = append(s, []item{{k, kind}})
		s = append(s, []item{{k, "pub"}})
		forcePattern = false
		return s
	}
	for k := 0; k < 2+rng.Intn(5); k++ {
		var m []item
		switch rng.Intn(6) {
		case 0: // a proper run
			a := 1 + rng.Intn(n)
			for q := a; q <= n && q < a+1+rng.Intn(3); q++ {
				m = append(m, item{q, "pub"})
			}
		case 1: // a permutation of everything
			for _, q := range rng.Perm(n) {
				m = append(m, item{q + 1, "pub"})
			}
		default:
			for q := 0; q < 1+rng.Intn(4); q++ {
				kind := "pub"
				switch rng.Intn(9) {
				case 0:
					kind = "forged"
				case 1:
					kind = "alien"
				case 2:
					kind = "rebodied"
				}
				m = append(m, item{1 + rng.Intn(n), kind})
			}
		}
		s = append(s, m)
	}
	return s
}

// ---------------------------------------------------------------------------------------------- converge (C33, liveness side)

// the follower asks periodically (200 ms); the peer answers every GETB with the blocks above the asked head (at most k),
// but first misbehaves (loses answers, sends them twice, out of order, forged) as drawn from the seed
func runConverge(dir string, c *chain, id int) {
	n := startNode(dir, c, 200*time.Millisecond)
	defer n.close()
	p, got, closed := introduce(n, c)
	defer p.c.Close()
	if closed {
		log.Fatal("proper introduction refused")
	}
	N := len(c.blocks) - 1
	pending := got
	lost, dup, hostile := 0, 0, 0
	deadline := time.Now().Add(20 * time.Second)
	requests := 0
	for time.Now().Before(deadline) {
		head, _ := headOf(n)
		if int(head) == N {
			break
		}
		for _, m := range pending {
			if m.ID != "GETB" || len(m.Body) < 16 {
				continue
			}
			requests++
			last := int(binary.LittleEndian.Uint64(m.Body[:8]))
			var ans givb
			for q := last + 1; q <= N && q <= last+2; q++ {
				ans.Blocks = append(ans.Blocks, c.blocks[q])
			}
			switch x := rng.Intn(10); {
			case x < 3 && lost < 6:
				lost++ // the answer is lost
				continue
			case x < 5:
				dup++
				_ = p.send("GIVB", encoder.Serialize(ans))
			case x < 7 && hostile < 6:
				hostile++
				bad := givb{}
				for _, q := range rng.Perm(N) {
					bad.Blocks = append(bad.Blocks, c.concrete(item{q + 1, []string{"pub", "forged", "alien", "rebodied"}[rng.Intn(4)]}, nil))
				}
				_ = p.send("GIVB", encoder.Serialize(bad))
			}
			if len(ans.Blocks) > 0 {
				_ = p.send("GIVB", encoder.Serialize(ans))
			}
		}
		pending = nil
		m, cl, to := p.recv(400 * time.Millisecond)
		if cl {
			break
		}
		if !to {
			pending = append(pending, m)
		}
	}
	head, hashes := headOf(n)
	prefix := true
	for i, h := range hashes {
		if i >= len(c.blocks) || c.blocks[i].HashHeader().Hex() != h {
			prefix = false
		}
	}
	emit(rec{"fn": "converge", "script": id, "n": N, "head": head, "chainIsPublisherPrefix": prefix, "requestsSeen": requests, "lost": lost, "duplicated": dup, "hostile": hostile})
}

// ---------------------------------------------------------------------------------------------- intro (C25)

func runIntro(dir string, c *chain, count int) {
	n := startNode(dir, c, 10*time.Hour)
	defer n.close()
	// 1. every message type as the first message of a fresh connection
	var h cipher.SHA256
	bodies := map[string][]byte{
		"GETP": nil, "PING": nil, "PONG": nil,
		"GIVP": encoder.Serialize(struct {
			Peers []struct {
				IP   uint32
				Port uint16
			}
		}{}),
		"GETB": encoder.Serialize(struct{ A, B uint64 }{0, 10}),
		"GIVB": encoder.Serialize(givb{Blocks: []coin.SignedBlock{c.blocks[1]}}),
		"ANNB": encoder.Serialize(struct{ A uint64 }{5}),
		"GETT": encoder.Serialize(struct{ T []cipher.SHA256 }{[]cipher.SHA256{h}}),
		"GIVT": encoder.Serialize(struct{ T []coin.Transaction }{c.blocks[1].Body.Transactions}),
		"ANNT": encoder.Serialize(struct{ T []cipher.SHA256 }{[]cipher.SHA256{h}}),
		"DISC": encoder.Serialize(struct {
			Code uint16
			R    []byte
		}{6, nil}),
	}
	ids := []string{}
	for id := range bodies {
		ids = append(ids, id)
	}
	sort.Strings(ids)
	ids = append(ids, "INTR")
	for _, id := range ids {
		p := dial(n)
		var got []msg
		closed, then := false, false
		if id == "INTR" || id == "GIVP" {
			// tolerated before introduction: a proper introduction (after it) must still succeed
			if id != "INTR" {
				_ = p.send(id, bodies[id])
			}
			_ = p.send("INTR", encoder.Serialize(introMsg{Mirror: 7, ListenPort: 6002, ProtocolVersion: 2, Extra: goodExtra(c)}))
			got, closed = p.barrier()
		} else {
			// anything else: the node must close the connection (nothing more is sent; wait for the close)
			_ = p.send(id, bodies[id])
			for {
				m, cl, to := p.recv(20 * time.Second)
				if cl {
					closed = true
					break
				}
				if to {
					break
				}
				got = append(got, m)
			}
		}
		for _, m := range got {
			if m.ID == "GETB" {
				then = true
			}
		}
		headAfter, _ := headOf(n)
		emit(rec{"fn": "first", "id": id, "sent": describe(got), "closed": closed, "thenIntroduced": then, "headAfter": headAfter})
		p.c.Close()
		time.Sleep(5 * time.Millisecond)
	}
	// 2. introductions over the decision table
	for i := 0; i < count; i++ {
		in := introMsg{Mirror: 7 + uint32(rng.Intn(1000)), ListenPort: uint16(6000 + rng.Intn(50)), ProtocolVersion: 2}
		f := rec{"fn": "intro", "mirrorOurs": false, "version": 2, "minVersion": 2, "extraLen": 0, "pubkeyOK": true, "burn": 10, "maxSize": 32768, "prec": 3,
			"uaFits": true, "uaValid": true, "tailLen": 32}
		if rng.Intn(10) == 0 {
			in.Mirror, f["mirrorOurs"] = n.mirror, true
		}
		if rng.Intn(8) == 0 {
			v := []int32{1, 0, -1, 3, 100}[rng.Intn(5)]
			in.ProtocolVersion, f["version"] = v, int(v)
		}
		pk := c.pub
		if rng.Intn(8) == 0 {
			pk, _, _ = cipher.GenerateDeterministicKeyPair([]byte("another chain"))
			f["pubkeyOK"] = false
		}
		vp := params.VerifyTxn{BurnFactor: 10, MaxTransactionSize: 32768, MaxDropletPrecision: 3}
		switch rng.Intn(12) {
		case 0:
			vp.BurnFactor = uint32(rng.Intn(2))
		case 1:
			vp.MaxTransactionSize = uint32(rng.Intn(1024))
		case 2:
			vp.MaxDropletPrecision = uint8(7 + rng.Intn(3))
		case 3:
			vp = params.VerifyTxn{BurnFactor: 2, MaxTransactionSize: 1024, MaxDropletPrecision: 6}
		}
		f["burn"], f["maxSize"], f["prec"] = int(vp.BurnFactor), int(vp.MaxTransactionSize), int(vp.MaxDropletPrecision)
		ua := "skycoin:0.27.0"
		if rng.Intn(8) == 0 {
			// invalid even after sanitising; the last three have the right shape but are not semantic versions (leading zeros)
			ua = []string{"", "skycoin", "skycoin:x.y.z", ":0.27.0", "skycoin:0.27", "skycoin:0.25.01", "skycoin:01.2.3", "skycoin:0.027.0"}[rng.Intn(8)]
			f["uaValid"] = false
		}
		switch rng.Intn(16) {
		case 0:
			// characters that sanitising removes, scattered through a valid agent: still valid, as long as the field fits
			if f["uaValid"].(bool) {
				junk := []string{"<", ">", "&", "\"", "'", "#", "@", "|", "{", "}", "`", "\x01", "\x7f", "\xc3\xa9"}
				b := ""
				for _, ch := range ua {
					if rng.Intn(3) == 0 {
						b += junk[rng.Intn(len(junk))]
					}
					b += string(ch)
				}
				ua = b
			}
		case 1:
			// the field's length at its limit of 256 bytes: a remark pads a valid agent to 255 / 256 (fits), 257 / 300 (does not)
			if f["uaValid"].(bool) {
				total := []int{255, 256, 257, 300}[rng.Intn(4)]
				ua = "skycoin:0.27.0(" + strings.Repeat("r", total-len("skycoin:0.27.0()")) + ")"
				f["uaFits"] = total <= 256
			}
		case 2:
			// too long as sent, although what remains after sanitising would be a valid agent of ordinary length
			if f["uaValid"].(bool) {
				ua = ua + strings.Repeat([]string{"<", "\x01", "#"}[rng.Intn(3)], 257+rng.Intn(400))
				if rng.Intn(2) == 0 {
					ua = strings.Repeat("@", 300) + "skycoin:0.27.0"
				}
				f["uaFits"] = false
			}
		}
		uab := encoder.SerializeString(ua)
		if f["uaFits"].(bool) && rng.Intn(10) == 0 {
			// the length prefix of the user agent promises more bytes than follow, or more than the maximum
			if rng.Intn(2) == 0 {
				binary.LittleEndian.PutUint32(uab, uint32(len(ua)+1+rng.Intn(300)))
			} else {
				uab = uab[:4+rng.Intn(len(ua)+1)/2]
				binary.LittleEndian.PutUint32(uab, uint32(len(ua)+5))
			}
			f["uaFits"] = false
		}
		gh := c.blocks[0].HashHeader()
		tail := gh[:]
		switch rng.Intn(8) {
		case 0:
			tail = nil
		case 1:
			tail = tail[:1+rng.Intn(31)]
		case 2:
			tail = append(append([]byte{}, tail...), byte(rng.Intn(256))) // longer than a hash: the rest is ignored
		}
		f["tailLen"] = len(tail)
		extra := append([]byte{}, pk[:]...)
		extra = append(extra, encoder.Serialize(vp)...)
		extra = append(extra, uab...)
		if f["uaFits"].(bool) {
			extra = append(extra, tail...)
		} else {
			f["tailLen"] = 0
		}
		switch rng.Intn(12) {
		case 0:
			extra = nil
		case 1:
			extra = extra[:1+rng.Intn(32)]
		case 2:
			extra = extra[:33+rng.Intn(9)]
		}
		f["extraLen"] = len(extra)
		in.Extra = extra
		p := dial(n)
		_ = p.send("INTR", encoder.Serialize(in))
		got, closed := p.barrier()
		f["sent"], f["closed"] = describe(got), closed
		// an introduced peer is served: it is asked for blocks and a GETB of its own is answered
		emit(f)
		p.c.Close()
		time.Sleep(2 * time.Millisecond)
	}
}

func main() {
	if len(os.Args) < 5 {
		log.Fatal("usage: syncrec <out.ndjson> <seed> <count> <sync|intro|converge|gossip|peers> [scripts.json]")
	}
	if os.Getenv("VERIF_LOG") == "" {
		logging.Disable()
	}
	seed, _ := strconv.ParseInt(os.Args[2], 10, 64)
	count, _ := strconv.Atoi(os.Args[3])
	rng = rand.New(rand.NewSource(seed))
	f, err := os.Create(os.Args[1])
	if err != nil {
		log.Fatal(err)
	}
	w := bufio.NewWriterSize(f, 1<<20)
	enc = json.NewEncoder(w)
	flush = func() { w.Flush() }
	dir, err := ioutil.TempDir("", "verifsync")
	if err != nil {
		log.Fatal(err)
	}
	defer os.RemoveAll(dir)
	switch os.Args[4] {
	case "sync":
		c := makeChain(dir, 4)
		id := 0
		if len(os.Args) > 5 {
			raw, err := ioutil.ReadFile(os.Args[5])
			if err != nil {
				log.Fatal(err)
			}
			var scripts [][][]item
			if err := json.Unmarshal(raw, &scripts); err != nil {
				log.Fatal(err)
			}
			for _, s := range scripts {
				runSyncScript(dir, c, id, s, "tlc")
				id++
			}
		}
		for i := 0; i < count; i++ {
			forcePattern = i == 0
			runSyncScript(dir, c, id, randomScript(4), "seeded")
			id++
		}
	case "converge":
		c := makeChain(dir, 5)
		for i := 0; i < count; i++ {
			runConverge(dir, c, i)
		}
	case "intro":
		c := makeChain(dir, 1)
		runIntro(dir, c, count)
	case "peers":
		c := makeChain(dir, 1)
		for i := 0; i < count; i++ {
			runPeers(dir, c, i, 20, []int{4, 6, 9, 1000}[rng.Intn(4)])
		}
	case "gossip":
		c := makeChain(dir, 4)
		for i := 0; i < count; i++ {
			runGossip(dir, c, i, 25)
		}
	default:
		log.Fatal("unknown mode")
	}
	w.Flush()
	f.Close()
}
