package main

// Mode "gossip": the transaction gossip sub-protocol (ANNT / GETT / GIVT) of a real node behind a real TCP socket, one record
// per message for specs/sync/GossipRecords.tla: the node's pool before, the message, everything the node sent back up to the
// PONG barrier, the pool after.  (Not one of the listed properties: the specification grows beyond them.)

import (
	"fmt"
	"log"
	"sort"
	"time"

	"github.com/skycoin/skycoin/src/cipher"
	"github.com/skycoin/skycoin/src/cipher/encoder"
	"github.com/skycoin/skycoin/src/coin"
)

type hashesMsg struct {
	Transactions []cipher.SHA256
}

type givt struct {
	Transactions []coin.Transaction
}

type gtxn struct {
	t     coin.Transaction
	class string // valid | soft | hard
	kind  string
}

func poolOf(n *node) []string {
	txns, err := n.v.GetAllUnconfirmedTransactions()
	if err != nil {
		log.Fatal(err)
	}
	out := []string{}
	for _, t := range txns {
		out = append(out, t.Transaction.Hash().Hex())
	}
	sort.Strings(out)
	return out
}

// transactions of every class against the head of the (fully synced) node
func candidates(n *node, c *chain) []gtxn {
	uxs, err := n.v.GetAllUnspentOutputs()
	if err != nil {
		log.Fatal(err)
	}
	sort.Slice(uxs, func(i, j int) bool { return uxs[i].Hash().Hex() < uxs[j].Hash().Hex() })
	head := c.blocks[len(c.blocks)-1]
	mk := func(in coin.UxOut, hoursOutOf4 uint64, coinsOff uint64, key cipher.SecKey) coin.Transaction {
		h, _ := in.CoinHours(head.Head.Time)
		var txn coin.Transaction
		_ = txn.PushInput(in.Hash())
		txn.Out = append(txn.Out, coin.TransactionOutput{Address: c.oaddr, Coins: in.Body.Coins - coinsOff, Hours: h * hoursOutOf4 / 4})
		if coinsOff > 0 {
			txn.Out = append(txn.Out, coin.TransactionOutput{Address: c.oaddr, Coins: coinsOff, Hours: 0})
		}
		txn.SignInputs([]cipher.SecKey{key})
		_ = txn.UpdateHeader()
		return txn
	}
	var out []gtxn
	var spendable []coin.UxOut
	for _, ux := range uxs {
		if h, err := ux.CoinHours(head.Head.Time); err == nil && h >= 8 && ux.Body.Address == c.oaddr {
			spendable = append(spendable, ux)
		}
	}
	if len(spendable) < 2 {
		log.Fatal("gossip: not enough spendable outputs")
	}
	for i, ux := range spendable {
		if i >= 3 {
			break
		}
		out = append(out, gtxn{mk(ux, 1, 0, c.osec), "valid", fmt.Sprintf("valid-%d", i)})
	}
	out = append(out, gtxn{mk(spendable[0], 2, 0, c.osec), "valid", "conflict-0"}) // spends what valid-0 spends
	out = append(out, gtxn{mk(spendable[1], 4, 0, c.osec), "soft", "no-fee"})       // all hours kept: no fee
	out = append(out, gtxn{mk(spendable[0], 1, 0, c.other), "hard", "foreign-signature"})
	ghost := spendable[0]
	ghost.Body.Hours += 777
	out = append(out, gtxn{mk(ghost, 1, 0, c.osec), "hard", "unknown-input"})
	out = append(out, gtxn{c.blocks[len(c.blocks)-1].Body.Transactions[0], "hard", "already-confirmed"})
	return out
}

func hashesOf(m msg) []string {
	out := []string{}
	switch m.ID {
	case "ANNT", "GETT":
		var h hashesMsg
		if _, err := encoder.DeserializeRaw(m.Body, &h); err == nil {
			for _, x := range h.Transactions {
				out = append(out, x.Hex())
			}
		}
	case "GIVT":
		var g givt
		if _, err := encoder.DeserializeRaw(m.Body, &g); err == nil {
			for _, x := range g.Transactions {
				out = append(out, x.Hash().Hex())
			}
		}
	}
	return out
}

func runGossip(dir string, c *chain, id int, steps int) {
	n := startNode(dir, c, 10*time.Hour)
	defer n.close()
	for _, b := range c.blocks[1:] {
		if err := n.v.ExecuteSignedBlock(b); err != nil {
			log.Fatal("gossip: sync the node: ", err)
		}
	}
	p, _, closed := introduce(n, c)
	defer p.c.Close()
	if closed {
		log.Fatal("proper introduction refused")
	}
	cands := candidates(n, c)
	classOf := map[string]string{}
	for _, g := range cands {
		classOf[g.t.Hash().Hex()] = g.class
	}
	stranger := cipher.SumSHA256([]byte(fmt.Sprintf("no such transaction %d", rng.Int63())))
	for step := 0; step < steps; step++ {
		pre := poolOf(n)
		k := 1 + rng.Intn(4)
		var picked []gtxn
		for i := 0; i < k; i++ {
			picked = append(picked, cands[rng.Intn(len(cands))]) // repetitions included
		}
		kind := []string{"ANNT", "GETT", "GIVT", "GIVT"}[rng.Intn(4)]
		items := []rec{}
		var body []byte
		if kind == "GIVT" {
			var g givt
			for _, x := range picked {
				g.Transactions = append(g.Transactions, x.t)
				items = append(items, rec{"h": x.t.Hash().Hex(), "class": x.class, "kind": x.kind})
			}
			body = encoder.Serialize(g)
		} else {
			var h hashesMsg
			for _, x := range picked {
				h.Transactions = append(h.Transactions, x.t.Hash())
				items = append(items, rec{"h": x.t.Hash().Hex(), "class": x.class, "kind": x.kind})
			}
			if rng.Intn(3) == 0 {
				h.Transactions = append(h.Transactions, stranger)
				items = append(items, rec{"h": stranger.Hex(), "class": "hard", "kind": "stranger"})
			}
			body = encoder.Serialize(h)
		}
		if err := p.send(kind, body); err != nil {
			break
		}
		got, closed := p.barrier()
		sent := []rec{}
		for _, m := range got {
			sent = append(sent, rec{"id": m.ID, "hashes": hashesOf(m)})
		}
		emit(rec{"fn": "gossip", "run": id, "step": step, "msg": kind, "items": items, "pre": pre, "post": poolOf(n), "sent": sent, "closed": closed})
		if closed {
			break
		}
	}
}
