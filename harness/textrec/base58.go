package main

import (
	"crypto/sha256"
	"math/big"
	"strconv"
	"strings"

	"github.com/skycoin/skycoin/src/cipher"
	"github.com/skycoin/skycoin/src/cipher/base58"
)

const b58Alphabet = "123456789ABCDEFGHJKLMNPQRSTUVWXYZabcdefghijkmnopqrstuvwxyz"

func bytesOf(b []byte) []int {
	out := make([]int, len(b))
	for i, x := range b {
		out[i] = int(x)
	}
	return out
}

func randBytes(n int) []byte {
	b := make([]byte, n)
	rng.Read(b)
	return b
}

// long inputs whose value part is short (a run of zero bytes / of '1' characters in front): any length is a byte string
var longRuns = []int{254, 255, 256, 257, 511, 512, 513, 1022, 1023, 1024, 1025, 1026, 2047, 2048, 2049, 3000}

func someBytes() []byte {
	if rng.Intn(40) == 0 {
		return append(make([]byte, longRuns[rng.Intn(len(longRuns))]), randBytes(rng.Intn(6))...)
	}
	n := rng.Intn(41)
	switch rng.Intn(12) {
	case 0:
		n = 0
	case 1:
		n = 41 + rng.Intn(80)
	case 2:
		n = 25
	}
	b := randBytes(n)
	switch rng.Intn(6) {
	case 0: // leading zero bytes
		for i := 0; i < n && i <= rng.Intn(6); i++ {
			b[i] = 0
		}
	case 1:
		for i := range b {
			b[i] = 0xff
		}
	case 2:
		for i := range b {
			b[i] = 0
		}
	case 3: // small numbers after zeros
		for i := 0; i < n-1; i++ {
			b[i] = 0
		}
	}
	return b
}

// the reference decoding with math/big (only to feed the address checksum; TLC checks it against the definition too)
func refDecode(s string) ([]byte, bool) {
	if len(s) == 0 {
		return []byte{}, true
	}
	n := new(big.Int)
	z := 0
	lead := true
	for i := 0; i < len(s); i++ {
		k := -1
		for j := 0; j < 58; j++ {
			if b58Alphabet[j] == s[i] {
				k = j
			}
		}
		if k < 0 {
			return nil, false
		}
		if lead && k == 0 {
			z++
		} else {
			lead = false
		}
		n.Mul(n, big.NewInt(58))
		n.Add(n, big.NewInt(int64(k)))
	}
	return append(make([]byte, z), n.Bytes()...), true
}

var foreign = []string{"\u0141", "\u0261", "\u754c", "\u0131", "0", "O", "I", "l", " ", "\n", "+", "/", "=", "-", "_", "\x00", "\x7f", "\x80", "\xff", "\xc3\xa9", "\xe2\x82\xac", "\xf0\x9f\x98\x80", "\xd9\xa1"}

func mutateText(s string) string {
	b := []byte(s)
	switch rng.Intn(9) {
	case 0:
		return s
	case 1: // a foreign character somewhere
		i := rng.Intn(len(b) + 1)
		return string(b[:i]) + foreign[rng.Intn(len(foreign))] + string(b[i:])
	case 2: // replace one
		if len(b) > 0 {
			i := rng.Intn(len(b))
			return string(b[:i]) + foreign[rng.Intn(len(foreign))] + string(b[i+1:])
		}
	case 3: // leading '1's added
		return "1111"[:1+rng.Intn(4)] + s
	case 4: // leading '1's removed
		for len(b) > 0 && b[0] == '1' {
			b = b[1:]
		}
		return string(b)
	case 5: // another alphabet character at a random place (of a very long text: near its end - the definition's number
		// conversion is schoolbook arithmetic, and a digit in the middle of thousands of '1's makes all of them digits)
		if len(b) > 0 {
			i := rng.Intn(len(b))
			if len(b) > 300 {
				i = len(b) - 1 - rng.Intn(8)
			}
			b[i] = b58Alphabet[rng.Intn(58)]
		}
		return string(b)
	case 6:
		return s + foreign[rng.Intn(len(foreign))]
	case 7: // cut
		if len(b) > 0 {
			return string(b[:rng.Intn(len(b))])
		}
	}
	// a random alphabet text
	if rng.Intn(40) == 0 {
		out := []byte(strings.Repeat("1", longRuns[rng.Intn(len(longRuns))]))
		for i := rng.Intn(6); i > 0; i-- {
			out = append(out, b58Alphabet[rng.Intn(58)])
		}
		return string(out)
	}
	n := rng.Intn(60)
	if rng.Intn(8) == 0 {
		n = 100 + rng.Intn(150)
	}
	out := make([]byte, n)
	for i := range out {
		out[i] = b58Alphabet[rng.Intn(58)]
	}
	if rng.Intn(3) == 0 {
		for i := 0; i < n && i < rng.Intn(5); i++ {
			out[i] = '1'
		}
	}
	return string(out)
}

func addressBytes(key []byte, version byte, goodSum bool) []byte {
	b := append(append([]byte{}, key...), version)
	sum := sha256.Sum256(b)
	c := sum[:4]
	if !goodSum {
		c = []byte{sum[0], sum[1], sum[2], sum[3] ^ byte(1<<uint(rng.Intn(8)))}
		if rng.Intn(2) == 0 {
			c = randBytes(4)
		}
	}
	return append(b, c...)
}

func addressText() string {
	key := randBytes(20)
	switch rng.Intn(5) {
	case 0: // keys with leading zero bytes: texts with leading '1's
		for i := 0; i <= rng.Intn(4); i++ {
			key[i] = 0
		}
	case 1:
		for i := range key {
			key[i] = 0
		}
	}
	switch rng.Intn(10) {
	case 0:
		return base58.Encode(addressBytes(key, byte(1+rng.Intn(255)), true))
	case 1:
		return base58.Encode(addressBytes(key, 0, false))
	case 2:
		return base58.Encode(addressBytes(key, byte(rng.Intn(3)), rng.Intn(2) == 0))
	case 3: // wrong length with a checksum that is right for its first 21 bytes
		k := randBytes(19 + 2*rng.Intn(2))
		return base58.Encode(addressBytes(k, 0, true))
	case 4:
		return mutateText(base58.Encode(addressBytes(key, 0, true)))
	case 5:
		return base58.Encode(randBytes(25))
	case 6: // a valid address followed by more bytes, or missing its last byte
		b := addressBytes(key, 0, true)
		if rng.Intn(3) == 0 {
			return base58.Encode(b[:24])
		}
		return base58.Encode(append(b, randBytes(1+rng.Intn(4))...))
	case 7: // a code point beyond U+00FF whose low byte is an alphabet character, inside a valid address text
		t := []rune(base58.Encode(addressBytes(key, 0, true)))
		i := rng.Intn(len(t))
		t[i] = rune(0x100*(1+rng.Intn(200))) + t[i]
		return string(t)
	}
	return base58.Encode(addressBytes(key, 0, true))
}

// a decoded value must stay what it was: results handed out earlier are looked at again after later calls
type held struct {
	got  []byte // the slice that Decode returned (not copied)
	was  []byte // a copy made at once
	text string
}

func genBase58(count int) {
	var keep []held
	for i := 0; i < count; i++ {
		if len(keep) >= 8 {
			for _, h := range keep {
				emit(rec{"fn": "held", "text": codes(h.text), "was": bytesOf(h.was), "now": bytesOf(h.got)})
			}
			keep = nil
		}
		switch rng.Intn(3) {
		case 0:
			b := someBytes()
			t := base58.Encode(b)
			d, err := base58.Decode(t)
			if err == nil {
				keep = append(keep, held{got: d, was: append([]byte{}, d...), text: t})
			}
			emit(rec{"fn": "enc", "bytes": bytesOf(b), "text": codes(t), "backOk": err == nil, "back": bytesOf(d)})
		case 1:
			t := mutateText(base58.Encode(someBytes()))
			d, err := base58.Decode(t)
			e := ""
			if err != nil {
				e = err.Error()
			}
			emit(rec{"fn": "dec", "text": codes(t), "str": strconv.QuoteToASCII(t), "ok": err == nil, "bytes": bytesOf(d), "err": e})
		default:
			t := addressText()
			a, err := cipher.DecodeBase58Address(t)
			ref, refOk := refDecode(t)
			sum4 := []int{}
			if refOk && len(ref) >= 21 {
				s := sha256.Sum256(ref[:21])
				sum4 = bytesOf(s[:4])
			}
			r := rec{"fn": "addr", "text": codes(t), "str": strconv.QuoteToASCII(t), "ok": err == nil, "refOk": refOk, "ref": bytesOf(ref), "sum4": sum4,
				"key": []int{}, "version": 0, "again": []int{}, "err": ""}
			if err == nil {
				r["key"], r["version"], r["again"] = bytesOf(a.Key[:]), int(a.Version), codes(a.String())
			} else {
				r["err"] = err.Error()
			}
			emit(r)
		}
	}
}
