// textrec records calls of the real text conversions for the TLC record oracles in specs/text:
//
//	textrec <out.ndjson> <seed> <count> droplet   droplet.FromString / droplet.ToString (C30)
//	textrec <out.ndjson> <seed> <count> base58    base58.Encode / Decode, cipher address text (C15)
//
// One JSON record per call.  Texts are logged as arrays of byte values, amounts as decimal digit arrays.
package main

import (
	"bufio"
	"encoding/json"
	"fmt"
	"log"
	"math"
	"math/rand"
	"os"
	"strconv"
	"strings"
	"time"

	"github.com/skycoin/skycoin/src/util/droplet"
)

type rec map[string]interface{}

var (
	rng *rand.Rand
	w   *bufio.Writer
	enc *json.Encoder
)

func emit(r rec) {
	if err := enc.Encode(r); err != nil {
		log.Fatal(err)
	}
}

func codes(s string) []int {
	out := make([]int, len(s))
	for i := 0; i < len(s); i++ {
		out[i] = int(s[i])
	}
	return out
}

// decimal digits of n, most significant first, none for zero
func digits(n uint64) []int {
	out := []int{}
	if n == 0 {
		return out
	}
	for _, c := range strconv.FormatUint(n, 10) {
		out = append(out, int(c-'0'))
	}
	return out
}

// ---------------------------------------------------------------------------------------------- droplet (C30)

var boundaries = []uint64{0, 1, 9, 10, 999999, 1000000, 1000001, 123000456, 1e12, 1e15, 99999999999999, math.MaxInt32, math.MaxUint32,
	math.MaxInt64 - 1, math.MaxInt64, math.MaxInt64 + 1, math.MaxInt64 + 2, math.MaxUint64 - 1, math.MaxUint64, 9223372036854000000, 9223372036855000000,
	9223372036854775000, 9223372036854775800, 9223372036854775810, 1e18, 1e19}

func amount() uint64 {
	switch rng.Intn(5) {
	case 0:
		return boundaries[rng.Intn(len(boundaries))]
	case 1:
		return boundaries[rng.Intn(len(boundaries))] + uint64(rng.Intn(5)) - 2
	case 2:
		return rng.Uint64() >> uint(rng.Intn(64))
	case 3:
		return uint64(rng.Intn(1e7))
	}
	return rng.Uint64()
}

func digitRun(n int) string {
	var b strings.Builder
	for i := 0; i < n; i++ {
		switch rng.Intn(4) {
		case 0:
			b.WriteByte('0')
		case 1:
			b.WriteByte('9')
		default:
			b.WriteByte(byte('0' + rng.Intn(10)))
		}
	}
	return b.String()
}

// a decimal text near a given droplet amount: exact, one more decimal, shifted point, padded
func textNear(n uint64) string {
	ip, fp := strconv.FormatUint(n/1e6, 10), fmt.Sprintf("%06d", n%1e6)
	switch rng.Intn(10) {
	case 0:
		return ip + "." + fp
	case 1:
		return ip + "." + strings.TrimRight(fp, "0")
	case 2:
		return ip + "." + fp + strings.Repeat("0", rng.Intn(4))
	case 3:
		return ip + "." + fp + string(byte('0'+rng.Intn(10))) // a seventh decimal
	case 4:
		return strings.Repeat("0", rng.Intn(3)) + ip + "." + fp
	case 5:
		return ip + fp // droplets read as coins
	case 6:
		if n%1e6 == 0 {
			return ip
		}
		return ip + "." + fp
	case 7:
		return "." + fp
	case 8:
		return ip + "."
	}
	// a mantissa/exponent form of the same amount
	e := rng.Intn(9) - 4
	all := strings.TrimLeft(ip+fp, "0")
	if all == "" {
		all = "0"
	}
	return all + "e" + strconv.Itoa(-6+e) + ""
}

var pieces = []string{"", "0", "1", "9", ".", "-", "+", "e", "E", " ", ",", "_", "0x", "1.5", "000", "e-6", "e-7", "e6", "e12", "e13", "e19", "inf", "NaN", "\xd9\xa1", "\x00", "1e", "e1", "..", "1.2.3", "--1", "+-1"}

func text() string {
	switch rng.Intn(8) {
	case 0, 1, 2:
		return textNear(amount())
	case 3:
		return digitRun(rng.Intn(22)) + "." + digitRun(rng.Intn(9))
	case 4:
		s := ""
		for i := rng.Intn(5); i >= 0; i-- {
			s += pieces[rng.Intn(len(pieces))]
		}
		return s
	case 5:
		if rng.Intn(2) == 0 {
			// a short mantissa with an exponent around the limits: 1e7 .. 9e12 are amounts, 1e13 is too large, 1e-6 is one droplet
			return []string{"", "", "+"}[rng.Intn(3)] + digitRun(1+rng.Intn(3)) + []string{"", ".5", ".25", ".000"}[rng.Intn(4)] + []string{"e", "E"}[rng.Intn(2)] +
				[]string{"", "+", "-"}[rng.Intn(3)] + strconv.Itoa(rng.Intn(15))
		}
		sign := []string{"", "", "-", "+"}[rng.Intn(4)]
		es := []string{"", "-", "+"}[rng.Intn(3)]
		return sign + digitRun(1+rng.Intn(20)) + []string{"", "." + digitRun(rng.Intn(8))}[rng.Intn(2)] + []string{"e", "E"}[rng.Intn(2)] + es + strconv.Itoa(rng.Intn(30))
	case 6:
		// large exponents on zero and non-zero mantissas
		big := []string{"100", "1000", "99999", "1000000", "3000000", "2147483641", "2147483647", "2147483648", "99999999999", "18446744073709551616"}[rng.Intn(10)]
		if big == "3000000" && rng.Intn(3) > 0 {
			big = "40000000" // unrepaired code needs more than ten seconds for this one
		}
		return []string{"1", "0", "0.0", "5.25", "-1", "-0"}[rng.Intn(6)] + "e" + []string{"", "-"}[rng.Intn(2)] + big
	}
	b := []byte(textNear(amount()))
	if len(b) > 0 {
		b[rng.Intn(len(b))] = byte(rng.Intn(256))
	}
	return string(b)
}

type parsed struct {
	v   uint64
	err error
}

func parse(s string) (parsed, bool) {
	done := make(chan parsed, 1)
	go func() {
		v, err := droplet.FromString(s)
		done <- parsed{v, err}
	}()
	select {
	case p := <-done:
		return p, true
	case <-time.After(6 * time.Second):
		return parsed{}, false
	}
}

func errKind(err error) string {
	switch err {
	case nil:
		return ""
	case droplet.ErrNegativeValue:
		return "negative"
	case droplet.ErrTooManyDecimals:
		return "decimals"
	case droplet.ErrTooLarge:
		return "large"
	}
	return "other"
}

func genDroplet(count int) {
	for i := 0; i < count; i++ {
		if rng.Intn(3) == 0 {
			n := amount()
			s, err := droplet.ToString(n)
			r := rec{"fn": "format", "n": digits(n), "ok": err == nil, "text": codes(s), "backOk": false, "back": []int{}, "err": errKind(err)}
			if err == nil {
				p, returned := parse(s)
				r["backOk"], r["back"] = returned && p.err == nil, digits(p.v)
			}
			emit(r)
			continue
		}
		s := text()
		t0 := time.Now()
		p, returned := parse(s)
		emit(rec{"fn": "parse", "s": codes(s), "str": strconv.QuoteToASCII(s), "returned": returned, "ok": returned && p.err == nil, "val": digits(p.v), "err": errKind(p.err),
			"ms": int(time.Since(t0) / time.Millisecond)})
		w.Flush()
	}
}

func main() {
	if len(os.Args) < 5 {
		log.Fatal("usage: textrec <out.ndjson> <seed> <count> droplet|base58")
	}
	seed, _ := strconv.ParseInt(os.Args[2], 10, 64)
	count, _ := strconv.Atoi(os.Args[3])
	rng = rand.New(rand.NewSource(seed))
	f, err := os.Create(os.Args[1])
	if err != nil {
		log.Fatal(err)
	}
	w = bufio.NewWriterSize(f, 1<<20)
	enc = json.NewEncoder(w)
	switch os.Args[4] {
	case "droplet":
		genDroplet(count)
	case "base58":
		genBase58(count)
	default:
		log.Fatal("unknown mode")
	}
	w.Flush()
	f.Close()
}
