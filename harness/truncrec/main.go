// Command truncrec builds outgoing peer messages with the real constructors of skycoin's daemon
// package (blocks, transactions, peers, announcements, requests) for random item lists and size
// limits placed at the fitting boundary, and writes one "trunc" record per message for the TLC
// record oracle specs/wire/WireRecords.tla.  Item sizes are measured with the reflection-based
// reference encoder, independently of the generated size functions the truncation code uses.
// Usage: truncrec <out.ndjson> <seed> <count>
package main

import (
	"bufio"
	"encoding/json"
	"fmt"
	"io/ioutil"
	"log"
	"math/rand"
	"os"
	"strconv"

	"github.com/skycoin/skycoin/src/cipher"
	"github.com/skycoin/skycoin/src/cipher/encoder"
	"github.com/skycoin/skycoin/src/coin"
	"github.com/skycoin/skycoin/src/daemon"
	"github.com/skycoin/skycoin/src/daemon/gnet"
	"github.com/skycoin/skycoin/src/daemon/pex"
	"github.com/skycoin/skycoin/src/util/logging"
)

var rng *rand.Rand

func randHash() cipher.SHA256 {
	var h cipher.SHA256
	rng.Read(h[:])
	return h
}

func randTxn() coin.Transaction {
	var t coin.Transaction
	for i, n := 0, 1+rng.Intn(4); i < n; i++ {
		t.In = append(t.In, randHash())
		var s cipher.Sig
		rng.Read(s[:])
		t.Sigs = append(t.Sigs, s)
	}
	for i, n := 0, 1+rng.Intn(4); i < n; i++ {
		var o coin.TransactionOutput
		rng.Read(o.Address.Key[:])
		o.Coins, o.Hours = rng.Uint64(), rng.Uint64()
		t.Out = append(t.Out, o)
	}
	return t
}

func randBlock() coin.SignedBlock {
	var b coin.SignedBlock
	b.Head.BkSeq = rng.Uint64()
	rng.Read(b.Sig[:])
	for i, n := 0, rng.Intn(4); i < n; i++ {
		b.Body.Transactions = append(b.Body.Transactions, randTxn())
	}
	return b
}

func main() {
	out := os.Args[1]
	seed, _ := strconv.ParseInt(os.Args[2], 10, 64)
	count, _ := strconv.Atoi(os.Args[3])
	rng = rand.New(rand.NewSource(seed))
	log.SetOutput(ioutil.Discard)
	logging.Disable()
	mc := daemon.NewMessagesConfig()
	mc.Register()
	f, err := os.Create(out)
	if err != nil {
		panic(err)
	}
	w := bufio.NewWriter(f)
	enc := json.NewEncoder(w)
	kinds := []string{"blocks", "txns", "peers", "announce", "gettxns"}
	for i := 0; i < count; i++ {
		kind := kinds[i%len(kinds)]
		n := rng.Intn(12)
		switch rng.Intn(6) {
		case 0:
			n = 120 + rng.Intn(20)
		case 1:
			n = 250 + rng.Intn(12)
		case 2:
			if kind == "peers" {
				n = 505 + rng.Intn(12)
			}
		}
		if kind == "blocks" && n > 140 {
			n = 125 + rng.Intn(8)
		}
		sizes := make([]int, 0, n)
		var empty, itemCap int
		var build func(max uint64) (gnet.Message, int)
		switch kind {
		case "blocks":
			items := make([]coin.SignedBlock, n)
			for k := range items {
				items[k] = randBlock()
				sizes = append(sizes, len(encoder.Serialize(items[k])))
			}
			empty, itemCap = len(encoder.Serialize(daemon.GiveBlocksMessage{})), 128
			build = func(max uint64) (gnet.Message, int) {
				m := daemon.NewGiveBlocksMessage(items, max)
				return m, len(m.Blocks)
			}
		case "txns":
			items := make([]coin.Transaction, n)
			for k := range items {
				items[k] = randTxn()
				sizes = append(sizes, len(encoder.Serialize(items[k])))
			}
			empty, itemCap = len(encoder.Serialize(daemon.GiveTxnsMessage{})), 256
			build = func(max uint64) (gnet.Message, int) {
				m := daemon.NewGiveTxnsMessage(items, max)
				return m, len(m.Transactions)
			}
		case "peers":
			items := make([]pex.Peer, n)
			// a peer list may hold addresses that have no wire form (IPv6, junk from an old peers file): they are skipped, and the
			// message is the longest fitting prefix of the REST (of the first 512 peers)
			mixed := rng.Intn(3) == 0
			for k := range items {
				items[k] = pex.Peer{Addr: fmt.Sprintf("%d.%d.%d.%d:%d", 1+rng.Intn(200), rng.Intn(256), rng.Intn(256), 1+rng.Intn(250), 1024+rng.Intn(60000))}
				if mixed && rng.Intn(8) == 0 {
					items[k] = pex.Peer{Addr: []string{"[2001:db8::1]:6000", "[::1]:7000", "not an address", "1.2.3.4"}[rng.Intn(4)]}
				} else if k < 512 {
					sizes = append(sizes, 6)
				}
			}
			empty, itemCap = len(encoder.Serialize(daemon.GivePeersMessage{})), 512
			build = func(max uint64) (gnet.Message, int) {
				m := daemon.NewGivePeersMessage(items, max)
				return m, len(m.Peers)
			}
		default:
			items := make([]cipher.SHA256, n)
			for k := range items {
				items[k] = randHash()
				sizes = append(sizes, 32)
			}
			itemCap = 256
			if kind == "announce" {
				empty = len(encoder.Serialize(daemon.AnnounceTxnsMessage{}))
				build = func(max uint64) (gnet.Message, int) {
					m := daemon.NewAnnounceTxnsMessage(items, max)
					return m, len(m.Transactions)
				}
			} else {
				empty = len(encoder.Serialize(daemon.GetTxnsMessage{}))
				build = func(max uint64) (gnet.Message, int) {
					m := daemon.NewGetTxnsMessage(items, max)
					return m, len(m.Transactions)
				}
			}
		}
		// the limit: exactly at a prefix boundary (+-1), or random, or ample
		total := 4 + empty
		bounds := []int{total}
		for _, s := range sizes {
			total += s
			bounds = append(bounds, total)
		}
		var max int
		switch rng.Intn(4) {
		case 0, 1:
			max = bounds[rng.Intn(len(bounds))] + rng.Intn(3) - 1
		case 2:
			max = 4 + empty + rng.Intn(total-empty-3+1)
		default:
			max = total + rng.Intn(100)
		}
		if max < 4+empty {
			max = 4 + empty
		}
		// limits of 2^32 and more (the type is uint64): everything fits, so for the specification - whose integers are 32 bits -
		// such a limit is recorded as "a little more than everything"; the real limit goes to the real code
		realMax := uint64(max)
		if rng.Intn(8) == 0 {
			realMax = []uint64{1 << 32, 1<<32 + 3, 1<<32 + uint64(4+empty), 1<<32 + uint64(rng.Intn(total+1)), 1<<33 + 5, 1<<40 + uint64(rng.Intn(1000)), 1 << 63, ^uint64(0), ^uint64(0) - 3}[rng.Intn(9)]
			max = total + 1
		}
		rec := map[string]interface{}{"fn": "trunc", "kind": kind, "sizes": sizes, "empty": empty, "cap": itemCap, "max": max, "realMax": strconv.FormatUint(realMax, 10)}
		func() {
			defer func() {
				if r := recover(); r != nil {
					rec["kept"], rec["enc"], rec["panic"] = -1, -1, fmt.Sprint(r)
				}
			}()
			m, kept := build(realMax)
			b, err := gnet.EncodeMessage(m)
			if err != nil {
				panic(err)
			}
			rec["kept"], rec["enc"] = kept, len(b)-4 // id + body, the length the receiver checks
		}()
		if err := enc.Encode(rec); err != nil {
			panic(err)
		}
	}
	w.Flush()
	f.Close()
}
