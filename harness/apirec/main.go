// Command apirec composes a REAL node in this process the way skycoin.go does (wallet.NewService, visor.New on a bolt
// file, daemon.New with networking disabled, kvstorage.NewManager, api.NewGateway, api.Create on 127.0.0.1) with a
// non-trivial chain, pending pool and wallets, and sends it HTTP requests over a real TCP connection: every documented
// endpoint x method x parameter classes derived from the node's state (existing / unknown / spent / pending ids,
// malformed hex, huge and negative numbers, wrong JSON types, encoded transactions spending unspent / spent / unknown
// outputs).  One record per request for specs/api/CrashRecords (C28): a complete HTTP response with a status, or a
// dropped connection / timeout.  If a request kills the process, the last request announced on stderr is the culprit.
// Usage: apirec <out.ndjson> <seed> <count> <routes.json>
package main

import (
	"bufio"
	"bytes"
	"encoding/json"
	"fmt"
	"io/ioutil"
	"log"
	"math/rand"
	"net"
	"net/http"
	"net/url"
	"os"
	"path/filepath"
	"sort"
	"strconv"
	"strings"
	"time"

	"github.com/skycoin/skycoin/src/api"
	"github.com/skycoin/skycoin/src/cipher"
	"github.com/skycoin/skycoin/src/cipher/bip32"
	"github.com/skycoin/skycoin/src/coin"
	"github.com/skycoin/skycoin/src/daemon"
	"github.com/skycoin/skycoin/src/kvstorage"
	"github.com/skycoin/skycoin/src/params"
	"github.com/skycoin/skycoin/src/util/logging"
	"github.com/skycoin/skycoin/src/util/useragent"
	"github.com/skycoin/skycoin/src/visor"
	"github.com/skycoin/skycoin/src/wallet"
	_ "github.com/skycoin/skycoin/src/wallet/bip44wallet"
	_ "github.com/skycoin/skycoin/src/wallet/collection"
	_ "github.com/skycoin/skycoin/src/wallet/deterministic"
	_ "github.com/skycoin/skycoin/src/wallet/xpubwallet"
)

type rec map[string]interface{}

var rng *rand.Rand

const genesisTime = uint64(1000000)

type world struct {
	base                             string
	addrs, txids, uxUnspent, uxSpent []string
	blockHashes, wallets             []string
	encTxns                          []string // hex-encoded transactions: valid pending-able, spending spent outputs, unknown inputs, unsigned
	pendingTxid                      string
	seed                             string
}

func must(err error) {
	if err != nil {
		log.Fatal(err)
	}
}

func startNode(dir string, atGenesis bool) *world {
	pub, sec, _ := cipher.GenerateDeterministicKeyPair([]byte(fmt.Sprintf("publisher-%d", rng.Int63())))
	seed := fmt.Sprintf("api wallet seed %d", rng.Int63())
	wcfg := wallet.NewConfig()
	wcfg.WalletDir = filepath.Join(dir, "wallets")
	wcfg.EnableWalletAPI = true
	wcfg.EnableSeedAPI = true
	wcfg.CryptoType = "sha256-xor" // the default (scrypt) needs seconds per encryption; the cipher is not what C28 is about
	ws, err := wallet.NewService(wcfg)
	must(err)
	w1, err := ws.CreateWallet("w1.wlt", wallet.Options{Type: wallet.WalletTypeDeterministic, Seed: seed, Label: "one", GenerateN: 3, CryptoType: "sha256-xor"})
	must(err)
	_, err = ws.CreateWallet("w2.wlt", wallet.Options{Type: wallet.WalletTypeDeterministic, Seed: seed + " two", Label: "two", GenerateN: 2, Encrypt: true, Password: []byte("pw"), CryptoType: "sha256-xor"})
	must(err)
	es, err := w1.GetEntries()
	must(err)
	owner := es[0]
	// the other wallet types, each with an address that will hold coins: bip44, xpub (no secret keys at all), collection
	w3, err := ws.CreateWallet("w3.wlt", wallet.Options{Type: wallet.WalletTypeBip44, Seed: "abandon abandon abandon abandon abandon abandon abandon abandon abandon abandon abandon about",
		SeedPassphrase: fmt.Sprint(rng.Int63()), Label: "three", GenerateN: 2, CryptoType: "sha256-xor"})
	must(err)
	mk, err := bip32.NewMasterKey([]byte(fmt.Sprintf("xpub master key seed %020d", rng.Int63())))
	must(err)
	w4, err := ws.CreateWallet("w4.wlt", wallet.Options{Type: wallet.WalletTypeXPub, XPub: mk.PublicKey().String(), Label: "four", GenerateN: 2})
	must(err)
	_, csec, _ := cipher.GenerateDeterministicKeyPair([]byte(fmt.Sprintf("collection-%d", rng.Int63())))
	w5, err := ws.CreateWallet("w5.wlt", wallet.Options{Type: wallet.WalletTypeCollection, Label: "five", CollectionPrivateKeys: []cipher.SecKey{csec}})
	must(err)
	// the wallet the huge-count probes are aimed at: never touched by the random requests, so always unencrypted
	_, err = ws.CreateWallet("wp.wlt", wallet.Options{Type: wallet.WalletTypeDeterministic, Seed: seed + " probe", Label: "probe", GenerateN: 1, CryptoType: "sha256-xor"})
	must(err)
	var funded []cipher.Address
	for _, w := range []wallet.Wallet{w3, w4, w5} {
		as, err := w.GetAddresses()
		must(err)
		funded = append(funded, as[0].(cipher.Address))
	}

	vcfg := visor.NewConfig()
	vcfg.BlockchainPubkey = pub
	vcfg.GenesisAddress = owner.SkycoinAddress()
	vcfg.GenesisTimestamp = genesisTime
	vcfg.GenesisCoinVolume = 100e12
	vcfg.Distribution = params.MainNetDistribution
	vcfg.IsBlockPublisher = true
	vcfg.Arbitrating = true
	vcfg.BlockchainSeckey = sec
	db, err := visor.OpenDB(filepath.Join(dir, "data.db"), false)
	must(err)
	v, err := visor.New(vcfg, db, ws)
	must(err)
	must(v.Init())
	wd := &world{seed: seed, wallets: []string{"w1.wlt", "w2.wlt", "w3.wlt", "w4.wlt", "w5.wlt"}}
	for _, a := range funded {
		wd.addrs = append(wd.addrs, a.String())
	}
	for _, e := range es {
		wd.addrs = append(wd.addrs, e.SkycoinAddress().String())
	}
	spend := func(in coin.UxOut, headTime uint64, dst cipher.Address) coin.Transaction {
		h, _ := in.CoinHours(headTime)
		var txn coin.Transaction
		_ = txn.PushInput(in.Hash())
		txn.Out = append(txn.Out, coin.TransactionOutput{Address: dst, Coins: in.Body.Coins - 1e6, Hours: h / 4}, coin.TransactionOutput{Address: es[1].SkycoinAddress(), Coins: 1e6, Hours: h / 8})
		txn.SignInputs([]cipher.SecKey{owner.Secret})
		_ = txn.UpdateHeader()
		return txn
	}
	now := genesisTime
	nblocks := 4
	if atGenesis {
		nblocks = 0
	}
	var lastSpent coin.UxOut
	for i := 0; i < nblocks; i++ {
		now += 3600 * 30
		uxs, _ := v.GetAllUnspentOutputs()
		head, _ := v.GetHeadBlock()
		var in coin.UxOut
		for _, ux := range uxs {
			if ux.Body.Address == owner.SkycoinAddress() && ux.Body.Coins > in.Body.Coins {
				in = ux
			}
		}
		txn := spend(in, head.Head.Time, owner.SkycoinAddress())
		if i < len(funded) {
			txn.Out[1].Address = funded[i] // the small output goes to the bip44 / xpub / collection wallet
			txn.Sigs = nil
			txn.SignInputs([]cipher.SecKey{owner.Secret})
			_ = txn.UpdateHeader()
		}
		b, err := v.CreateBlockFromTxns(coin.Transactions{txn}, now)
		must(err)
		must(v.ExecuteSignedBlock(coin.SignedBlock{Block: b, Sig: cipher.MustSignHash(b.HashHeader(), sec)}))
		wd.txids = append(wd.txids, txn.Hash().Hex())
		wd.uxSpent = append(wd.uxSpent, in.Hash().Hex())
		lastSpent = in
	}
	if nblocks > 0 {
		// a transaction that was pooled, lost its input to a conflicting block and was then dropped from the pool as invalid:
		// whatever the pool predicted for it (outputs for an address of the wallet) must be gone with it
		uxs, _ := v.GetAllUnspentOutputs()
		head, _ := v.GetHeadBlock()
		var small coin.UxOut
		for _, ux := range uxs {
			if ux.Body.Address == es[1].SkycoinAddress() {
				small = ux
			}
		}
		if small.Body.Coins > 0 {
			mk := func(dst cipher.Address) coin.Transaction {
				h, _ := small.CoinHours(head.Head.Time)
				var txn coin.Transaction
				_ = txn.PushInput(small.Hash())
				txn.Out = append(txn.Out, coin.TransactionOutput{Address: dst, Coins: small.Body.Coins, Hours: h / 2})
				txn.SignInputs([]cipher.SecKey{es[1].Secret})
				_ = txn.UpdateHeader()
				return txn
			}
			lost := mk(es[2].SkycoinAddress())
			if _, _, err := v.InjectForeignTransaction(lost); err != nil {
				log.Fatal("inject the transaction that will lose: ", err)
			}
			now += 3600 * 30
			b, err := v.CreateBlockFromTxns(coin.Transactions{mk(es[0].SkycoinAddress())}, now)
			must(err)
			must(v.ExecuteSignedBlock(coin.SignedBlock{Block: b, Sig: cipher.MustSignHash(b.HashHeader(), sec)}))
			nblocks++
			if _, err := v.RemoveInvalidUnconfirmed(); err != nil {
				log.Fatal("remove invalid: ", err)
			}
			wd.txids = append(wd.txids, lost.Hash().Hex())
		}
	}
	// a pending transaction, and encoded transactions of several kinds
	uxs, _ := v.GetAllUnspentOutputs()
	head, _ := v.GetHeadBlock()
	var in coin.UxOut
	for _, ux := range uxs {
		wd.uxUnspent = append(wd.uxUnspent, ux.Hash().Hex())
		if ux.Body.Address == owner.SkycoinAddress() && ux.Body.Coins > in.Body.Coins {
			in = ux
		}
	}
	pending := spend(in, head.Head.Time, owner.SkycoinAddress())
	if _, _, err := v.InjectForeignTransaction(pending); err != nil {
		log.Fatal("inject pending: ", err)
	}
	wd.pendingTxid = pending.Hash().Hex()
	wd.txids = append(wd.txids, wd.pendingTxid)
	encode := func(t coin.Transaction) string { b, _ := t.Serialize(); return fmt.Sprintf("%x", b) }
	wd.encTxns = append(wd.encTxns, encode(pending))
	alt := spend(in, head.Head.Time, es[2].SkycoinAddress()) // the same input spent differently (not pooled)
	wd.encTxns = append(wd.encTxns, encode(alt))
	if nblocks > 0 {
		wd.encTxns = append(wd.encTxns, encode(spend(lastSpent, head.Head.Time, owner.SkycoinAddress()))) // spends an output that is already spent
	}
	unknown := in
	unknown.Body.Hours += 12345
	wd.encTxns = append(wd.encTxns, encode(spend(unknown, head.Head.Time, owner.SkycoinAddress()))) // unknown input
	uns := alt
	uns.Sigs = make([]cipher.Sig, len(alt.Sigs))
	_ = uns.UpdateHeader()
	wd.encTxns = append(wd.encTxns, encode(uns))
	for seq := uint64(0); seq <= uint64(nblocks); seq++ {
		b, _ := v.GetSignedBlockBySeq(seq)
		wd.blockHashes = append(wd.blockHashes, b.HashHeader().Hex())
	}

	dc := daemon.NewConfig()
	dc.Daemon.DisableNetworking = true
	dc.Daemon.DataDirectory = dir
	dc.Daemon.BlockchainPubkey = pub
	dc.Daemon.UserAgent = useragent.Data{Coin: "skycoin", Version: "0.27.0"}
	dc.Daemon.MaxBlockTransactionsSize = vcfg.MaxBlockTransactionsSize
	dc.Daemon.UnconfirmedVerifyTxn = params.UserVerifyTxn
	dc.Pex.DataDirectory = dir
	dc.Pex.DownloadPeerList = false
	d, err := daemon.New(dc, v)
	must(err)
	go func() { _ = d.Run() }()
	sm, err := kvstorage.NewManager(kvstorage.Config{StorageDir: filepath.Join(dir, "kv"), EnabledStorages: []kvstorage.Type{kvstorage.TypeGeneral, kvstorage.TypeTxIDNotes}, EnableStorageAPI: true})
	must(err)
	gw := api.NewGateway(d, v, ws, sm)
	enabled := map[string]struct{}{}
	for _, s := range []string{api.EndpointsRead, api.EndpointsStatus, api.EndpointsTransaction, api.EndpointsWallet, api.EndpointsInsecureWalletSeed, api.EndpointsNetCtrl, api.EndpointsStorage} {
		enabled[s] = struct{}{}
	}
	srv, err := api.Create("127.0.0.1:0", api.Config{DisableCSRF: true, DisableCSP: true, EnabledAPISets: enabled, ReadTimeout: 30 * time.Second, WriteTimeout: 900 * time.Second}, gw)
	must(err)
	go func() { _ = srv.Serve() }()
	wd.base = srv.Addr()
	for i := 0; i < 100; i++ {
		c, err := net.DialTimeout("tcp", wd.base, 100*time.Millisecond)
		if err == nil {
			c.Close()
			break
		}
		time.Sleep(10 * time.Millisecond)
	}
	return wd
}

func pick(xs []string) string {
	if len(xs) == 0 {
		return ""
	}
	return xs[rng.Intn(len(xs))]
}

// a value for a parameter name: a fitting one from the node's state, or a hostile one
func value(wd *world, name string) string {
	hostile := []string{"", "0", "-1", "18446744073709551616", "9223372036854775808", "abc", "%00", "1e309", "null", "[]", "{}", "true", strings.Repeat("f", 64), strings.Repeat("0", 64),
		strings.Repeat("z", 64), "1,2,,3", " ", "0x10", "1.5", strings.Repeat("9", 40)}
	if rng.Intn(3) == 0 {
		return pick(hostile)
	}
	switch name {
	case "addrs", "address", "addr":
		a := pick(wd.addrs)
		switch rng.Intn(5) {
		case 0:
			return a + "," + pick(wd.addrs)
		case 1:
			return a[:len(a)-1] + "1"
		}
		return a
	case "txid", "txids":
		return pick(wd.txids)
	case "uxid", "hashes":
		return pick(append(append([]string{}, wd.uxSpent...), wd.uxUnspent...))
	case "hash":
		return pick(wd.blockHashes)
	case "seq", "start", "end", "num", "n", "page", "limit":
		if rng.Intn(4) == 0 {
			return pick([]string{"18446744073709551615", "18446744073709551614", "9223372036854775807", "9223372036854775808", "4294967295", "4294967296", "2147483648", "1000000000000"})
		}
		return strconv.Itoa(rng.Intn(7))
	case "seqs":
		return "0,1," + strconv.Itoa(rng.Intn(9))
	case "id", "wallet_id":
		return pick(wd.wallets)
	case "rawtx", "encoded_transaction":
		return pick(wd.encTxns)
	case "verbose", "confirmed", "encoded", "unsigned", "include-distribution", "encrypt":
		return pick([]string{"1", "0", "true", "false"})
	case "password":
		return pick([]string{"pw", "wrong"})
	case "seed":
		return pick([]string{wd.seed, "some other seed"})
	case "type":
		return pick([]string{"deterministic", "bip44", "collection", "xpub", "txid", "client", "nope"})
	case "key":
		return pick([]string{"k", "missing"})
	case "val", "label":
		return "v" + strconv.Itoa(rng.Intn(9))
	case "sort":
		return pick([]string{"asc", "desc", "x"})
	}
	return pick(hostile)
}

var paramNames = []string{"addrs", "address", "addr", "txid", "txids", "uxid", "hashes", "hash", "seq", "seqs", "start", "end", "num", "n", "page", "limit", "id", "wallet_id", "rawtx",
	"encoded_transaction", "verbose", "confirmed", "encoded", "unsigned", "include-distribution", "encrypt", "password", "seed", "type", "key", "val", "label", "sort", "scan", "coin", "xpub"}

// the parameters an endpoint is documented to take (so that most requests get past parameter validation)
var likely = map[string][]string{
	"/api/v1/balance": {"addrs"}, "/api/v1/outputs": {"addrs", "hashes"}, "/api/v1/block": {"hash", "seq", "verbose"}, "/api/v1/blocks": {"start", "end", "seqs", "verbose"},
	"/api/v1/last_blocks": {"num", "verbose"}, "/api/v1/transaction": {"txid", "verbose", "encoded"}, "/api/v2/transaction": {"txid", "verbose", "encoded"},
	"/api/v1/transactions": {"addrs", "confirmed", "verbose"}, "/api/v2/transactions": {"addrs", "confirmed", "verbose", "page", "limit", "sort"}, "/api/v1/rawtx": {"txid"},
	"/api/v1/uxout": {"uxid"}, "/api/v1/address_uxouts": {"address"}, "/api/v1/injectTransaction": {"rawtx"}, "/api/v2/transaction/verify": {"encoded_transaction", "unsigned"},
	"/api/v1/wallet": {"id"}, "/api/v1/wallet/balance": {"id"}, "/api/v1/wallet/transactions": {"id", "verbose"}, "/api/v1/wallet/newAddress": {"id", "num", "password"},
	"/api/v1/wallet/scan": {"id", "num", "password"}, "/api/v1/wallet/update": {"id", "label"}, "/api/v1/wallet/seed": {"id", "password"}, "/api/v1/wallet/encrypt": {"id", "password"},
	"/api/v1/wallet/decrypt": {"id", "password"}, "/api/v1/wallet/unload": {"id"}, "/api/v1/wallet/create": {"seed", "label", "type", "scan", "encrypt", "password"},
	"/api/v2/wallet/recover": {"id", "seed", "password"}, "/api/v2/wallet/seed/verify": {"seed"}, "/api/v2/address/verify": {"address"}, "/api/v2/data": {"type", "key", "val"},
	"/api/v1/network/connection": {"addr"}, "/api/v1/network/connection/disconnect": {"id"}, "/api/v1/richlist": {"n", "include-distribution"},
	"/api/v1/pendingTxs": {"verbose"}, "/api/v2/wallet/transaction/sign": {"wallet_id", "encoded_transaction", "password"}, "/api/v1/wallet/transaction": {"wallet_id"},
}

func main() {
	if len(os.Args) < 5 {
		log.Fatal("usage: apirec <out.ndjson> <seed> <count> <routes.json>")
	}
	if os.Getenv("VERIF_LOG") == "" {
		logging.Disable()
	}
	seed, _ := strconv.ParseInt(os.Args[2], 10, 64)
	count, _ := strconv.Atoi(os.Args[3])
	rng = rand.New(rand.NewSource(seed))
	raw, err := ioutil.ReadFile(os.Args[4])
	must(err)
	var routes []struct {
		URI     string   `json:"uri"`
		Methods []string `json:"methods"`
	}
	must(json.Unmarshal(raw, &routes))
	f, err := os.Create(os.Args[1])
	must(err)
	w := bufio.NewWriter(f)
	enc := json.NewEncoder(w)
	dir, err := ioutil.TempDir("", "verifapi")
	must(err)
	defer os.RemoveAll(dir)
	// the node whose head is still the genesis block serves a part of the requests, the one with a chain the rest:
	// only one node per process (daemon.New registers message types process-wide), chosen by the seed's parity
	atGenesis := seed%3 == 0
	wd := startNode(dir, atGenesis)
	client := &http.Client{Timeout: 600 * time.Second, Transport: &http.Transport{DisableKeepAlives: true}}
	// wallet life-cycles: requests that depend on what earlier ones did (create from a seed of a small pool, then unload /
	// encrypt / decrypt / derive / recover / create again from the same seed ...), woven into the random requests
	// ---- first, systematically: every numeric parameter of every read-only query at the ends of its range (alone, the other
	// numeric parameters small), plain and verbose.  A query is answered whatever the numbers are.
	numeric := map[string]bool{"seq": true, "start": true, "end": true, "num": true, "n": true, "page": true, "limit": true}
	extremes := []string{"18446744073709551615", "18446744073709551614", "9223372036854775808", "9223372036854775807", "4611686018427387904", "4294967296", "4294967295", "2147483648"}
	var sysURIs []string
	for u := range likely {
		if !strings.Contains(u, "wallet") {
			sysURIs = append(sysURIs, u)
		}
	}
	sort.Strings(sysURIs)
	for _, u := range sysURIs {
		for _, pn := range likely[u] {
			if !numeric[pn] {
				continue
			}
			for ei, ex := range extremes {
				vals := url.Values{}
				for _, other := range likely[u] {
					if numeric[other] && other != pn {
						vals.Set(other, strconv.Itoa(rng.Intn(3)))
					}
				}
				vals.Set(pn, ex)
				if ei%2 == 1 {
					for _, other := range likely[u] {
						if other == "verbose" {
							vals.Set("verbose", "1")
						}
					}
				}
				fmt.Fprintln(os.Stderr, "SENDING GET", u, vals.Encode())
				r := rec{"fn": "http", "uri": u, "method": "GET", "form": "query", "params": vals.Encode(), "atGenesis": atGenesis, "status": 0, "complete": false, "dropped": false, "timeout": false, "err": "", "scenario": false, "systematic": true}
				t0 := time.Now()
				resp, err := client.Get("http://" + wd.base + u + "?" + vals.Encode())
				r["ms"] = int(time.Since(t0) / time.Millisecond)
				if err != nil {
					r["err"] = err.Error()
					if ne, ok := err.(net.Error); ok && ne.Timeout() {
						r["timeout"] = true
					} else {
						r["dropped"] = true
					}
				} else {
					_, rerr := ioutil.ReadAll(resp.Body)
					resp.Body.Close()
					r["status"], r["complete"] = resp.StatusCode, rerr == nil
					if rerr != nil {
						r["err"] = rerr.Error()
					}
				}
				must(enc.Encode(r))
				w.Flush()
			}
		}
	}
	seeds := []string{wd.seed + " s1", wd.seed + " s2", wd.seed + " s3"}
	lastID, lastSeed, lastPw, scenarioLeft := "", "", "", 0
	hangs := 0
	usedSeed := ""
	for i := 0; i < count; i++ {
		rt := routes[rng.Intn(len(routes))]
		uri := rt.URI
		method := []string{"GET", "POST", "DELETE", "PUT"}[rng.Intn(4)]
		if rng.Intn(8) > 0 && len(rt.Methods) > 0 {
			method = rt.Methods[rng.Intn(len(rt.Methods))]
		}
		vals := url.Values{}
		scenario := false
		var recoverReq map[string]interface{}
		if scenarioLeft == 0 && rng.Intn(25) == 0 {
			scenarioLeft = 3 + rng.Intn(6)
			lastID = ""
		}
		if scenarioLeft > 0 {
			scenarioLeft--
			scenario = true
			method = "POST"
			if lastID == "" || rng.Intn(5) == 0 {
				uri = "/api/v1/wallet/create"
				if lastSeed == "" || rng.Intn(2) == 0 {
					lastSeed = pick(seeds)
				}
				lastPw = ""
				vals.Set("seed", lastSeed)
				vals.Set("label", "sc")
				vals.Set("type", pick([]string{"deterministic", "deterministic", "bip44"}))
				if lastSeed != "" && vals.Get("type") == "bip44" {
					vals.Set("seed", "abandon abandon abandon abandon abandon abandon abandon abandon abandon abandon abandon about")
				}
				usedSeed = vals.Get("seed")
				if rng.Intn(3) == 0 {
					lastPw = "pw"
					vals.Set("encrypt", "true")
					vals.Set("password", lastPw)
				}
			} else {
				vals.Set("id", lastID)
				switch rng.Intn(9) {
				case 8:
					// recovery of an encrypted wallet from its seed (succeeds when the wallet is encrypted), with or without a new password
					uri = "/api/v2/wallet/recover"
					recoverReq = map[string]interface{}{"id": lastID, "seed": usedSeed}
					if rng.Intn(2) == 0 {
						recoverReq["password"] = "pw"
					}
					if rng.Intn(5) == 0 {
						recoverReq["seed"] = "not the seed of this wallet"
					}
				case 0, 1:
					uri = "/api/v1/wallet/unload"
				case 2:
					uri = "/api/v1/wallet/encrypt"
					vals.Set("password", "pw")
				case 3:
					uri = "/api/v1/wallet/decrypt"
					vals.Set("password", "pw")
				case 4:
					uri = "/api/v1/wallet/newAddress"
					vals.Set("num", strconv.Itoa(1+rng.Intn(3)))
					vals.Set("password", lastPw)
				case 5:
					uri = "/api/v1/wallet/update"
					vals.Set("label", "renamed")
				case 6:
					uri = "/api/v1/wallet/seed"
					vals.Set("password", lastPw)
				default:
					method, uri = "GET", "/api/v1/wallet/balance"
				}
			}
		}
		// well-formed spends from every wallet type (deterministic, encrypted, bip44, xpub, collection), signed or not
		spendReq := !scenario && rng.Intn(30) == 0
		if spendReq {
			method, uri = "POST", "/api/v1/wallet/transaction"
		}
		// well-formed verify / inject requests for every encoded transaction the node's state offers (pending, a second spend of
		// its input, a spend of a spent output, an unknown input, unsigned) - most random requests to these stop at validation
		verifyReq := !scenario && !spendReq && rng.Intn(25) == 0
		if verifyReq {
			method, uri = "POST", pick([]string{"/api/v2/transaction/verify", "/api/v2/transaction/verify", "/api/v1/injectTransaction"})
		}
		names := append([]string{}, likely[uri]...)
		for k := 0; k < rng.Intn(3); k++ {
			names = append(names, paramNames[rng.Intn(len(paramNames))])
		}
		for _, n := range names {
			if !scenario && rng.Intn(5) > 0 {
				vals.Set(n, value(wd, n))
			}
		}
		// counts of addresses to derive or scan are probed separately (at the end): a huge count keeps the wallet service busy
		for _, n := range []string{"scan", "num"} {
			if x, err := strconv.ParseFloat(vals.Get(n), 64); err == nil && x > 1000 && strings.Contains(uri, "/wallet") {
				vals.Set(n, "1000")
			}
		}
		var body []byte
		ctype := ""
		target := "http://" + wd.base + uri
		form := "query"
		if method == "GET" || method == "DELETE" || (!scenario && !spendReq && !verifyReq && rng.Intn(4) == 0) {
			target += "?" + vals.Encode()
		} else if strings.HasPrefix(uri, "/api/v2") || uri == "/api/v1/wallet/transaction" || uri == "/api/v1/injectTransaction" {
			form = "json"
			m := map[string]interface{}{}
			for k, v := range vals {
				switch rng.Intn(6) {
				case 0:
					m[k] = []string{v[0]} // wrong JSON type
				case 1:
					n, _ := strconv.Atoi(v[0])
					m[k] = n
				default:
					m[k] = v[0]
				}
			}
			if recoverReq != nil {
				m = recoverReq
			} else if verifyReq && uri == "/api/v1/injectTransaction" {
				m = map[string]interface{}{"rawtx": pick(wd.encTxns)}
			} else if verifyReq {
				m = map[string]interface{}{"encoded_transaction": pick(wd.encTxns)}
				if rng.Intn(2) == 0 {
					m["unsigned"] = rng.Intn(2) == 0
				}
			} else if spendReq {
				m = map[string]interface{}{"hours_selection": map[string]interface{}{"type": "auto", "mode": "share", "share_factor": "0.5"},
					"wallet_id": pick(wd.wallets), "to": []map[string]string{{"address": pick(wd.addrs), "coins": pick([]string{"0.001", "0.5", "1"})}}}
				if rng.Intn(2) == 0 {
					m["unsigned"] = true
				}
				if rng.Intn(3) == 0 {
					m["password"] = "pw"
				}
			} else if uri == "/api/v1/wallet/transaction" && rng.Intn(2) == 0 {
				m = map[string]interface{}{"hours_selection": map[string]interface{}{"type": "auto", "mode": "share", "share_factor": pick([]string{"0.5", "2", "x"})},
					"wallet_id": value(wd, "wallet_id"), "to": []map[string]string{{"address": value(wd, "address"), "coins": pick([]string{"1", "0.001", "0.5", "-1", "1e99", "abc", "0.0000001"})}}}
				if rng.Intn(3) == 0 {
					m["unsigned"] = true
				}
				if rng.Intn(3) == 0 {
					m["password"] = pick([]string{"pw", "wrong", ""})
				}
				if rng.Intn(4) == 0 {
					m["change_address"] = value(wd, "address")
				}
			}
			body, _ = json.Marshal(m)
			if !verifyReq && !spendReq && recoverReq == nil && rng.Intn(10) == 0 {
				body = body[:len(body)/2] // cut JSON
			}
			ctype = "application/json"
		} else {
			form = "form"
			body = []byte(vals.Encode())
			ctype = "application/x-www-form-urlencoded"
		}
		desc := fmt.Sprintf("%s %s %s %s", method, uri, vals.Encode(), string(body))
		if len(desc) > 600 {
			desc = desc[:600]
		}
		fmt.Fprintln(os.Stderr, "SENDING", desc)
		req, err := http.NewRequest(method, target, bytes.NewReader(body))
		r := rec{"fn": "http", "uri": uri, "method": method, "form": form, "params": vals.Encode(), "atGenesis": atGenesis, "status": 0, "complete": false, "dropped": false, "timeout": false, "err": ""}
		if err != nil {
			continue // not a request this client can express
		}
		if ctype != "" {
			req.Header.Set("Content-Type", ctype)
		}
		t0 := time.Now()
		resp, err := client.Do(req)
		r["ms"] = int(time.Since(t0) / time.Millisecond)
		if err != nil {
			r["err"] = err.Error()
			if ne, ok := err.(net.Error); ok && ne.Timeout() {
				r["timeout"] = true
			} else {
				r["dropped"] = true
			}
		} else {
			rb, rerr := ioutil.ReadAll(resp.Body)
			resp.Body.Close()
			r["status"], r["complete"] = resp.StatusCode, rerr == nil
			if rerr != nil {
				r["err"] = rerr.Error()
			}
			if scenario && uri == "/api/v1/wallet/create" && resp.StatusCode == 200 {
				var cr struct {
					Meta struct {
						Filename string `json:"filename"`
					} `json:"meta"`
				}
				if json.Unmarshal(rb, &cr) == nil && cr.Meta.Filename != "" {
					lastID = cr.Meta.Filename
				}
			}
			if scenario && uri == "/api/v1/wallet/unload" && resp.StatusCode == 200 {
				lastID = "" // the next step creates again, half of the time from the same seed
			}
		}
		r["scenario"] = scenario
		must(enc.Encode(r))
		w.Flush()
		if r["timeout"].(bool) {
			// ten minutes without an answer: recorded as a hang; a second one ends the run (the node may be wedged for good)
			hangs++
			if hangs >= 2 {
				break
			}
			client.Timeout = 90 * time.Second // if the node is wedged for good the next request shows it soon enough
		}
	}
	// ---- the probe: one request with a huge count, answered (with an error or a result) or not within 6 s
	probes := []struct{ name, uri, form string }{
		{"scan-num", "/api/v1/wallet/scan", "id=wp.wlt&num=9223372036854775807"},
		{"newaddress-num", "/api/v1/wallet/newAddress", "id=wp.wlt&num=9223372036854775807"},
		{"create-scan", "/api/v1/wallet/create", "seed=probe+seed&label=p&type=deterministic&scan=9223372036854775807"},
	}
	// a probe that is not answered keeps the wallet service busy for good, so the one that goes first rotates with the seed
	for k := int(seed % 3); k > 0; k-- {
		probes = append(probes[1:], probes[0])
	}
	for _, probe := range probes {
		fmt.Fprintln(os.Stderr, "SENDING POST", probe.uri, probe.form)
		pc := &http.Client{Timeout: 6 * time.Second, Transport: &http.Transport{DisableKeepAlives: true}}
		pr := rec{"fn": "probe", "name": probe.name, "uri": probe.uri, "method": "POST", "form": "form", "params": probe.form, "atGenesis": atGenesis, "status": 0, "complete": false, "dropped": false, "timeout": false, "err": ""}
		resp, err := pc.Post("http://"+wd.base+probe.uri, "application/x-www-form-urlencoded", strings.NewReader(probe.form))
		if err != nil {
			pr["err"] = err.Error()
			if ne, ok := err.(net.Error); ok && ne.Timeout() {
				pr["timeout"] = true
			} else {
				pr["dropped"] = true
			}
		} else {
			pb, rerr := ioutil.ReadAll(resp.Body)
			resp.Body.Close()
			pr["status"], pr["complete"] = resp.StatusCode, rerr == nil
			if len(pb) > 160 {
				pb = pb[:160]
			}
			pr["err"] = strings.TrimSpace(string(pb))
		}
		must(enc.Encode(pr))
		w.Flush()
		if pr["timeout"].(bool) {
			break // the wallet service is busy now: nothing more can be learnt from this node
		}
	}
	f.Close()
	os.Exit(0) // the probe may have left a goroutine busy for ever
}
