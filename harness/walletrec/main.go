// Command walletrec runs seeded operation sequences on a REAL wallet.Service over a scratch wallet directory (all four
// wallet types, both fast ciphers) and, after every operation, starts a FRESH wallet.NewService on the same directory.
// One record per operation for specs/wallets/WalletRecords.tla (C17, C18, C19):
//
//	pre / post   the wallets held in memory, projected (id, type, fingerprint, encrypted, label, temp, entry addresses)
//	reload       the wallets the fresh service loaded (or its start-up error)
//	facts        observations the specification's invariants talk about: entries consistent (address = addr(pub),
//	             pub = pub(sec)), entries equal the single-batch reference derivation from the same seed, secrets absent
//	             from the serialised form of a locked wallet, unlock with the right password restores the secrets,
//	             a wrong password is rejected
//
// The cipher family is also called directly on malformed ciphertexts (fn "decrypt"): plaintext or error, never a panic.
// Usage: walletrec <out.ndjson> <seed> <sequences> <service|decrypt>
package main

import (
	"bufio"
	"bytes"
	"encoding/base64"
	"encoding/binary"
	"encoding/hex"
	"encoding/json"
	"fmt"
	"io/ioutil"
	"log"
	"math/rand"
	"os"
	"path/filepath"
	"sort"
	"strconv"
	"strings"

	"github.com/skycoin/skycoin/src/cipher"
	"github.com/skycoin/skycoin/src/cipher/bip39"
	"github.com/skycoin/skycoin/src/cipher/bip44"
	"github.com/skycoin/skycoin/src/cipher/crypto"
	"github.com/skycoin/skycoin/src/cipher/encrypt"
	secp256k1 "github.com/skycoin/skycoin/src/cipher/secp256k1-go"
	"github.com/skycoin/skycoin/src/util/logging"
	"github.com/skycoin/skycoin/src/wallet"
	_ "github.com/skycoin/skycoin/src/wallet/bip44wallet"
	_ "github.com/skycoin/skycoin/src/wallet/collection"
	_ "github.com/skycoin/skycoin/src/wallet/deterministic"
	_ "github.com/skycoin/skycoin/src/wallet/xpubwallet"
)

type rec map[string]interface{}

var rng *rand.Rand
var enc *json.Encoder

var flush = func() {}

func emit(r rec) {
	if err := enc.Encode(r); err != nil {
		log.Fatal(err)
	}
}

type proj struct {
	ID        string   `json:"id"`
	Type      string   `json:"type"`
	FP        string   `json:"fp"`
	Encrypted bool     `json:"encrypted"`
	Label     string   `json:"label"`
	Temp      bool     `json:"temp"`
	Ext       []string `json:"ext"`
	Chg       []string `json:"chg"`
	Sec       string   `json:"sec"` // digest of the encrypted secrets blob ("" when not encrypted): memory and file must hold the same one
}

func addrsOf(w wallet.Wallet, opts ...wallet.Option) []string {
	out := []string{}
	as, err := w.GetAddresses(opts...)
	if err != nil {
		return []string{"ERR:" + err.Error()}
	}
	for _, a := range as {
		out = append(out, a.String())
	}
	return out
}

func project(w wallet.Wallet) proj {
	p := proj{ID: w.Filename(), Type: w.Type(), FP: w.Fingerprint(), Encrypted: w.IsEncrypted(), Label: w.Label(), Temp: w.IsTemp(), Chg: []string{}}
	if w.IsEncrypted() {
		h := cipher.SumSHA256([]byte(w.Secrets()))
		p.Sec = h.Hex()[:16]
	}
	if w.Type() == wallet.WalletTypeBip44 {
		p.Ext = addrsOf(w, wallet.OptionExternal())
		p.Chg = addrsOf(w, wallet.OptionChange())
	} else {
		p.Ext = addrsOf(w)
	}
	return p
}

func projectAll(ws wallet.Wallets) []proj {
	out := []proj{}
	for _, w := range ws {
		out = append(out, project(w))
	}
	sort.Slice(out, func(i, j int) bool { return out[i].ID < out[j].ID })
	return out
}

type seedInfo struct {
	typ, seed, pass, xpub string
	keys                  []cipher.SecKey
}

// the single-batch reference: a fresh wallet of the same type from the same seed with n (and m change) entries
func reference(si seedInfo, n, m int) (ext, chg, secrets []string) {
	opts := wallet.Options{Type: si.typ, Seed: si.seed, SeedPassphrase: si.pass, GenerateN: uint64(n), XPub: si.xpub, CollectionPrivateKeys: si.keys, Temp: true}
	if si.typ == wallet.WalletTypeBip44 {
		ct := bip44.CoinTypeSkycoin
		opts.Bip44Coin = &ct
	}
	if n == 0 && si.typ != wallet.WalletTypeCollection {
		opts.GenerateN = 1
	}
	w, err := wallet.NewWallet("ref.wlt", "ref", si.seed, opts)
	if err != nil {
		return []string{"REFERR:" + err.Error()}, nil, nil
	}
	if si.typ == wallet.WalletTypeBip44 && m > 1 {
		if _, err := w.GenerateAddresses(wallet.OptionGenerateN(uint64(m-1)), wallet.OptionChange()); err != nil {
			return []string{"REFERR:" + err.Error()}, nil, nil
		}
	}
	if si.typ == wallet.WalletTypeBip44 {
		ext, chg = addrsOf(w, wallet.OptionExternal()), addrsOf(w, wallet.OptionChange())
		for _, o := range [][]wallet.Option{{wallet.OptionExternal()}, {wallet.OptionChange()}} {
			es, _ := w.GetEntries(o...)
			for _, e := range es {
				secrets = append(secrets, e.Secret.Hex())
			}
		}
	} else {
		ext = addrsOf(w)
		es, _ := w.GetEntries()
		for _, e := range es {
			if (e.Secret != cipher.SecKey{}) {
				secrets = append(secrets, e.Secret.Hex())
			}
		}
	}
	if n == 0 && si.typ != wallet.WalletTypeCollection && len(ext) > 0 {
		ext = ext[:0]
	}
	return ext, chg, secrets
}

func entriesConsistent(w wallet.Wallet) bool {
	check := func(es wallet.Entries) bool {
		for _, e := range es {
			if cipher.AddressFromPubKey(e.Public).String() != e.Address.String() {
				return false
			}
			if (e.Secret != cipher.SecKey{}) {
				p, err := cipher.PubKeyFromSecKey(e.Secret)
				if err != nil || p != e.Public {
					return false
				}
			}
		}
		return true
	}
	if w.Type() == wallet.WalletTypeBip44 {
		a, err1 := w.GetEntries(wallet.OptionExternal())
		b, err2 := w.GetEntries(wallet.OptionChange())
		return err1 == nil && err2 == nil && check(a) && check(b)
	}
	es, err := w.GetEntries()
	return err == nil && check(es)
}

type finder struct{ active map[string]bool }

func (f finder) AddressesActivity(addrs []cipher.Addresser) ([]bool, error) {
	out := make([]bool, len(addrs))
	for i, a := range addrs {
		out[i] = f.active[a.String()]
	}
	return out, nil
}

func mnemonic() string {
	e := make([]byte, 16)
	rng.Read(e)
	m, err := bip39.NewMnemonic(e)
	if err != nil {
		log.Fatal(err)
	}
	return m
}

func xpubOf(m, pass string) string {
	seed, err := bip39.NewSeed(m, pass)
	if err != nil {
		log.Fatal(err)
	}
	c, err := bip44.NewCoin(seed, bip44.CoinTypeSkycoin)
	if err != nil {
		log.Fatal(err)
	}
	a, err := c.Account(0)
	if err != nil {
		log.Fatal(err)
	}
	e, err := a.External()
	if err != nil {
		log.Fatal(err)
	}
	return e.PublicKey().String()
}

func runSequence(seq int) {
	dir, err := ioutil.TempDir("", "verifwallet")
	if err != nil {
		log.Fatal(err)
	}
	defer os.RemoveAll(dir)
	cfg := wallet.NewConfig()
	cfg.WalletDir = dir
	cfg.EnableWalletAPI = true
	cfg.EnableSeedAPI = seq%5 != 4 // every fifth sequence: the seed is never given out
	cfg.CryptoType = []crypto.CryptoType{crypto.CryptoTypeSha256Xor, crypto.CryptoTypeScryptChacha20poly1305Insecure}[rng.Intn(2)]
	s, err := wallet.NewService(cfg)
	if err != nil {
		log.Fatal(err)
	}
	// the seeds of this sequence: two per seeded type; the xpub wallets watch the bip44 seeds
	seeds := []seedInfo{}
	for i := 0; i < 2; i++ {
		seeds = append(seeds, seedInfo{typ: wallet.WalletTypeDeterministic, seed: fmt.Sprintf("det seed %d %d", i, rng.Int63())})
	}
	for i := 0; i < 2; i++ {
		m := mnemonic()
		pass := []string{"", "passphrase-x"}[i]
		seeds = append(seeds, seedInfo{typ: wallet.WalletTypeBip44, seed: m, pass: pass})
		seeds = append(seeds, seedInfo{typ: wallet.WalletTypeXPub, xpub: xpubOf(m, pass), seed: m, pass: pass})
	}
	var ck []cipher.SecKey
	for i := 0; i < 3; i++ {
		_, k, _ := cipher.GenerateDeterministicKeyPair([]byte(fmt.Sprintf("coll-%d-%d", i, rng.Int63())))
		ck = append(ck, k)
	}
	seeds = append(seeds, seedInfo{typ: wallet.WalletTypeCollection, keys: ck})
	seedOf := map[string]seedInfo{} // wallet id -> seed
	pwOf := map[string]string{}     // wallet id -> current password ("" = not encrypted)
	unloaded := map[string]bool{}
	nextID := 0
	again := -1
	viewNext := ""
	pws := []string{"pw-one", "pw-two"}
	// once in every sequence (steps 8-12): an encrypted bip44 wallet is made; while it is locked both of its chains grow (the
	// node's own way: Service.Update without a password), a scan finds activity on the change chain only, and then its
	// secrets are looked at with the right password
	bipID := ""

	for step := 0; step < 14; step++ {
		forcedID, forcedKind, forcedChg, chgOnly, forceBip := "", "", -1, false, false
		pre, _ := s.GetWallets()
		prePr := projectAll(pre)
		ids := []string{}
		for _, p := range prePr {
			ids = append(ids, p.ID)
		}
		pick := func() string {
			if forcedID != "" {
				return forcedID
			}
			if len(ids) == 0 || rng.Intn(10) == 0 {
				return "nope.wlt"
			}
			return ids[rng.Intn(len(ids))]
		}
		r := rec{"fn": "wstep", "seq": seq, "step": step, "crypto": string(cfg.CryptoType), "op": "", "id": "", "res": "ok", "err": "", "k": 0,
			"rightPw": true, "wasEncrypted": false, "unlockRestores": true, "wrongPwRejected": true, "onChange": false, "idTaken": false, "updKind": "", "seedMatches": false, "seedAPI": cfg.EnableSeedAPI}
		ulBefore := []string{}
		for id := range unloaded {
			ulBefore = append(ulBefore, id)
		}
		sort.Strings(ulBefore)
		r["unloadedBefore"] = ulBefore
		var opErr error
		k := rng.Intn(24)
		if viewNext != "" && again < 0 {
			k = 18
		}
		// once in every sequence: a restart, and right after it a wallet made from the seed of one that was loaded at the start
		forcedRestart := step == 6 && len(ids) > 0
		sameSeedNext := step == 7 && len(ids) > 0 && again < 0
		if sameSeedNext {
			k = 0
		}
		if again < 0 {
			switch {
			case step == 8:
				k, forceBip = 0, true
			case step == 9 && bipID != "":
				k, forcedID, forcedKind, forcedChg = 20, bipID, "addr", 0
			case step == 10 && bipID != "":
				k, forcedID, forcedKind, forcedChg = 20, bipID, "addr", 1
			case step == 11 && bipID != "":
				k, forcedID, chgOnly = 9, bipID, true
			case step == 12 && bipID != "":
				k, viewNext = 18, bipID
			}
		}
		switch {
		case forcedRestart || (k == 19 && len(ids) > 0 && rng.Intn(2) == 0):
			// the node restarts: from here on the freshly started service is the one that is used
			r["op"], r["id"] = "restart", ""
			s2, err := wallet.NewService(cfg)
			if err != nil {
				opErr = err
			} else {
				s = s2
				for id := range unloaded {
					delete(unloaded, id) // an unloaded wallet's file is loaded again at the next start
				}
			}
		case k < 5 || len(ids) == 0 || again >= 0:
			si := seeds[rng.Intn(len(seeds))]
			if again >= 0 {
				si = seeds[again] // the create that was just refused, once more
			} else if len(ids) > 0 && (sameSeedNext || rng.Intn(4) == 0) {
				// a seed that some loaded wallet already has
				want := seedOf[ids[rng.Intn(len(ids))]]
				for i, x := range seeds {
					if x.typ == want.typ && x.seed == want.seed && x.pass == want.pass && x.xpub == want.xpub && len(x.keys) == len(want.keys) {
						si = seeds[i]
					}
				}
			}
			if forceBip {
				var bips []seedInfo
				for _, x := range seeds {
					if x.typ == wallet.WalletTypeBip44 {
						bips = append(bips, x)
					}
				}
				if len(bips) > 0 {
					si = bips[rng.Intn(len(bips))]
				}
			}
			lastSeed := -1
			for i, x := range seeds {
				if x.typ == si.typ && x.seed == si.seed && x.pass == si.pass && x.xpub == si.xpub && len(x.keys) == len(si.keys) {
					lastSeed = i
				}
			}
			wasAgain := again >= 0
			again = -1
			id := fmt.Sprintf("w%d.wlt", nextID)
			nextID++
			if len(ids) > 0 && !forceBip && rng.Intn(6) == 0 {
				id = ids[rng.Intn(len(ids))] // a file name that is already taken
				r["idTaken"] = true
			}
			o := wallet.Options{Type: si.typ, Seed: si.seed, SeedPassphrase: si.pass, Label: "l0", GenerateN: uint64(1 + rng.Intn(3)), XPub: si.xpub, CollectionPrivateKeys: si.keys}
			if si.typ == wallet.WalletTypeXPub {
				o.Seed = ""
				o.SeedPassphrase = ""
			}
			if rng.Intn(3) == 0 && si.typ != wallet.WalletTypeXPub {
				o.Encrypt, o.Password = true, []byte(pws[rng.Intn(2)])
			}
			if rng.Intn(5) == 0 {
				o.Temp = true
			}
			if forceBip && si.typ == wallet.WalletTypeBip44 {
				o.Temp, o.Encrypt, o.Password = false, true, []byte(pws[rng.Intn(2)])
			}
			r["op"], r["id"], r["wtype"], r["temp"] = "create", id, si.typ, o.Temp
			_, opErr = s.CreateWallet(id, o)
			if opErr != nil && !wasAgain && !r["idTaken"].(bool) && rng.Intn(2) == 0 {
				again = lastSeed // refused (a seed or key that is already there): the same request is made again next
			}
			if forceBip {
				// the wallet of the scripted steps: the new one, or (its seed was taken) a loaded encrypted bip44 wallet
				bipID = ""
				if opErr == nil && si.typ == wallet.WalletTypeBip44 {
					bipID = id
				} else {
					for _, x := range ids {
						if seedOf[x].typ == wallet.WalletTypeBip44 && pwOf[x] != "" && !unloaded[x] {
							bipID = x
						}
					}
				}
			}
			if opErr == nil {
				seedOf[id] = si
				pwOf[id] = string(o.Password)
				delete(unloaded, id)
			}
		case k < 9:
			id := pick()
			n := 1 + rng.Intn(3)
			r["op"], r["id"], r["k"] = "newaddr", id, n
			pw := pwOf[id]
			if rng.Intn(6) == 0 {
				pw = "wrong"
				r["rightPw"] = false
			}
			var p []byte
			if pw != "" {
				p = []byte(pw)
			}
			opts := []wallet.Option{wallet.OptionGenerateN(uint64(n))}
			onChange := false
			if si, ok := seedOf[id]; ok && si.typ == wallet.WalletTypeBip44 && rng.Intn(2) == 0 {
				opts = append(opts, wallet.OptionChange()) // the change chain of a bip44 wallet (also while it is locked)
				onChange = true
			}
			r["onChange"] = onChange
			_, opErr = s.NewAddresses(id, p, opts...)
			if opErr == nil && pwOf[id] != "" && rng.Intn(2) == 0 {
				viewNext = id // addresses were derived while the wallet was locked: the next operation looks at its secrets
			}
		case k < 11:
			id := pick()
			n := 1 + rng.Intn(4)
			r["op"], r["id"], r["k"] = "scan", id, n
			// activity on some of the next addresses (taken from the reference derivation)
			act := map[string]bool{}
			if si, ok := seedOf[id]; ok {
				ext, chg, _ := reference(si, 12, 6)
				for _, a := range append(ext, chg...) {
					if rng.Intn(3) == 0 {
						act[a] = true
					}
				}
				if chgOnly {
					// activity on the change chain only (the scan reports external addresses: none are found)
					act = map[string]bool{}
					for _, a := range chg {
						act[a] = true
					}
				}
			}
			var p []byte
			if pwOf[id] != "" {
				p = []byte(pwOf[id])
			}
			_, opErr = s.ScanAddresses(id, p, uint64(n), finder{act})
		case k < 12:
			id := pick()
			r["op"], r["id"] = "label", id
			opErr = s.UpdateWalletLabel(id, fmt.Sprintf("label-%d", rng.Intn(100)))
		case k < 14:
			id := pick()
			pw := pws[rng.Intn(2)]
			r["op"], r["id"] = "encrypt", id
			_, opErr = s.EncryptWallet(id, []byte(pw))
			if opErr == nil {
				pwOf[id] = pw
			}
		case k < 16:
			id := pick()
			pw := pwOf[id]
			if rng.Intn(3) == 0 || pw == "" {
				pw = "wrong"
				r["rightPw"] = false
			}
			r["op"], r["id"] = "decrypt", id
			_, opErr = s.DecryptWallet(id, []byte(pw))
			if opErr == nil {
				pwOf[id] = ""
			}
		case k < 17:
			id := pick()
			si := seedOf[id]
			seed, pass := si.seed, si.pass
			if rng.Intn(3) == 0 {
				seed = "not the seed"
				r["rightPw"] = false
			}
			npw := []string{"", "pw-one", "pw-two"}[rng.Intn(3)]
			r["op"], r["id"] = "recover", id
			var p []byte
			if npw != "" {
				p = []byte(npw)
			}
			_, opErr = s.RecoverWallet(id, seed, pass, p)
			if opErr == nil {
				pwOf[id] = npw
			}
		case k < 18:
			id := pick()
			r["op"], r["id"] = "unload", id
			opErr = s.UnloadWallet(id)
			if opErr == nil {
				unloaded[id] = true
			}
		case k == 18 && (viewNext != "" || rng.Intn(2) == 0):
			// a read-only look at the secrets (what signing a transaction does): nothing may change, in memory or on disk
			id := pick()
			if viewNext != "" {
				id, viewNext = viewNext, ""
			}
			pw := pwOf[id]
			if rng.Intn(5) == 0 {
				pw = "wrong"
				r["rightPw"] = false
			}
			r["op"], r["id"] = "viewsecrets", id
			var p []byte
			if pw != "" {
				p = []byte(pw)
			}
			opErr = s.ViewSecrets(id, p, func(w wallet.Wallet) error {
				_, err := w.GetEntries()
				if w.Type() == wallet.WalletTypeBip44 {
					_, err = w.GetEntries(wallet.OptionChange())
				}
				return err
			})
		case k == 20:
			// Service.Update (what the node does before a spend: the next change address of a bip44 wallet, made from the public
			// key without a password), or a label, or a modification that ends in an error
			id := pick()
			n := 1 + rng.Intn(2)
			kind := []string{"addr", "addr", "label", "fail"}[rng.Intn(4)]
			si, known := seedOf[id]
			onChange := known && si.typ == wallet.WalletTypeBip44 && rng.Intn(2) == 0
			if known && si.typ == wallet.WalletTypeCollection && kind == "addr" {
				kind = "label"
			}
			if forcedKind != "" {
				kind, onChange = forcedKind, forcedChg == 1
			}
			r["op"], r["id"], r["k"], r["updKind"], r["onChange"] = "update", id, n, kind, onChange
			opErr = s.Update(id, func(w wallet.Wallet) error {
				switch kind {
				case "label":
					w.SetLabel("from-update")
					return nil
				case "fail":
					w.SetLabel("never-to-be-seen")
					_, _ = w.GenerateAddresses(wallet.OptionGenerateN(1))
					return fmt.Errorf("the caller gives up")
				}
				opts := []wallet.Option{wallet.OptionGenerateN(uint64(n))}
				if onChange {
					opts = append(opts, wallet.OptionChange())
				}
				_, err := w.GenerateAddresses(opts...)
				return err
			})
			if opErr == nil && kind == "addr" && pwOf[id] != "" && rng.Intn(2) == 0 {
				viewNext = id
			}
		case k == 21 || k == 22:
			// read-only access: whatever the caller does to what it is handed stays with the caller
			id := pick()
			scribble := func(w wallet.Wallet) error {
				w.SetLabel("scribbled")
				_, _ = w.GenerateAddresses(wallet.OptionGenerateN(2))
				if rng.Intn(3) == 0 {
					return fmt.Errorf("the caller gives up")
				}
				return nil
			}
			if k == 21 {
				r["op"], r["id"] = "view", id
				opErr = s.View(id, scribble)
			} else {
				r["op"], r["id"] = "getwallet", id
				var w wallet.Wallet
				w, opErr = s.GetWallet(id)
				if opErr == nil {
					_ = scribble(w)
				}
			}
		case k == 23:
			// the seed of an encrypted wallet, for the right password only
			id := pick()
			pw := pwOf[id]
			if rng.Intn(3) == 0 || pw == "" {
				pw = []string{"wrong", ""}[rng.Intn(2)]
				r["rightPw"] = false
			}
			r["op"], r["id"] = "getseed", id
			var p []byte
			if pw != "" {
				p = []byte(pw)
			}
			var seed, pass string
			seed, pass, opErr = s.GetWalletSeed(id, p)
			si := seedOf[id]
			r["seedMatches"] = opErr == nil && seed == si.seed && pass == si.pass
		default:
			id := pick()
			r["op"], r["id"] = "updatesecrets", id
			var p []byte
			if pwOf[id] != "" {
				p = []byte(pwOf[id])
			}
			opErr = s.UpdateSecrets(id, p, func(w wallet.Wallet) error {
				w.SetLabel("from-update-secrets")
				return nil
			})
		}
		if opErr != nil {
			r["res"], r["err"] = "err", opErr.Error()
		}
		post, _ := s.GetWallets()
		postPr := projectAll(post)
		// a fresh service on the same directory
		s2, rerr := wallet.NewService(cfg)
		reloadPr := []proj{}
		reloadErr := ""
		if rerr != nil {
			reloadErr = rerr.Error()
		} else {
			ws2, _ := s2.GetWallets()
			reloadPr = projectAll(ws2)
		}
		// facts about every wallet in memory
		facts := []rec{}
		for _, w := range post {
			id := w.Filename()
			si, known := seedOf[id]
			f := rec{"id": id, "entriesConsistent": entriesConsistent(w), "matchesReference": true, "secretsHidden": true, "unlockRestores": true, "wrongPwRejected": true,
				"watchEqualsSeed": true}
			if known {
				p := project(w)
				ext, chg, secrets := reference(si, len(p.Ext), len(p.Chg))
				f["matchesReference"] = fmt.Sprint(ext) == fmt.Sprint(p.Ext) && (w.Type() != wallet.WalletTypeBip44 || fmt.Sprint(chg) == fmt.Sprint(p.Chg))
				if w.IsEncrypted() {
					raw, err := w.Serialize()
					if err != nil {
						raw = nil
					}
					if fb, err := ioutil.ReadFile(filepath.Join(dir, id)); err == nil {
						raw = append(raw, fb...)
					}
					hidden := true
					needles := append([]string{}, secrets...)
					if si.seed != "" {
						needles = append(needles, si.seed)
					}
					if si.pass != "" {
						needles = append(needles, si.pass)
					}
					for _, n := range needles {
						if n != "" && (bytes.Contains(raw, []byte(n)) || bytes.Contains(raw, []byte(base64.StdEncoding.EncodeToString([]byte(n)))) ||
							bytes.Contains(raw, []byte(hex.EncodeToString([]byte(n))))) {
							hidden = false
						}
					}
					f["secretsHidden"] = hidden
					// the right password restores exactly the secrets and entries; any other is rejected
					// (key derivation is slow: only for the wallet this operation touched)
					if id != r["id"] {
						facts = append(facts, f)
						continue
					}
					if u, err := w.Unlock([]byte(pwOf[id])); err != nil {
						f["unlockRestores"] = false
					} else {
						// C17: where a secret key is held (the unlocked copy holds all of them) it belongs to the entry's public key
						if !entriesConsistent(u) {
							f["entriesConsistent"] = false
						}
						_, _, usec := reference(si, len(p.Ext), len(p.Chg))
						got := []string{}
						for _, o := range [][]wallet.Option{{wallet.OptionExternal()}, {wallet.OptionChange()}} {
							if w.Type() != wallet.WalletTypeBip44 && len(got) > 0 {
								break
							}
							var es wallet.Entries
							if w.Type() == wallet.WalletTypeBip44 {
								es, _ = u.GetEntries(o...)
							} else {
								es, _ = u.GetEntries()
							}
							for _, e := range es {
								got = append(got, e.Secret.Hex())
							}
							if w.Type() != wallet.WalletTypeBip44 {
								break
							}
						}
						f["unlockRestores"] = fmt.Sprint(got) == fmt.Sprint(usec) && u.Seed() == si.seed && u.SeedPassphrase() == si.pass &&
							fmt.Sprint(project(u).Ext) == fmt.Sprint(p.Ext)
					}
					if _, err := w.Unlock([]byte(pwOf[id] + "x")); err == nil {
						f["wrongPwRejected"] = false
					}
				}
			}
			facts = append(facts, f)
		}
		ul := []string{}
		for id := range unloaded {
			ul = append(ul, id)
		}
		sort.Strings(ul)
		r["pre"], r["post"], r["reload"], r["reloadErr"], r["facts"], r["unloaded"] = prePr, postPr, reloadPr, reloadErr, facts, ul
		emit(r)
		flush()
		if reloadErr != "" {
			return // the directory cannot be loaded any more: the sequence ends
		}
	}
}

// ---------------------------------------------------------------------------------------------- decrypt (C18, format)

func genDecrypt() {
	data := make([]byte, 1+rng.Intn(200))
	rng.Read(data)
	pw := []byte("password")
	for _, name := range []string{"sha256-xor", "scrypt-chacha20poly1305-insecure"} {
		var encf func([]byte, []byte) ([]byte, error)
		var decf func([]byte, []byte) ([]byte, error)
		if name == "sha256-xor" {
			c := encrypt.DefaultSha256Xor
			encf, decf = c.Encrypt, c.Decrypt
		} else {
			c := encrypt.ScryptChacha20poly1305{N: 1 << 4, R: 8, P: 1, KeyLen: 32}
			encf, decf = c.Encrypt, c.Decrypt
		}
		ct, err := encf(data, pw)
		if err != nil {
			log.Fatal(err)
		}
		how := rng.Intn(10)
		in := append([]byte{}, ct...)
		usePw := pw
		craftedOK, expect := false, data // a crafted container that is well-formed decrypts to what it encodes
		switch how {
		case 9:
			// a well-formed container (right checksum, right password) around a body that Encrypt never makes:
			// no length field, a length beyond the data, no block at all, a body that is not a multiple of the block size
			if name == "sha256-xor" {
				body, ok, want := oddBody(data)
				in = xorContainer(body, pw)
				craftedOK, expect = ok, want
			} else {
				in = in[:len(in)/2]
			}
		case 0: // untouched
		case 1:
			in = in[:rng.Intn(len(in))]
		case 2:
			in = []byte{}
		case 3:
			in = []byte("//8=")
		case 4:
			in[rng.Intn(len(in))] ^= 1 << uint(rng.Intn(8))
		case 5:
			// decode, damage the binary form, encode again
			raw, _ := base64.StdEncoding.DecodeString(string(ct))
			if len(raw) > 2 {
				switch rng.Intn(3) {
				case 0:
					raw[0], raw[1] = 0xff, 0xff // a length field beyond the data
				case 1:
					raw = raw[:2+rng.Intn(len(raw)-2)]
				case 2:
					raw[rng.Intn(len(raw))] ^= 0x40
				}
			}
			in = []byte(base64.StdEncoding.EncodeToString(raw))
		case 6:
			in = make([]byte, rng.Intn(120))
			rng.Read(in)
		case 7:
			usePw = []byte("another password")
		case 8:
			in = []byte(strings.Repeat("A", rng.Intn(90)))
		}
		var out []byte
		var derr error
		pan := false
		panMsg := ""
		func() {
			defer func() {
				if p := recover(); p != nil {
					pan = true
					panMsg = fmt.Sprint(p)
				}
			}()
			out, derr = decf(in, usePw)
		}()
		emit(rec{"fn": "decrypt", "cipher": name, "how": how, "len": len(in), "panic": pan, "panicMsg": panMsg, "input": string(in), "err": derr != nil,
			"plaintext": derr == nil && !pan && bytes.Equal(out, expect), "untouched": how == 0 || craftedOK})
	}
}

// the decrypted body of a sha256-xor container: hash of the rest, 4-byte length, data, padding
func oddBody(data []byte) (body []byte, wellFormed bool, encodes []byte) {
	le := func(n uint32) []byte { return []byte{byte(n), byte(n >> 8), byte(n >> 16), byte(n >> 24)} }
	var rest []byte
	noPad := false
	switch rng.Intn(7) {
	case 0: // nothing behind the hash
	case 1: // a cut length field (left unpadded: padding would complete it)
		rest = le(uint32(len(data)))[:1+rng.Intn(3)]
		noPad = true
	case 2: // a length beyond the data
		rest = append(le(uint32(len(data)+32+rng.Intn(1000))), data...) // beyond any padding as well
	case 3: // the largest length
		rest = append(le(0xffffffff), data...)
	case 4: // length zero, data present: by the format an empty plaintext followed by padding
		rest = append(le(0), data...)
		wellFormed, encodes = true, []byte{}
	case 5: // correct
		rest = append(le(uint32(len(data))), data...)
		wellFormed, encodes = true, data
	case 6:
		return []byte{}, false, nil // not even a hash
	}
	pad := 0
	for (32+len(rest)+pad)%32 != 0 {
		pad++
	}
	if (noPad || rng.Intn(3) == 0) && pad > 0 {
		pad, wellFormed = 0, false // not padded to the block size
	}
	rest = append(rest, make([]byte, pad)...)
	h := cipher.SumSHA256(rest) // the hash covers the padding too
	return append(h[:], rest...), wellFormed, encodes
}

// sha256-xor container around an arbitrary body, built from the documented format: base64(SHA256(nonce|blocks) | nonce | blocks),
// block i = body block i XOR (Secp256k1Hash(password) + SHA256(varint(i) padded to 32 | SHA256(nonce)))
func xorContainer(body, pw []byte) []byte {
	key := secp256k1.Secp256k1Hash(pw)
	nonce := make([]byte, 32)
	rng.Read(nonce)
	nh := cipher.SumSHA256(nonce)
	var blocks []byte
	for i := 0; i*32 < len(body); i++ {
		idx := make([]byte, 32)
		binary.PutVarint(idx, int64(i))
		inh := cipher.SumSHA256(append(idx, nh[:]...))
		var kh cipher.SHA256
		copy(kh[:], key)
		ks := cipher.AddSHA256(kh, inh)
		end := (i + 1) * 32
		if end > len(body) {
			end = len(body)
		}
		for j, b := range body[i*32 : end] {
			blocks = append(blocks, b^ks[j])
		}
	}
	rest := append(append([]byte{}, nonce...), blocks...)
	sum := cipher.SumSHA256(rest)
	return []byte(base64.StdEncoding.EncodeToString(append(sum[:], rest...)))
}

func main() {
	if len(os.Args) < 5 {
		log.Fatal("usage: walletrec <out.ndjson> <seed> <count> <service|decrypt>")
	}
	logging.Disable()
	seed, _ := strconv.ParseInt(os.Args[2], 10, 64)
	count, _ := strconv.Atoi(os.Args[3])
	rng = rand.New(rand.NewSource(seed))
	f, err := os.Create(os.Args[1])
	if err != nil {
		log.Fatal(err)
	}
	w := bufio.NewWriterSize(f, 1<<20)
	enc = json.NewEncoder(w)
	flush = func() { w.Flush() }
	for i := 0; i < count; i++ {
		if os.Args[4] == "service" {
			runSequence(i)
		} else {
			genDecrypt()
		}
	}
	w.Flush()
	f.Close()
}
