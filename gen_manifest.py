#!/usr/bin/env python3
"""Regenerates MANIFEST.json from the table below (single source of truth for the interface)."""
import json, os, subprocess
HERE = os.path.dirname(os.path.abspath(__file__))

CHECKS = {
 # id: (engine, category, text, level_note, technique, design_ref)
 "C01": ("ledger", "model_checking",
         "Ledger.tla (Valid/Apply over exact BigNat amounts) is model-checked on a small universe (MCLedger: every valid or flawed block in every reachable state; supply invariant). Seeded random histories are run on a real follower visor fed by a real publisher visor; before each valid block the follower is offered mutants (coins created, coins destroyed, zero-coin output among 20 kinds); TLC evaluates every edge {pre, block, verdict, post}: verdict = Valid, post = Apply, and the observed unspent set always sums to the genesis volume.",
         "Amounts near 2^64 are covered on the helper level (C31) and in the model, not in the real histories (genesis volume 10^14); harness-constructed flags sigOK/bodyOK/sigsOK; TLC/SANY/Json trusted.",
         "TLA+ spec + TLC exhaustive model checking of the design; record->validate of real visor histories edge by edge by TLC",
         "DESIGN.md 4.1, 5 C01, 9"),
 "C02": ("ledger", "model_checking",
         "Same engine as C01. MCLedger checks unspent = created - spent and the NoDoubleSpend action property on the design. On the real follower every accepted edge must satisfy post.unspent = pre.unspent - inputs + created outputs (ids as the node derives them), new ids must not collide, and blocks that double-spend inside a block, replay a spent output, spend an unknown output or repeat an input must be rejected without changing anything.",
         "Edges chain (post of one edge is the pre of the next, same observation), so per-edge equality gives created-minus-spent for the whole history; non-arbitrating follower only.",
         "TLA+ spec + TLC exhaustive model checking of the design; record->validate of real visor histories edge by edge by TLC",
         "DESIGN.md 4.1, 5 C02, 9"),
 "C04": ("ledger", "model_checking",
         "Same engine as C01. For every offered block TLC decides Valid(s, b) from the logged header fields (signature by construction, seq, time, parent hash vs head hash, body hash, checksum vs the node's stored checksum, genesis hash) and compares with the real verdict; an accepted block must be stored with a header hash equal to the offered one and a verifying signature; a rejected block must leave head, unspent set, checksum, pool and history count unchanged.",
         "Mutants are re-signed with the publisher key (the harness owns it), so the signature check alone cannot mask header checks; the 'valid block rejected' outcome is an infrastructure error, not a C04 verdict.",
         "TLA+ spec + TLC exhaustive model checking of the design; record->validate of real visor histories edge by edge by TLC",
         "DESIGN.md 4.1, 5 C04, 9"),
 "C03": ("ledger", "model_checking",
         "Same engine as C01. Ledger.tla states the hour rule exactly (sum of output hours, never wrapping, <= hours the inputs have accrued at the previous block's time by the coin-hour formula of Fn.tla; an input whose final addition overflows counts zero inside a block and is refused for a new unconfirmed transaction). Real follower histories offer blocks whose outputs carry exactly the accrued hours (must be accepted), one hour more, several more, and a pair of outputs whose hours wrap around 2^64 (accepted by the real code: known finding F16, after which the history continues on the follower alone and exercises the legacy rule: the overflowing input counts zero). Admission of unconfirmed transactions with overflowing output hours is checked on the pool records (TxPool.tla).",
         "The wrap of the output-hour sum inside blocks is a recorded known finding (documented legacy behaviour, needs a hard fork); monotonic accrual follows from the definition of CoinHours in Fn.tla, which C31 binds to the code.",
         "TLA+ spec + TLC exhaustive model checking of the design; record->validate of real visor histories edge by edge by TLC",
         "DESIGN.md 4.1, 5 C03, 9"),
 "C05": ("pool", "model_checking",
         "TxPool.tla defines the publisher's block as: candidates = hard and soft valid (create-block parameters), sorted by floor(fee*1024/size) descending then hash ascending, longest prefix within the block size, capped, then arbitration that drops a transaction exactly when it conflicts with one already included. MCTxPool checks on a small universe (every interleaving of injections, refresh, removal and block creation) that this block is Valid for an independent node (Ledger.tla), holds only admissible transactions, fits the size, is ordered, and that of conflicting candidates exactly the first is in it. On a real arbitrating publisher visor (bolt file) every create call is recorded with the pool it saw; TLC recomputes the expected transaction list from the logged state and compares; every created block is then executed by a real independent follower (edge oracle).",
         "Transaction sizes from the reflection encoder, hash order computed by the recorder; sigsOK by construction; TLC/SANY/Json trusted.",
         "TLA+ spec + TLC exhaustive model checking of the design; record->validate of a real publisher visor's block creation by TLC",
         "DESIGN.md 4.1, 5 C05, 9"),
 "C06": ("pool", "model_checking",
         "TxPool.tla defines admission (foreign: hard rules, soft failure only clears the valid flag; user: user rules, hard rules, soft rules with the user parameters, any failure changes nothing), re-submission (membership unchanged), Refresh (every flag = fresh hard and soft check; returns those that became valid), RemoveInvalid (removes exactly the hard-invalid ones) and removal of confirmed transactions. MCTxPool checks the declarative statements on every interleaving of a small universe. Seeded histories on a real publisher and follower visor (valid, fee-boundary, precision, locked, null-address, bad-signature, unknown/spent-input, oversize, hour-overflow, conflicting and chained-conflict transactions) are recorded operation by operation; TLC computes result class and post pool from the logged state for each record; block executions are checked for removing their transactions from the pool.",
         "The rules are evaluated by TLC from raw logged fields (inputs, outputs, sizes, unspent set, head time, parameters); sigsOK by construction; TLC/SANY/Json trusted.",
         "TLA+ spec + TLC exhaustive model checking of the design; record->validate of real visor pool operations by TLC",
         "DESIGN.md 4.1, 5 C06, 9"),
 "C07": ("views", "exploration",
         "ViewRecords.tla derives every query view from the accepted chain (read back block by block), the unspent projection and the unconfirmed pool: unspent set = created - spent, per-address unspent index, address count, checksum (recomputed by the recorder with crypto/sha256), which block and transaction spent each output ever created, transaction lists per address (confirmed, pending, both, all), confirmed and predicted balances (pending transactions whose inputs are gone do not count), last blocks, block ranges. A real publisher and follower visor are observed at chosen points of seeded histories: head still genesis with a pending transaction, pending pool, right after a block before the pool is pruned, end of round, and after the address index or the history marker was dropped in the bolt file and the node restarted (rebuild).",
         "One recorded known finding (pending transactions that only spend from an address are not listed for it); ordering of listings is not part of the statement and is not checked; sampling over histories.",
         "TLA+ derivations (executable specification) evaluated by TLC on view records of real visors",
         "DESIGN.md 5 C07, 9"),
 "C10": ("txn", "exploration",
         "A third party holds no keys, so every change it can make to a valid signed transaction or block is a byte-level edit: the recorder applies each named edit (the other ECDSA solution n-s with flipped recovery id, recovery id +4/+27/high bit/xor, r+n, bit flips in r, s and in every header and body field, reordered inputs/outputs/transactions, appended or dropped bytes, recomputed unsigned header fields) to every transaction and block of seeded histories and offers the result to a real follower visor in the same role (InjectForeignTransaction / ExecuteSignedBlock / DeserializeTransaction). TxnRecords.tla: accepted implies unchanged. Every signature the real code produced is logged: low s and recovery id < 4.",
         "Curve arithmetic is not modelled (C14); the edit list is finite and named, positions are sampled.",
         "TLA+ predicate evaluated by TLC on recorded offers of systematically modified objects to a real visor",
         "DESIGN.md 5 C10, 9"),
 "C08": ("crash", "fault_enumeration",
         "Crash.tla models the node's life as atomic commits (database creation, index/history initialisation, genesis, one commit per block and per pool update) with up to two crashes anywhere, restart and re-delivery of the remaining events; TLC checks that the integrity verification is ok on every disk a crash can leave, that the script always finishes (liveness) and that the final disk equals the uncrashed one. On the real node the commit hook in dbutil.DB.Update (build tag verif) copies the bolt file at every commit boundary of a scripted life; every copy, and the created-but-empty file, is verified with CheckDatabase under a watchdog (non-return is the violation), restarted with visor.New + Init, given the remaining blocks and pool updates, and its head, unspent checksum, unspent count, history size and pool are compared with the uncrashed run; the thorough tier crashes the restarted run again at each of its commit boundaries. TLC checks every plan record and that the recorded commit sequence is one of the specified life-cycle.",
         "Crashes between commits are enumerated completely for the script; crashes inside a commit rely on bolt's atomic commit (not replayed at page level); the start-up sequence is visor.OpenDB/CheckDatabase/New/Init (the command-line wrapper's DB-version bookkeeping is not included).",
         "TLA+ life-cycle spec model-checked by TLC (incl. liveness); every commit-boundary crash image of the real database restarted by the real code; records checked by TLC",
         "DESIGN.md 4.2, 5 C08, 9"),
 "C09": ("txn", "exploration",
         "TxnRules.tla states well-formedness as a predicate over a transaction's raw fields (inputs, outputs, signature forms by construction, type, length field vs measured size, inner hash). The complete decision table of the small abstract domain (0..2 inputs and outputs, every fault on/off, every signature valid / null / non-canonical: 4224 vectors) is built as real transactions and passed to Verify and VerifyUnsigned; plus seeded random vectors with up to 3 inputs/outputs and four kinds of unacceptable signature, and DeserializeTransaction on mutated byte strings (decodes => re-encodes to the same bytes, never panics). TLC evaluates the predicate on every record.",
         "Exhaustive over the stated abstract domain, sampling beyond it; arbitrary byte strings are sampled; signature forms are what the recorder constructed.",
         "TLA+ predicate (executable specification) evaluated by TLC on an enumerated decision table and on recorded calls of the real functions",
         "DESIGN.md 5 C09, 9"),
 "C11": ("txn", "exploration",
         "TxnRules.tla/TxPool.tla state the soft rules over exact naturals (size <= limit, fee = input hours at the head time - output hours > 0 and fee*burn >= input hours, no input owned by a locked distribution address, every output a multiple of 10^(6-precision)). VerifySingleTxnSoftConstraints is recorded on generated transactions with fees at required-1 / required / required+1, sizes at limit-1 / limit / limit+1, all burn factors and precisions; the error class must be soft. On the path that applies user, hard and soft rules in order (real InjectUserTransaction / InjectForeignTransaction on a visor) the reported class is compared with the first failing rule set.",
         "Sampling with boundary placement; the standalone function is only required to return nil or a soft error.",
         "TLA+ definitions evaluated by TLC on recorded calls of the real functions and on real visor injections",
         "DESIGN.md 5 C11, 9"),
 "C12": ("txn", "exploration",
         "TxnRules.tla CreateVerdict is the postcondition of spend construction: an invalid request gets a user-level error; a valid request gets a user-level error only if the offered outputs cannot cover coins and hours (computed exactly from all offered outputs); otherwise an unsigned well-formed transaction whose inputs are distinct offered outputs, whose first outputs are the requested ones exactly, whose change output exists iff coins remain, carries exactly the remainder and goes to the change address (or the smallest spent address), whose automatic hours sum to the allotted share, and which burns at least the required fee. transaction.Create is recorded on seeded requests (manual/auto, share factors, small exact-match universes, invalid receivers) and TLC evaluates the verdict per record.",
         "Sampling; which outputs are chosen is left open, as the property does; the allotted amount may have been computed before an extra input was added for change.",
         "TLA+ postcondition evaluated by TLC on recorded calls of transaction.Create",
         "DESIGN.md 5 C12, 9"),
 "C13": ("txn", "exploration",
         "TxnRules.tla SignVerdict: signing succeeds iff the wallet can sign (not watch-only, not encrypted), the inner hash is right, some input is unsigned, the indexes are in range and distinct, every target (the indexes, or all unsigned inputs) is unsigned and owned by the wallet; then exactly the targets become signed, each new signature verifies against the spent output's address, existing signatures are byte-identical, inputs/outputs/inner hash are unchanged; in every case the caller's transaction is untouched. wallet.SignTransaction is recorded over deterministic, collection, bip44 and xpub wallets x encryption x index patterns x ownership x pre-signed patterns.",
         "Sampling of the case table; ownership and pre-signed patterns are what the recorder constructed.",
         "TLA+ postcondition evaluated by TLC on recorded calls of wallet.SignTransaction",
         "DESIGN.md 5 C13, 9"),
 "C17": ("wallets", "model_checking",
         "WalletRecords.tla: every wallet entry's address is the address of its public key and its public key the one of its secret key (where held), and the entry addresses of every chain equal the single-batch reference derivation from the same seed (passphrase, account, chain) of the same length - whatever sequence of NewAddresses batches, scans with activity patterns, encrypt/decrypt, recover and save/reload produced them; a watch-only (xpub) wallet equals the external chain of the bip44 wallet of the same mnemonic. MCWalletService model-checks that counts only grow by the requested amounts under every interleaving with failing saves. Seeded operation sequences run on a real wallet.Service over deterministic, bip44, xpub and collection wallets; after each operation memory, a freshly started service and the facts are recorded and TLC evaluates the invariants.",
         "The reference derivation uses the same code in one batch: the check is independence of batching and persistence, not conformance to BIP32/39/44 (C16, not applicable).",
         "TLA+ invariants evaluated by TLC on records of a real wallet service; TLC model checking of the service state machine",
         "DESIGN.md 4.8, 5 C17, 9"),
 "C18": ("wallets", "model_checking",
         "WalletRecords.tla: a locked wallet's serialised form and file contain neither its seed, passphrase nor any secret key (searched as text, base64 and hex against the reference derivation), unlocking with the right password restores exactly the seed, passphrase, secret keys and entries, any other password is rejected - checked on every encrypted wallet reached by the seeded service sequences (both ciphers). Both ciphers are also called directly on damaged ciphertexts (truncated, empty, '//8=', bit flips before and after base64, length field beyond the data, wrong nonce/salt, hostile scrypt parameters, random bytes, wrong password): plaintext or error, never a panic, and never a wrong plaintext for an untouched ciphertext.",
         "Fast cipher variants (sha256-xor, scrypt N=2^4..2^15) stand for the default scrypt parameters; scrypt memory exhaustion by hostile parameters is not exercised.",
         "TLA+ invariants evaluated by TLC on records of a real wallet service and of direct cipher calls",
         "DESIGN.md 4.8, 5 C18, 9"),
 "C19": ("wallets", "model_checking",
         "MCWalletService (TLC, exhaustive on a small universe with failing saves): the wallets a fresh service would load equal memory (temporary and unloaded wallets excepted), a fresh service can always start, a failed operation changes nothing. On a real wallet.Service every operation of seeded sequences (create, create temporary, new addresses, scan, label, encrypt, decrypt, recover, unload, secret updates; wrong passwords, unknown ids, unsupported types) is followed by starting a FRESH wallet.NewService on the same directory; TLC checks per record: the fresh service starts, its wallets equal memory's persistent ones field by field (type, fingerprint, encryption state, label, every address), a failed operation left memory unchanged, no two wallets share a fingerprint in memory or on disk, and the named wallet changed as the operation says while all others did not.",
         "Explicitly unloaded wallets are treated like temporary ones (they reappear at the next start); save failures are explored in the model only (the sandbox runs as root, permissions cannot make a save fail).",
         "TLA+ spec + TLC exhaustive model checking; record->validate of a real wallet service with a fresh reload after every step",
         "DESIGN.md 4.8, 5 C19, 9"),
 "C20": ("filesave", "fault_enumeration",
         "The real save of a wallet file (wallet.Save) and of a key-value storage file (kvstorage flush), both through file.SaveBinary, runs once in a child process under strace; the recorded file-system operations (open/truncate, writes with their lengths, rename, unlink, fsync) are the PROGRAM that FileSave.tla interprets on an abstract directory; TLC explores every crash point of that program (after each operation, inside each write) and checks RecoverOldOrNew. Each crash point is then materialised (the operations replayed on a copy of the pre-save directory, the last write cut at 1 byte / half / all but one byte) and loaded by the real start-up code (wallet.NewService, kvstorage.NewManager); TLC checks every image record: the node starts and finds the old or the new content, as the model predicts.",
         "Process crash, not power failure: bytes handed to write() are in the file, renames are atomic and durable; one save per file kind (all save paths go through file.SaveBinary).",
         "strace-recorded operation sequence interpreted by a TLA+ spec; TLC over all crash points; every crash image loaded by the real code",
         "DESIGN.md 4.3, 5 C20, 9"),
 "C22": ("wire", "model_checking",
         "Framing.tla's Step (append a read, extract every complete frame, invalid length disconnects) is model-checked for every split of every small stream into reads (MCFraming: in-order delivery, nothing lost or duplicated, bad length disconnects). The real bytes.Buffer+decodeData loop, convertToMessage and random byte strings are recorded call by call (gnet overlay) and TLC checks every record: delivered frames and remaining buffer per read, whole-stream delivery, dispatch verdicts, no panic, canonical re-encoding.",
         "convertToMessage is exercised with the overlay's own registered message type (daemon message codecs belong to C21/C25); the timing of a disconnect follows the code (decided once the prefix plus one byte are buffered); TLC/SANY/Json trusted.",
         "TLA+ spec + TLC exhaustive model checking; record->validate of the real receive path by TLC",
         "DESIGN.md 4.5, 5 C22, 9"),
 "C23": ("wire", "model_checking",
         "Framing.tla defines the longest fitting prefix capped by the item limit (KeptCount) and the sender/receiver length criterion (SendFits); MCTruncate proves the scan form equal to the declarative definition on all small cases. The real NewGiveBlocks/GiveTxns/GivePeers/AnnounceTxns/GetTxns constructors are called with limits placed at prefix boundaries +-1 (item sizes measured with the reflection encoder), and the real sendMessage with lengths around the limit; TLC checks kept count, encoded length and acceptance on every record.",
         "Item sizes come from the reference encoder (C21 relates it to the generated one); TLC/SANY/Json trusted.",
         "TLA+ spec + TLC exhaustive model checking; record->validate of the real constructors by TLC",
         "DESIGN.md 4.5, 5 C23, 9"),
 "C24": ("conn", "model_checking",
         "Connections.tla is model-checked over its complete state space for the stated constants (26 800 states); the real daemon.Connections is explored breadth-first (every call of the alphabet in every reachable implementation state) and TLC checks every recorded edge against the specification's own actions and every state against the derived-map definitions; TLC-simulated behaviours are replayed on the real object.",
         "Assumes gnet's id uniqueness among live connections and non-zero remote ports; bounded alphabet (2 IPs x 2 ports, mirrors {0,7}, listen ports {0,6000}, ids 0..3); TLC/SANY/Json module trusted.",
         "TLA+ spec + TLC exhaustive model checking; implementation-side explicit-state search validated edge by edge by TLC (trace validation), plus TLC-generated behaviours replayed into the real object",
         "DESIGN.md 4.4, 5 C24"),
 "C25": ("sync", "model_checking",
         "Sync.tla IntroVerdict is the introduction decision in the documented order (self connection, version, extra bytes absent/short, blockchain public key, verification parameters present and in range, user agent fits and is valid, genesis-hash tail length) and FirstMessageTolerated the pre-introduction gate. A real node (daemon.Daemon + visor) listens on 127.0.0.1; the harness connects over TCP, frames messages itself and sends, on fresh connections, introductions drawn over the whole decision table and each of the 12 message types as first message; it observes whether the node starts the protocol (asks for blocks) or disconnects. TLC evaluates each record: introduced only if the verdict is 'introduced'; anything else, and any non-tolerated first message, ends in a disconnect; a peer list before the introduction does not.",
         "Whether a fully valid introduction is accepted is only used as a liveness guard of the driver (the property is one-directional); messages pipelined behind a refused one may still be processed before the close lands (observed, outside the statement). MCSync model-checks the protocol the gate protects.",
         "TLA+ decision function evaluated by TLC on records of a real node driven over TCP; TLC model checking of the sync protocol",
         "DESIGN.md 4.5, 5 C25, 9"),
 "C26": ("pex", "model_checking",
         "Pex.tla: peers are records keyed by the sanitised address; AddPeer (invalid -> error; known -> seen; room -> added; full -> evict the longest-unseen UNTRUSTED peer only if unseen for a day, else error), AddPeers (only valid addresses, nothing removed, never beyond Max, choice of subset open), removal, trust, retry counters, the periodic clean-up (untrusted and unseen beyond the expiration), restart. MCPex checks on every interleaving of a small universe that only valid addresses are ever keys, that additions never grow the list beyond Max and that trusted peers leave only by explicit removal. Seeded operation sequences on a real pex.Pex (overlay in package pex, peers.json in a scratch directory, ages set through LastSeen, restarts) are recorded step by step; TLC checks result and post list of every operation.",
         "Validity is judged on the parsed value (1.2.3.4:06000 is kept under that key); private IPv4 ranges count as global unicast as in Go's net package; a custom peers file at start-up is outside the claim.",
         "TLA+ spec + TLC exhaustive model checking; record->validate of a real Pex by TLC",
         "DESIGN.md 4.6, 5 C26, 9"),
 "C27": ("apigate", "exploration",
         "ApiGate.tla states the access decision in the order the checks apply: basic auth (exactly the configured username and password, or none when none is configured), JSON content type for v2 POST, Host check, Origin-else-Referer check, CSRF token for POST/PUT/DELETE (only the most recently issued unexpired token of this node), method served, one of the endpoint's API sets enabled. The route table (49 endpoints: URI, methods, API sets) is generated from the documentation src/api/README.md and frozen in ApiRoutes.tla. The real server mux (api.create) is asked documented route x {GET,POST,PUT,DELETE} under seeded configurations and header classes through an in-package test with the stub gateway (a call into it shows that the endpoint's logic ran); TLC evaluates the verdict for every record and compares status and refusing check.",
         "Sampling of the product space (120 configurations x 60 requests in the quick tier); two recorded known findings (stateless CSRF tokens; wallet-recover's API set differs from the documentation); CORS pre-flight not exercised.",
         "TLA+ decision function over a documented route table, evaluated by TLC on recorded requests to the real server mux",
         "DESIGN.md 4.7, 5 C27, 9"),
 "C28": ("apicrash", "exploration",
         "HttpRecords.tla: every request gets a complete HTTP response with a documented status - not a dropped connection (what net/http does after a handler panic), not a hang, and the process survives. A real node is composed in the harness process as skycoin.go does (wallet.NewService, visor.New on a bolt file with a chain and a pending transaction or still at the genesis block, daemon.New with networking disabled, kvstorage, api.NewGateway, api.Create on 127.0.0.1) and is sent requests over TCP: documented routes x methods, the endpoint's documented parameters plus random extras, values taken from the node's state (confirmed / pending / spent / unknown ids, wallet ids, encoded transactions spending unspent / spent / unknown outputs, unsigned) or hostile (empty, huge, negative, non-numeric, wrong JSON types, cut JSON), as query, form or JSON; plus probes with a count of 2^63-1 addresses. TLC checks every record; a death of the process is attributed to the last request sent.",
         "Random exploration of an unbounded input space; one recorded known finding (unbounded scan count at wallet creation); CSRF/header checks off and all API sets on (C27 decides the gate).",
         "TLA+ predicate evaluated by TLC on recorded requests to a real in-process node over HTTP",
         "DESIGN.md 5 C28, 9"),
 "C29": ("fn", "model_checking",
         "Fn.tla defines page bounds over exact naturals; MCPaging walks pages 1..N+2 for every list length <= 25 and page size <= 7 and checks that they concatenate to the list exactly once, that N is the reported count and later pages are empty. The real PageIndex.Cal and txnHashesContainer.Pagination (de-duplicated lists, page numbers up to 2^64-1 including wrap-around values) are recorded and TLC checks every record against the same definitions.",
         "The filter/sort steps before paging are not modelled (ordering and de-duplication are taken from the container); TLC/SANY/Json trusted.",
         "TLA+ definitions + TLC model checking; record->validate by TLC over BigNat",
         "DESIGN.md 4.10, 5 C29, 9"),
 "C31": ("fn", "exploration",
         "Fn.tla states each helper as the mathematical value over exact naturals (BigNat.tla, itself checked against TLC integers) plus 'fits in 64 bits'; the real AddUint64, MultUint64, AddUint32, the conversions, RequiredFee, RemainingHours, VerifyTransactionFeeForHours and UxOut.CoinHours are called on boundary-placed and random arguments and TLC evaluates the definition on every record.",
         "Sampling, not proof: a pure function over 2^128 arguments; boundary classes are listed in the evidence rule; TLC/SANY/Json trusted.",
         "TLA+ definitions (executable specification) evaluated by TLC on recorded calls of the real functions",
         "DESIGN.md 4.10, 5 C31, 9"),
 "C32": ("poolrun", "model_checking",
         "Pool.tla models the pool's concurrency skeleton one action per blocking point (Run: start worker, listen, publish the listener under its lock, accept, wg.Wait, close done; the strand worker; Strand callers on the unbuffered request channel; Connect with its WaitGroup registration and connection goroutine; Shutdown) and TLC checks every interleaving of Run, worker, two callers, their connection goroutines and Shutdown (25k states, with liveness): Shutdown terminates, every call returns, no result cell is read while the worker may write it, wg.Add never runs from zero during wg.Wait, nothing registered and no pool goroutine left after Shutdown, a call answered closed was not made; the three pre-repair designs (PoolAsIs*.cfg) are each refuted by TLC. Binding: a real ConnectionPool on 127.0.0.1 built with -race, 1-4 goroutines issuing random operations and network events with scheduling noise under GOMAXPROCS 1..16, Shutdown after a seeded delay (0 = overlapping the start of Run), every operation again after Shutdown; one record per pool lifetime, per race-detector report and per crash of the process, each checked by TLC against PoolCore's operators (shared with the model).",
         "Schedules of the real pool are sampled, not enumerated (the exhaustive part is the model); 5 s watchdogs define 'never returns'; daemon callbacks not installed.",
         "TLA+ spec + TLC model checking incl. liveness (and refutation of the pre-repair designs); record->validate by TLC of real pool lifetimes under the Go race detector",
         "DESIGN.md 5 C32, 9"),
 "C33": ("sync", "model_checking",
         "Sync.tla Process/Replies define what one GIVB message does (blocks at or below the head at arrival are skipped, the first block that cannot be appended ends the message, progress is announced and followed by a request above the new head). MCSync model-checks, for a network that loses, duplicates and reorders and an adversary with hostile payloads, that the follower only ever holds a gap-free prefix of what it was given and converges under fair periodic requests (liveness). TLC-simulated payload sequences (GenSync) and seeded ones (permutations, duplicates, forged and non-extending blocks) are sent to a real node over TCP with a PING/PONG barrier after each message; TLC checks head, chain-is-publisher-prefix and the node's replies per message; convergence runs answer the node's periodic requests with lost, duplicated and hostile answers first.",
         "TCP localhost ordering; forged = signed by another key, alien = publisher-signed with a wrong parent (by construction); chain of 4-5 one-transaction blocks.",
         "TLA+ spec + TLC model checking incl. liveness; TLC-generated behaviours replayed into a real node over TCP; record->validate by TLC",
         "DESIGN.md 4.5, 5 C33, 9"),
}

NOT_APPLICABLE = {
 "C14": "agreement of the pure-Go secp256k1 with curve mathematics for every key/message/signature is numeric accuracy of one pure function; TLC has 32-bit integers and no field arithmetic, a limb-level TLA+ reimplementation would be an unverified textbook implementation (DESIGN.md section 6)",
 "C16": "BIP32/39/44 values are defined through PBKDF2/HMAC-SHA512 and curve arithmetic, not expressible in TLA+ at usable cost, and there is no state or history to model (wallet-level consequences are decided under C17) (DESIGN.md section 6)",
}

PENDING = "engine not built yet in this round (planned in DESIGN.md section 5); not claimed until its check exists"

def main():
    props = [json.loads(l)["id"] for l in open(os.path.join(HERE, "properties.jsonl"))]
    hooks_commits = []
    hp = os.path.join(HERE, "hooks_commits.txt")
    if os.path.exists(hp):
        hooks_commits = [l.split()[0] for l in open(hp) if l.strip() and not l.startswith("#")]
    m = {
     "version": 1,
     "setup_cmd": "./setup.sh",
     "hooks": {
       "guard": "verif",
       "enable": "go build/test -tags verif (plus -overlay of /verif/overlay/** into the package directories; /repo is never written)",
       "baseline_off_cmd": "cd /repo && GOFLAGS=-mod=mod GOPROXY=off GOSUMDB=off go test -mod=mod -vet=off -count=1 -timeout 25m ./...",
       "source_commits": hooks_commits,
       "add_only": True,
     },
     "engines": [],
     "checks": [],
     "not_applicable": [],
     "notes": "One entry point: ./check <Cxx> --tier quick|thorough (seed from VERIF_SEED). Specifications in specs/<engine>/, Go recorders/replayers in harness/ and overlay/, known findings in known_findings.json. See DESIGN.md.",
    }
    engines = {}
    for pid in props:
        if pid in CHECKS:
            eng, cat, text, note, tech, ref = CHECKS[pid]
            engines.setdefault(eng, []).append(pid)
            m["checks"].append({
              "property_id": pid,
              "quick_cmd": "./check %s --tier quick" % pid,
              "thorough_cmd": "./check %s --tier thorough" % pid,
              "evidence_file": "/verif/evidence/%s.json" % pid,
              "replay_cmd_template": "./check %s --replay {path}" % pid,
              "engine": eng,
              "level_claimed": {"category": cat, "text": text, "design_ref": ref},
              "level_note": note,
              "technique": tech,
            })
        else:
            m["not_applicable"].append({"property_id": pid, "reason": NOT_APPLICABLE.get(pid, PENDING)})
    for eng, ps in engines.items():
        m["engines"].append({"name": eng, "path": "engines/%s.py + specs/%s" % (eng, {"pool": "ledger", "txn": "ledger", "views": "ledger"}.get(eng, eng)), "serves_properties": ps,
                             "kind_free_text": "TLA+ specification + TLC (model checking, behaviour generation, trace validation) bound to the Go code by recorders/replayers"})
    with open(os.path.join(HERE, "MANIFEST.json"), "w") as fh:
        json.dump(m, fh, indent=1)
        fh.write("\n")

if __name__ == "__main__":
    main()
