#!/usr/bin/env python3
"""Regenerates MANIFEST.json from the table below (single source of truth for the interface)."""
import json, os, subprocess
HERE = os.path.dirname(os.path.abspath(__file__))

CHECKS = {
 # id: (engine, category, text, level_note, technique, design_ref)
 "C24": ("conn", "model_checking",
         "Connections.tla is model-checked over its complete state space for the stated constants (26 800 states); the real daemon.Connections is explored breadth-first (every call of the alphabet in every reachable implementation state) and TLC checks every recorded edge against the specification's own actions and every state against the derived-map definitions; TLC-simulated behaviours are replayed on the real object.",
         "Assumes gnet's id uniqueness among live connections and non-zero remote ports; bounded alphabet (2 IPs x 2 ports, mirrors {0,7}, listen ports {0,6000}, ids 0..3); TLC/SANY/Json module trusted.",
         "TLA+ spec + TLC exhaustive model checking; implementation-side explicit-state search validated edge by edge by TLC (trace validation), plus TLC-generated behaviours replayed into the real object",
         "DESIGN.md 4.4, 5 C24"),
}

NOT_APPLICABLE = {
 "C14": "agreement of the pure-Go secp256k1 with curve mathematics for every key/message/signature is numeric accuracy of one pure function; TLC has 32-bit integers and no field arithmetic, a limb-level TLA+ reimplementation would be an unverified textbook implementation (DESIGN.md section 6)",
 "C16": "BIP32/39/44 values are defined through PBKDF2/HMAC-SHA512 and curve arithmetic, not expressible in TLA+ at usable cost, and there is no state or history to model (wallet-level consequences are decided under C17) (DESIGN.md section 6)",
}

PENDING = "engine not built yet in this round (planned in DESIGN.md section 5); not claimed until its check exists"

def main():
    props = [json.loads(l)["id"] for l in open(os.path.join(HERE, "properties.jsonl"))]
    hooks_commits = []
    hp = os.path.join(HERE, "hooks_commits.txt")
    if os.path.exists(hp):
        hooks_commits = [l.split()[0] for l in open(hp) if l.strip() and not l.startswith("#")]
    m = {
     "version": 1,
     "setup_cmd": "./setup.sh",
     "hooks": {
       "guard": "verif",
       "enable": "go build/test -tags verif (plus -overlay of /verif/overlay/** into the package directories; /repo is never written)",
       "baseline_off_cmd": "cd /repo && GOFLAGS=-mod=mod GOPROXY=off GOSUMDB=off go test -mod=mod -vet=off -count=1 -timeout 25m ./...",
       "source_commits": hooks_commits,
       "add_only": True,
     },
     "engines": [],
     "checks": [],
     "not_applicable": [],
     "notes": "One entry point: ./check <Cxx> --tier quick|thorough (seed from VERIF_SEED). Specifications in specs/<engine>/, Go recorders/replayers in harness/ and overlay/, known findings in known_findings.json. See DESIGN.md.",
    }
    engines = {}
    for pid in props:
        if pid in CHECKS:
            eng, cat, text, note, tech, ref = CHECKS[pid]
            engines.setdefault(eng, []).append(pid)
            m["checks"].append({
              "property_id": pid,
              "quick_cmd": "./check %s --tier quick" % pid,
              "thorough_cmd": "./check %s --tier thorough" % pid,
              "evidence_file": "/verif/evidence/%s.json" % pid,
              "replay_cmd_template": "./check %s --replay {path}" % pid,
              "engine": eng,
              "level_claimed": {"category": cat, "text": text, "design_ref": ref},
              "level_note": note,
              "technique": tech,
            })
        else:
            m["not_applicable"].append({"property_id": pid, "reason": NOT_APPLICABLE.get(pid, PENDING)})
    for eng, ps in engines.items():
        m["engines"].append({"name": eng, "path": "engines/%s.py + specs/%s" % (eng, eng), "serves_properties": ps,
                             "kind_free_text": "TLA+ specification + TLC (model checking, behaviour generation, trace validation) bound to the Go code by recorders/replayers"})
    with open(os.path.join(HERE, "MANIFEST.json"), "w") as fh:
        json.dump(m, fh, indent=1)
        fh.write("\n")

if __name__ == "__main__":
    main()
