"""Shared machinery of /verif/check: paths, Go builds from the repo's working tree, TLC runs,
evidence files, known findings, verdict.  See DESIGN.md section 2.6 and 3."""
import hashlib
import json
import os
import re
import shutil
import subprocess
import sys
import time

VERIF = os.path.dirname(os.path.dirname(os.path.abspath(__file__)))
REPO = os.environ.get("VERIF_REPO", "/repo")
WORK = os.environ.get("VERIF_WORK", os.path.join(VERIF, ".work"))
EVIDENCE = os.environ.get("VERIF_EVIDENCE_DIR", os.path.join(VERIF, "evidence"))
SPECS = os.path.join(VERIF, "specs")
TLA_CP = "/opt/veriftools/tla/tla2tools.jar:/opt/veriftools/tla/CommunityModules-deps.jar"
NCPU = os.cpu_count() or 4


class Infra(Exception):
    """Infrastructure failure (build error, TLC crash, timeout): exit 2, never a violation."""


def log(*a):
    print("[check]", *a, file=sys.stderr, flush=True)


def go_env():
    e = dict(os.environ)
    e.update({"GOFLAGS": "-mod=mod", "GOPROXY": "off", "GOSUMDB": "off", "GOTOOLCHAIN": "local",
              "CGO_ENABLED": e.get("CGO_ENABLED", "1")})
    return e


def fresh_dir(path):
    if os.path.isdir(path):
        shutil.rmtree(path)
    os.makedirs(path)
    return path


def run(cmd, cwd=None, env=None, timeout=None, check=True, stdout=subprocess.PIPE, stderr=subprocess.STDOUT):
    t0 = time.time()
    try:
        p = subprocess.run(cmd, cwd=cwd, env=env, timeout=timeout, stdout=stdout, stderr=stderr, text=True)
    except subprocess.TimeoutExpired as ex:
        raise Infra("timeout after %ss: %s" % (timeout, " ".join(cmd)[:200])) from ex
    if check and p.returncode != 0:
        raise Infra("command failed (%d): %s\n%s" % (p.returncode, " ".join(cmd)[:300], (p.stdout or "")[-3000:]))
    p.wall = time.time() - t0
    return p


# ---------------------------------------------------------------------------------------------
# Go builds.  Everything is compiled from REPO's current working tree; overlay files are mapped
# into the package directories (REPO itself is never written).

def overlay_json(workdir):
    repl = {}
    odir = os.path.join(VERIF, "overlay")
    for root, _, files in os.walk(odir):
        for f in files:
            if f.endswith(".go"):
                rel = os.path.relpath(os.path.join(root, f), odir)
                repl[os.path.join(REPO, "src", rel)] = os.path.join(root, f)
    path = os.path.join(workdir, "overlay.json")
    with open(path, "w") as fh:
        json.dump({"Replace": repl}, fh)
    return path


def build_pkg_test(workdir, pkg_rel, name, race=False, tags="verif"):
    """go test -c of a REPO package (e.g. 'src/daemon') with the overlay; returns the binary path."""
    os.makedirs(os.path.join(workdir, "bin"), exist_ok=True)
    out = os.path.join(workdir, "bin", name + ".test")
    cmd = ["go", "test", "-c", "-vet=off", "-tags", tags, "-overlay", overlay_json(workdir), "-o", out]
    if race:
        cmd.append("-race")
    cmd.append("./" + pkg_rel)
    run(cmd, cwd=REPO, env=go_env(), timeout=900)
    if not os.path.exists(out):
        raise Infra("test binary not produced for " + pkg_rel)
    return out


def harness_modfile(workdir):
    """The harness module with `replace => REPO` (generated, so that VERIF_REPO is honoured)."""
    hdir = os.path.join(VERIF, "harness")
    mod = os.path.join(workdir, "harness.mod")
    with open(os.path.join(hdir, "go.mod")) as fh:
        txt = fh.read()
    txt = re.sub(r"replace github.com/skycoin/skycoin => \S+", "replace github.com/skycoin/skycoin => " + REPO, txt)
    with open(mod, "w") as fh:
        fh.write(txt)
    shutil.copy(os.path.join(REPO, "go.sum"), os.path.join(workdir, "harness.sum"))
    return mod


def build_harness(workdir, cmd_rel, name, race=False, tags="verif"):
    """go build of /verif/harness/<cmd_rel> against REPO; returns the binary path."""
    os.makedirs(os.path.join(workdir, "bin"), exist_ok=True)
    out = os.path.join(workdir, "bin", name)
    cmd = ["go", "build", "-tags", tags, "-modfile", harness_modfile(workdir), "-o", out]
    if race:
        cmd.append("-race")
    cmd.append("./" + cmd_rel)
    run(cmd, cwd=os.path.join(VERIF, "harness"), env=go_env(), timeout=900)
    return out


def build_harness_test(workdir, pkg_rel, name, race=False, tags="verif"):
    os.makedirs(os.path.join(workdir, "bin"), exist_ok=True)
    out = os.path.join(workdir, "bin", name + ".test")
    cmd = ["go", "test", "-c", "-vet=off", "-tags", tags, "-modfile", harness_modfile(workdir), "-o", out]
    if race:
        cmd.append("-race")
    cmd.append("./" + pkg_rel)
    run(cmd, cwd=os.path.join(VERIF, "harness"), env=go_env(), timeout=900)
    return out


# ---------------------------------------------------------------------------------------------
# TLC

_RE_STATES = re.compile(r"(\d+) states generated, (\d+) distinct states found, (\d+) states left on queue")
_RE_DEPTH = re.compile(r"The depth of the complete state graph search is (\d+)")
_RE_SIM = re.compile(r"The number of states generated: (\d+)")


def unquote_tla(s):
    """A TLA+ string as TLC prints it -> python str."""
    s = s.strip()
    if s.startswith('"') and s.endswith('"'):
        s = s[1:-1]
    out = []
    i = 0
    while i < len(s):
        c = s[i]
        if c == "\\" and i + 1 < len(s):
            n = s[i + 1]
            out.append({"n": "\n", "t": "\t", '"': '"', "\\": "\\"}.get(n, "\\" + n))
            i += 2
        else:
            out.append(c)
            i += 1
    return "".join(out)


def run_tlc(spec_dir, module, cfg, workdir, files=None, workers=None, simulate=None, depth=None, seed=None,
            timeout=600, extra=None, heap=None, max_mismatch=2000, deque=False):
    """Copies the spec directory (plus data files) to a scratch directory and runs TLC there.
    Returns dict(out, generated, distinct, depth, ok, printed, mismatches, wall)."""
    d = fresh_dir(workdir)
    for f in os.listdir(spec_dir):
        if f.endswith((".tla", ".cfg")):
            shutil.copy(os.path.join(spec_dir, f), d)
    shared = os.path.join(SPECS, "shared")
    if os.path.isdir(shared):
        for f in os.listdir(shared):
            if f.endswith(".tla") and not os.path.exists(os.path.join(d, f)):
                shutil.copy(os.path.join(shared, f), d)
    for name, src in (files or {}).items():
        dst = os.path.join(d, name)
        if os.path.abspath(src) != os.path.abspath(dst):
            try:
                os.link(src, dst)
            except OSError:
                shutil.copy(src, dst)
    java = ["java", "-XX:+UseParallelGC", "-Xss512m"]
    if heap:
        java.append("-Xmx" + heap)
    if deque:
        java.append("-Dtlc2.tool.queue.IStateQueue=StateDeque")
    cmd = java + ["-cp", TLA_CP, "tlc2.TLC", "-metadir", os.path.join(d, "md"), "-config", cfg]
    if simulate is not None:
        cmd += ["-workers", "1", "-simulate", "num=%d" % simulate]
        if depth is not None:
            cmd += ["-depth", str(depth)]
        if seed is not None:
            cmd += ["-seed", str(seed)]
    else:
        cmd += ["-workers", str(workers or NCPU)]
    cmd += (extra or [])
    cmd.append(module)
    t0 = time.time()
    logf = os.path.join(d, "tlc.out")
    with open(logf, "w") as fh:
        try:
            p = subprocess.run(cmd, cwd=d, stdout=fh, stderr=subprocess.STDOUT, timeout=timeout, text=True)
        except subprocess.TimeoutExpired as ex:
            raise Infra("TLC timeout after %ss on %s" % (timeout, module)) from ex
    wall = time.time() - t0
    res = {"generated": 0, "distinct": 0, "depth": 0, "printed": [], "mismatches": [], "wall": wall,
           "cmd": " ".join(cmd[cmd.index("tlc2.TLC"):]), "log": logf, "rc": p.returncode, "violated": []}
    tail = []
    with open(logf) as fh:
        pending = None
        for line in fh:
            line = line.rstrip("\n")
            # TLC wraps a printed tuple that is wider than its line width over several lines: re-join it
            if pending is not None:
                pending += " " + line.strip()
                if line.rstrip().endswith(">>"):
                    line = pending.replace('<< "MISMATCH"', '<<"MISMATCH"', 1)
                    if line.endswith(" >>"):
                        line = line[:-3] + ">>"
                    pending = None
                else:
                    continue
            elif line.startswith('<< "MISMATCH",') and not line.rstrip().endswith(">>"):
                pending = line.strip()
                continue
            tail.append(line)
            if len(tail) > 60:
                tail.pop(0)
            m = _RE_STATES.search(line)
            if m:
                res["generated"], res["distinct"] = int(m.group(1)), int(m.group(2))
            m = _RE_DEPTH.search(line)
            if m:
                res["depth"] = int(m.group(1))
            m = _RE_SIM.search(line)
            if m:
                res["generated"] = int(m.group(1))
            if line.startswith('<<"MISMATCH"'):
                if len(res["mismatches"]) < max_mismatch:
                    res["mismatches"].append(line)
            elif line.startswith('"GEN '):
                res["printed"].append(unquote_tla(line)[4:])
            elif line.startswith("Error: Invariant ") or line.startswith("Error: Action property") or \
                    line.startswith("Error: Temporal propert") or "is violated" in line or "was violated" in line or \
                    (line.startswith("Error: Postcondition") and "is false" in line):
                res["violated"].append(line)
    with open(logf) as fh:
        raw = fh.read().count('"MISMATCH"')
    if raw > len(res["mismatches"]) and len(res["mismatches"]) < max_mismatch:
        raise Infra("TLC printed %d MISMATCH tuples but %d were parsed (%s)" % (raw, len(res["mismatches"]), logf))
    res["tail"] = "\n".join(tail)
    completed = ("Model checking completed" in res["tail"]) or ("Finished in" in res["tail"])
    if not completed or ("Error:" in res["tail"] and not res["violated"]):
        # parse errors, Java exceptions, OOM ... are infrastructure failures
        if not res["violated"]:
            raise Infra("TLC did not complete on %s:\n%s" % (module, "\n".join(tail[-25:])))
    res["ok"] = completed and not res["violated"]
    return res


def spec_hash(spec_dir, names):
    h = hashlib.sha256()
    for n in sorted(names):
        with open(os.path.join(spec_dir, n), "rb") as fh:
            h.update(n.encode() + b"\0" + fh.read())
    shared = os.path.join(SPECS, "shared")
    if os.path.isdir(shared):
        for n in sorted(os.listdir(shared)):
            with open(os.path.join(shared, n), "rb") as fh:
                h.update(n.encode() + b"\0" + fh.read())
    return h.hexdigest()[:24]


def model_check(spec_dir, module, cfg, workdir, timeout=1200, workers=None, extra=None, cache=True, heap=None):
    """Exhaustive TLC run of a design spec.  The specification does not change when REPO changes,
    so the result is cached by the hash of the spec files (the conformance part is never cached).
    A property violation of the *specification alone* is a defect of the model: Infra."""
    names = [f for f in os.listdir(spec_dir) if f.endswith((".tla", ".cfg"))]
    key = "%s-%s-%s" % (module, cfg, spec_hash(spec_dir, names))
    cdir = os.path.join(VERIF, ".cache", "mc")
    cpath = os.path.join(cdir, key + ".json")
    if cache and os.path.exists(cpath):
        try:
            with open(cpath) as fh:
                r = json.load(fh)
            r["cached"] = True
            return r
        except ValueError:
            pass      # unreadable cache entry: model-check again
    r = run_tlc(spec_dir, module, cfg, workdir, workers=workers, timeout=timeout, extra=extra, heap=heap)
    if not r["ok"]:
        raise Infra("model checking of %s/%s reports a violation of the specification itself "
                    "(a defect of the model, not of the code):\n%s" % (module, cfg, r["tail"]))
    out = {k: r[k] for k in ("generated", "distinct", "depth", "wall", "cmd")}
    out["cached"] = False
    os.makedirs(cdir, exist_ok=True)
    tmp = "%s.%d.tmp" % (cpath, os.getpid())      # several checks may run at once and share this cache
    with open(tmp, "w") as fh:
        json.dump(out, fh)
    os.replace(tmp, cpath)
    return out


# ---------------------------------------------------------------------------------------------
# Known findings, verdict, evidence

def load_known():
    p = os.path.join(VERIF, "known_findings.json")
    if not os.path.exists(p):
        return {"known": [], "fixed": []}
    with open(p) as fh:
        return json.load(fh)


class Result:
    """Collects what a check run covered and the mismatches it saw."""

    def __init__(self, prop, tier, seed, level):
        self.prop, self.tier, self.seed, self.level = prop, tier, seed, level
        self.t0 = time.time()
        self.coverage = {}
        self.assumptions = []
        self.mismatches = []   # dicts: property, signature, what, replay
        self.other = 0

    def mismatch(self, prop, signature, what, replay=""):
        """A disagreement between real-code behaviour and the specification, attributed to `prop`.
        `signature` identifies the failing input / call site / history class (known-findings key)."""
        if prop != self.prop:
            self.other += 1
            return
        self.mismatches.append({"property": prop, "signature": signature, "what": what, "replay": replay})

    def finish(self):
        known = load_known()
        ksigs = {(k["property"], k["signature"]): k for k in known.get("known", [])}
        viol, kf = [], {}
        for m in self.mismatches:
            k = ksigs.get((m["property"], m["signature"]))
            if k is not None:
                kf.setdefault(m["signature"], []).append(m)
            else:
                viol.append(m)
        for sig, ms in kf.items():
            print("KNOWN-FINDING: property=%s %s (%d occurrence(s) this run; %s)" %
                  (self.prop, sig, len(ms), ksigs[(self.prop, sig)].get("what", "")))
        seen = set()
        for m in viol:
            key = (m["signature"], m["replay"])
            if key in seen:
                continue
            seen.add(key)
            if len(seen) <= 5:
                print("VIOLATION property=%s replay=%s  # %s: %s" % (self.prop, m["replay"] or "-", m["signature"], m["what"][:300]))
        cov = dict(self.coverage)
        cov.setdefault("other_property_mismatches_seen", self.other)
        cov["known_findings_seen"] = sorted(kf)
        ev = {"property_id": self.prop, "tier": self.tier, "seed": self.seed, "level": self.level,
              "coverage": cov, "assumptions": self.assumptions, "wall_s": round(time.time() - self.t0, 2),
              "violations": len(seen)}
        os.makedirs(EVIDENCE, exist_ok=True)
        with open(os.path.join(EVIDENCE, self.prop + ".json"), "w") as fh:
            json.dump(ev, fh, indent=1, sort_keys=True)
            fh.write("\n")
        if viol:
            return 1
        print("OK property=%s tier=%s seed=%d wall=%.1fs" % (self.prop, self.tier, self.seed, time.time() - self.t0))
        return 0


CURRENT = {}   # seed and tier of the running check (set by ./check); stored in every replay file


def save_replay(workdir, name, obj):
    """Stores a failing case under .work/replays (kept until the next run of the same check)."""
    if isinstance(obj, dict):
        obj = dict(obj, **{k: v for k, v in CURRENT.items() if k not in obj})
    d = os.path.join(WORK, "replays")
    os.makedirs(d, exist_ok=True)
    p = os.path.join(d, name)
    with open(p, "w") as fh:
        if isinstance(obj, str):
            fh.write(obj)
        else:
            json.dump(obj, fh, indent=1)
    return p


def read_ndjson(path, limit=None):
    out = []
    with open(path) as fh:
        for line in fh:
            line = line.strip()
            if line:
                out.append(json.loads(line))
                if limit and len(out) >= limit:
                    break
    return out


# ---------------------------------------------------------------------------------------------
# Record oracle: one initial state per record line, invariant `Conforms` prints MISMATCH lines.

def validate_records(spec_dir, module, cfg, work, recs_path, chunk=40000, timeout=1500, heap="6g", data_name="recs.ndjson", with_reason=False, extra_files=None):
    """Runs TLC over recs_path (ndjson) in chunks.  Returns (stats, mismatching records).
    Every record must have been examined (distinct states == records), else Infra."""
    with open(recs_path) as fh:
        # records are separated by "\n" only: str.splitlines would also split at U+0085, U+2028, form feeds ... inside a JSON string
        lines = [x + "\n" for x in fh.read().split("\n") if x]
    if not lines:
        raise Infra("no records were produced")
    mism = []
    gen = dist = n = 0
    cmd = ""
    for off in range(0, len(lines), chunk):
        part = lines[off:off + chunk]
        p = os.path.join(work, "recs_%03d.ndjson" % n)
        with open(p, "w") as fh:
            fh.writelines(part)
        r = run_tlc(spec_dir, module, cfg, os.path.join(work, "tlc_%s_%03d" % (module, n)), files=dict(extra_files or {}, **{data_name: p}),
                    timeout=timeout, heap=heap)
        if r["violated"]:
            raise Infra("record oracle failed: " + r["tail"][-1500:])
        if r["distinct"] != len(part):
            raise Infra("record oracle examined %d of %d records" % (r["distinct"], len(part)))
        gen += r["generated"]
        dist += r["distinct"]
        cmd = r["cmd"]
        for m in r["mismatches"]:
            parts = [x.strip().strip('"') for x in m.strip("<>").split(",")]
            idx = int(parts[2])
            mism.append((json.loads(part[idx - 1]), parts[3:]) if with_reason else json.loads(part[idx - 1]))
        n += 1
    return {"records": len(lines), "tlc_states": dist, "cmd": cmd, "chunks": n}, mism
