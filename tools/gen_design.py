#!/usr/bin/env python3
"""Regenerates the data-driven tables of DESIGN.md (between the GENERATED markers) from known_findings.json,
seeded/*/meta.json, hooks_commits.txt and /repo's git log.  Hand-written text is untouched."""
import glob
import json
import os
import re
import subprocess

HERE = os.path.dirname(os.path.dirname(os.path.abspath(__file__)))


def fixes():
    k = json.load(open(os.path.join(HERE, "known_findings.json")))
    log = subprocess.run(["git", "-C", "/repo", "log", "--format=%h %s"], stdout=subprocess.PIPE, text=True).stdout.splitlines()
    subj = {l.split()[0][:9]: l.split(" ", 1)[1] for l in log}
    rows = ["| property | commit | what failed (and the check signature that showed it) |", "|---|---|---|"]
    for f in k["fixed"]:
        m = re.match(r"fixed: property=(C\d+) (\w+) (.*)", f)
        if m:
            rows.append("| %s | `%s` | %s |" % (m.group(1), m.group(2), m.group(3).replace("|", "/")))
    n_fix = sum(1 for l in log if l.split(" ", 1)[1].startswith("fix:"))
    rows.append("")
    rows.append("%d `fix:` commits in `/repo` (`git -C /repo log --grep '^fix:'`), %d entries above (one commit may repair what two properties observe)." % (n_fix, len(rows) - 3))
    return "\n".join(rows)


def known():
    k = json.load(open(os.path.join(HERE, "known_findings.json")))
    rows = ["| property | signature (what the check matches on) | what fails, and why it is recorded instead of repaired |", "|---|---|---|"]
    for f in k["known"]:
        rows.append("| %s | `%s` | %s |" % (f["property"], f["signature"], f["what"].replace("|", "/")))
    return "\n".join(rows)


def seeded():
    rows = ["| change | breaks | what it is (first line of its notes) | needs, in order to manifest | demo: unchanged / patched | caught by (exit 1) | first line reported |", "|---|---|---|---|---|---|---|"]
    for d in sorted(glob.glob(os.path.join(HERE, "seeded", "C*_m*"))):
        mid = os.path.basename(d)
        meta = json.load(open(os.path.join(d, "meta.json"))) if os.path.exists(os.path.join(d, "meta.json")) else {}
        notes = open(os.path.join(d, "notes.md")).read().strip().splitlines()
        first = next((l for l in notes if l.strip()), "")[:160].replace("|", "/")
        needs = meta.get("needs") or next((l.split(":", 1)[1].strip() for l in notes if re.match(r"\**(needs|inputs needed|crash point needed|trigger)", l.strip().lower().lstrip("-* "))), "")
        caught, line = [], ""
        for c, r in sorted((meta.get("checks") or {}).items()):
            if r["exit"] == 1 and any(l.startswith("VIOLATION") for l in r["lines"]):
                caught.append(c)
                line = line or next(l for l in r["lines"] if l.startswith("VIOLATION")).split("#", 1)[-1].strip()[:110]
        rows.append("| `%s` | %s | %s | %s | %s / %s | %s | %s |" % (mid, meta.get("property", mid.split("_")[0]), first, needs[:200].replace("|", "/"), meta.get("demo_on_unchanged_tree", "?"),
                                                                 meta.get("demo_with_patch", "?"), ", ".join(caught) or "**not caught**", line.replace("|", "/")))
    return "\n".join(rows)


def main():
    p = os.path.join(HERE, "DESIGN.md")
    s = open(p).read()
    for name, fn in (("FIXES", fixes), ("KNOWN", known), ("SEEDED", seeded)):
        a, b = "<!-- BEGIN GENERATED %s -->" % name, "<!-- END GENERATED %s -->" % name
        if a in s:
            s = s[:s.index(a) + len(a)] + "\n" + fn() + "\n" + s[s.index(b):]
    open(p, "w").write(s)


if __name__ == "__main__":
    main()
