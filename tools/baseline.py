#!/usr/bin/env python3
"""Runs the repository's own suite on /repo's working tree with the verif tag OFF and compares with the pinned baseline
(/root/.vp/BASELINE.json stable_pass).  Not a registered check: run after every hook or fix commit.
  tools/baseline.py [pkg-pattern ...]     default ./...
Prints the stable_pass tests that did not pass; exit 0 iff none."""
import json
import os
import subprocess
import sys

base = json.load(open("/root/.vp/BASELINE.json"))
stable = set(base["stable_pass"])
pkgs = sys.argv[1:] or ["./..."]
env = dict(os.environ, GOFLAGS="-mod=mod", GOPROXY="off", GOSUMDB="off", GOTOOLCHAIN="local")
p = subprocess.Popen(["go", "test", "-mod=mod", "-json", "-vet=off", "-count=1", "-timeout", "25m"] + pkgs, cwd="/repo", env=env, stdout=subprocess.PIPE, stderr=subprocess.STDOUT, text=True)
res = {}
for line in p.stdout:
    try:
        e = json.loads(line)
    except ValueError:
        continue
    if e.get("Test") and e.get("Action") in ("pass", "fail", "skip"):
        res["%s::%s" % (e["Package"], e["Test"])] = e["Action"]
p.wait()
ran_pk = {k.split("::")[0] for k in res}
bad = sorted(t for t in stable if t.split("::")[0] in ran_pk and res.get(t) != "pass")
print("tests seen: %d, stable_pass in the packages run: %d, not passing: %d" % (len(res), sum(1 for t in stable if t.split("::")[0] in ran_pk), len(bad)))
# sub-test names derived from random data differ from run to run: a MISSING sub-test whose parent passed is not a failure
def parent(t):
    pk, name = t.split("::", 1)
    return pk + "::" + name.split("/")[0]


real = [t for t in bad if res.get(t) is not None or "/" not in t.split("::", 1)[1] or res.get(parent(t)) != "pass"]
print("failing or missing with a parent that did not pass: %d" % len(real))
for t in real[:80]:
    print("  ", res.get(t, "MISSING"), t)
sys.exit(1 if real else 0)
