---------------------------- MODULE FileSaveRecords ----------------------------
(***************************************************************************)
(* Record oracle for crash images: every line of recs.ndjson is one crash  *)
(* point of the recorded save (pos operations completed, then k bytes of   *)
(* the next write), materialised in a scratch directory and loaded by the  *)
(* REAL start-up code (wallet.NewService / kvstorage.NewManager).          *)
(***************************************************************************)
EXTENDS FileSaveCore

Recs == ndJsonDeserialize("recs.ndjson")
VARIABLE l
RInit == l \in 1..Len(Recs)
RNext == UNCHANGED l

RECURSIVE After(_, _)
After(fs, i) == IF i = 0 THEN fs ELSE Apply(After(fs, i - 1), Ops[i])
Image(r) == LET fs == After(Start, r.pos) IN
            IF r.k = 0 THEN fs ELSE [fs EXCEPT ![Ops[r.pos + 1].file] = [kind |-> "partial", len |-> @.len + r.k]]

Reason(r) ==
  LET expected == Image(r)["target"].kind IN
  \* the same save done again on what the crash left (the crashed save's temporary file included): it takes effect
  IF r.again THEN (IF r.ok /\ r.content = "new" THEN "ok" ELSE "save-repeated-after-the-crash-does-not-take-effect")
  ELSE IF ~r.ok THEN "node-does-not-start"
  ELSE IF r.content \notin {"old", "new"} THEN "content-lost"
  ELSE IF expected \in {"old", "new"} /\ expected # r.content THEN "MODEL:image-differs-from-FileSave"
  ELSE IF expected \notin {"old", "new"} THEN "MODEL:FileSave-predicts-" \o expected
  ELSE "ok"
Conforms == LET x == Reason(Recs[l]) IN x = "ok" \/ PrintT(<<"MISMATCH", "rec", l, Recs[l].kind, x>>)
=============================================================================
