------------------------------ MODULE FileSaveCore ------------------------------
(***************************************************************************)
(* Crash during a save (C20).  The PROGRAM is the sequence of file-system  *)
(* operations the real save performed (recorded with strace and read from  *)
(* ops.ndjson); this module gives those operations their meaning on an     *)
(* abstract directory and lets the process stop after any operation, or in *)
(* the middle of any write.  A file's abstract content is                  *)
(*   "absent" | "old" | "new" | "empty" | "partial"                        *)
(* (the program writes the new content, whose total length is NewLen).     *)
(* Property RecoverOldOrNew: whatever the crash point, what the loader     *)
(* finds under the target name is the old or the new content.             *)
(***************************************************************************)
EXTENDS Integers, Sequences, Json, TLC

Ops == ndJsonDeserialize("ops.ndjson")        \* [op, file, n]  op: "open_trunc" | "open_create" | "write" | "rename" | "unlink" | "fsync" | "close"
NewLen == Ops[1].newlen                        \* every line carries the total length of the new content

Absent == [kind |-> "absent", len |-> 0]
Content(len) == IF len = 0 THEN [kind |-> "empty", len |-> 0] ELSE IF len = NewLen THEN [kind |-> "new", len |-> len] ELSE [kind |-> "partial", len |-> len]
Names == { Ops[i].file : i \in DOMAIN Ops } \cup { Ops[i].to : i \in { j \in DOMAIN Ops : Ops[j].op = "rename" } }
Start == [f \in Names |-> IF f = "target" THEN [kind |-> "old", len |-> 0] ELSE Absent]

Apply(fs, o) ==
  CASE o.op = "open_trunc" -> [fs EXCEPT ![o.file] = Content(0)]
    [] o.op = "open_create" -> IF fs[o.file].kind = "absent" THEN [fs EXCEPT ![o.file] = Content(0)] ELSE fs
    [] o.op = "write" -> [fs EXCEPT ![o.file] = Content(fs[o.file].len + o.n)]
    [] o.op = "rename" -> [fs EXCEPT ![o.to] = fs[o.file], ![o.file] = Absent]
    [] o.op = "unlink" -> [fs EXCEPT ![o.file] = Absent]
    [] OTHER -> fs
=============================================================================
