SPECIFICATION Spec
INVARIANTS RecoverOldOrNew Finishes
CHECK_DEADLOCK FALSE
