-------------------------------- MODULE FileSave --------------------------------
(* The crash exploration over the recorded program: see FileSaveCore for the meaning of the operations. *)
EXTENDS FileSaveCore

VARIABLES pos,       \* operations completed
          files,     \* file name -> [kind, len]
          crashed    \* "no" | "after-op" | "in-write"
vars == <<pos, files, crashed>>


Init == /\ pos = 0 /\ crashed = "no"
        /\ files = Start

Step == /\ crashed = "no" /\ pos < Len(Ops)
        /\ files' = Apply(files, Ops[pos + 1]) /\ pos' = pos + 1 /\ UNCHANGED crashed
\* the process stops between two operations
Crash == crashed = "no" /\ crashed' = "after-op" /\ UNCHANGED <<pos, files>>
\* ... or in the middle of a write: only a part of it reached the file
CrashInWrite == /\ crashed = "no" /\ pos < Len(Ops) /\ Ops[pos + 1].op = "write" /\ Ops[pos + 1].n > 1
                /\ \E k \in {1, Ops[pos + 1].n - 1} :
                     files' = [files EXCEPT ![Ops[pos + 1].file] = [kind |-> "partial", len |-> @.len + k]]
                /\ crashed' = "in-write" /\ UNCHANGED pos
Next == Step \/ Crash \/ CrashInWrite
Spec == Init /\ [][Next]_vars

\* what the next start finds under the target name
Loaded == files["target"].kind
RecoverOldOrNew == Loaded \in {"old", "new"}
Finishes == pos = Len(Ops) => files["target"].kind = "new"
=============================================================================
