INIT RInit
NEXT RNext
INVARIANT Conforms
CHECK_DEADLOCK FALSE
