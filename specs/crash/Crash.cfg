SPECIFICATION Spec
CONSTANTS NBlocks = 3
  MaxCrashes = 2
INVARIANTS VerifyAlwaysOK RecoveredEqualsUncrashed
PROPERTIES EventuallyDone
CHECK_DEADLOCK FALSE
