SPECIFICATION TraceSpec
CONSTANTS NBlocks = 3
  MaxCrashes = 2
INVARIANT TraceVerifyOK
POSTCONDITION TraceAccepted
CHECK_DEADLOCK FALSE
