--------------------------------- MODULE Crash ---------------------------------
(***************************************************************************)
(* Crash recovery of the chain database (C08).  The disk is what bolt has  *)
(* committed.  A named Update of the node is TWO steps, as in bolt: the     *)
(* dirty data pages are written (to pages the committed state does not     *)
(* reference: `pending`), then the meta page is written, which is what     *)
(* makes the new state the committed one.  A crash between or inside the   *)
(* two leaves the old state (a torn meta page fails its checksum and the   *)
(* other meta page - the old state - is used).                             *)
(* Abstract disk: buckets (created?), index (height of the per-address     *)
(* unspent index, -1 = none), history (height the history is parsed to,    *)
(* -1 = none), blocks (number of blocks incl. genesis), pool (number of    *)
(* pending transactions).  The node's life is: start-up (three commits:    *)
(* CreateBuckets; build indexes and init history; visor init = genesis if  *)
(* absent + prune pool), then the script of external events (block k,      *)
(* inject, refresh, remove), each one commit.  A crash may happen between  *)
(* any two commits, at most MaxCrashes times; after a crash the node       *)
(* starts again and is given the events it has not yet reflected.          *)
(* Properties: the integrity verification terminates with "ok" on every    *)
(* disk a crash can leave; when the script is done the disk equals the     *)
(* uncrashed one.                                                          *)
(***************************************************************************)
EXTENDS Integers, Sequences, TLC
CONSTANTS NBlocks, MaxCrashes

VARIABLES disk, phase, next, crashes, log,
          pending,     \* None, or the state whose data pages are (being) written but whose meta page is not
          script       \* the external events of this life, in order (never changes; a variable so that a recorded trace can supply it)
vars == <<disk, phase, next, crashes, log, pending, script>>

Empty == [buckets |-> FALSE, index |-> -1, history |-> -1, blocks |-> 0, pool |-> 0]
\* the model-checked script: block k is preceded by the injection of its transaction and a refresh of the pool, and followed
\* by the removal of invalid pool transactions
DefaultScript == [i \in 1..(4 * NBlocks) |-> LET k == (i + 3) \div 4 IN
                   [ev |-> CASE i % 4 = 1 -> "inject" [] i % 4 = 2 -> "refresh" [] i % 4 = 3 -> "block" [] OTHER -> "remove", k |-> k]]

None == [name |-> "none", d |-> Empty]
Init == disk = Empty /\ phase = "boot1" /\ next = 1 /\ crashes = 0 /\ log = << >> /\ pending = None /\ script = DefaultScript

\* a commit: first step (data pages), enabled when nothing is pending; second step: WriteMeta below
Commit(name, d) == pending = None /\ pending' = [name |-> name, d |-> d] /\ UNCHANGED <<disk, log, script>>
NoCommit == pending = None /\ UNCHANGED <<disk, log, pending, script>>
WriteMeta == pending # None /\ disk' = pending.d /\ log' = Append(log, pending.name) /\ pending' = None /\ UNCHANGED <<phase, next, crashes, script>>
Boot1 == phase = "boot1" /\ Commit("CreateBuckets", [disk EXCEPT !.buckets = TRUE]) /\ phase' = "boot2" /\ UNCHANGED <<next, crashes>>
\* the index and the history are (re)built up to the head when they are behind
Boot2 == phase = "boot2" /\ Commit("build unspent indexes and init history",
                                    [disk EXCEPT !.index = IF disk.blocks = 0 THEN -1 ELSE disk.blocks - 1, !.history = IF disk.blocks = 0 THEN -1 ELSE disk.blocks - 1])
         /\ phase' = "boot3" /\ UNCHANGED <<next, crashes>>
Boot3 == phase = "boot3" /\ Commit("visor init", IF disk.blocks = 0 THEN [disk EXCEPT !.blocks = 1, !.index = 0, !.history = 0] ELSE disk)
         /\ phase' = "run" /\ UNCHANGED <<next, crashes>>
\* events already reflected in the disk are skipped when they are offered again after a restart
Run == /\ phase = "run" /\ next <= Len(script)
       /\ LET e == script[next] IN
          CASE e.ev = "block" ->
                 IF e.k < disk.blocks THEN NoCommit
                 ELSE Commit("ExecuteSignedBlock", [disk EXCEPT !.blocks = @ + 1, !.index = @ + 1, !.history = @ + 1, !.pool = 0])
            [] e.ev = "inject" ->
                 IF e.k < disk.blocks THEN NoCommit
                 ELSE Commit("InjectForeignTransaction", [disk EXCEPT !.pool = 1])
            [] e.ev = "refresh" -> Commit("RefreshUnconfirmed", disk)            \* validity flags only: the abstract disk is the same
            [] e.ev = "remove" -> Commit("RemoveInvalidUnconfirmed", disk)       \* nothing in these pools has become invalid
       /\ next' = next + 1 /\ UNCHANGED <<phase, crashes>>
\* anywhere: between commits, or inside one (what was written of the pending state is lost, the disk is the old state)
Crash == /\ crashes < MaxCrashes /\ phase # "done"
         /\ crashes' = crashes + 1 /\ phase' = "boot1" /\ next' = 1 /\ pending' = None /\ UNCHANGED <<disk, log, script>>
Finish == phase = "run" /\ next > Len(script) /\ pending = None /\ phase' = "done" /\ UNCHANGED <<disk, next, crashes, log, pending, script>>
Next == Boot1 \/ Boot2 \/ Boot3 \/ Run \/ WriteMeta \/ Crash \/ Finish
Spec == Init /\ [][Next]_vars /\ WF_vars(Boot1 \/ Boot2 \/ Boot3 \/ Run \/ WriteMeta \/ Finish)

\* the verification walks the stored blocks; it is skipped without buckets; with buckets and no block there is nothing to walk
Verify(d) == IF ~d.buckets \/ d.blocks = 0 THEN "ok"
             ELSE IF d.history <= d.blocks - 1 /\ d.index <= d.blocks - 1 THEN "ok" ELSE "inconsistent"
VerifyAlwaysOK == Verify(disk) = "ok"
NBlocksOf(sc) == LET RECURSIVE C(_) C(i) == IF i = 0 THEN 0 ELSE C(i - 1) + (IF sc[i].ev = "block" THEN 1 ELSE 0) IN C(Len(sc))
Final == LET n == NBlocksOf(script) IN [buckets |-> TRUE, index |-> n, history |-> n, blocks |-> n + 1, pool |-> 0]
RecoveredEqualsUncrashed == phase = "done" => disk = Final
EventuallyDone == <>(phase = "done")
\* the commit names the node may produce, for validating the recorded commit sequence
CommitNames == {"CreateBuckets", "build unspent indexes and init history", "visor init", "ExecuteSignedBlock", "InjectForeignTransaction",
                "RefreshUnconfirmed", "RemoveInvalidUnconfirmed"}
=============================================================================
