--------------------------------- MODULE Crash ---------------------------------
(***************************************************************************)
(* Crash recovery of the chain database (C08).  The disk is what bolt has  *)
(* committed.  A named Update of the node is TWO steps, as in bolt: the     *)
(* dirty data pages are written (to pages the committed state does not     *)
(* reference: `pending`), then the meta page is written, which is what     *)
(* makes the new state the committed one.  A crash between or inside the   *)
(* two leaves the old state (a torn meta page fails its checksum and the   *)
(* other meta page - the old state - is used).                             *)
(* Abstract disk: buckets (created?), index (height of the per-address     *)
(* unspent index, -1 = none), history (height the history is parsed to,    *)
(* -1 = none), blocks (number of blocks incl. genesis), pool (the pending  *)
(* transactions: <<"own", k>> = the transaction block k will confirm,      *)
(* <<"conf", k>> = one that spends the same outputs differently).  The node's life is: start-up (three commits:    *)
(* CreateBuckets; build indexes and init history; visor init = genesis if  *)
(* absent + prune pool), then the script of external events (block k,      *)
(* inject, refresh, remove), each one commit.  A crash may happen between  *)
(* any two commits, at most MaxCrashes times; after a crash the node       *)
(* starts again and is given the events it has not yet reflected.          *)
(* Properties: the integrity verification terminates with "ok" on every    *)
(* disk a crash can leave; when the script is done the disk equals the     *)
(* uncrashed one.                                                          *)
(***************************************************************************)
EXTENDS Integers, Sequences, FiniteSets, TLC
CONSTANTS NBlocks, MaxCrashes

VARIABLES disk, phase, next, crashes, log,
          pending,     \* None, or the state whose data pages are (being) written but whose meta page is not
          script       \* the external events of this life, in order (never changes; a variable so that a recorded trace can supply it)
vars == <<disk, phase, next, crashes, log, pending, script>>

Empty == [buckets |-> FALSE, index |-> -1, history |-> -1, blocks |-> 0, pool |-> {}]
\* pending transactions that can no longer be confirmed: their block's outputs were spent by the block itself
Invalid(d) == { t \in d.pool : t[1] = "conf" /\ t[2] < d.blocks }
\* the model-checked script: block k is preceded by the injection of its transaction, of a conflicting one, and a refresh
\* of the pool, and followed by the removal of invalid pool transactions
DefaultScript == [i \in 1..(5 * NBlocks) |-> LET k == (i + 4) \div 5 IN
                   [ev |-> CASE i % 5 = 1 -> "inject" [] i % 5 = 2 -> "conflict" [] i % 5 = 3 -> "refresh" [] i % 5 = 4 -> "block" [] OTHER -> "remove", k |-> k]]

None == [name |-> "none", d |-> Empty]
Init == disk = Empty /\ phase = "boot1" /\ next = 1 /\ crashes = 0 /\ log = << >> /\ pending = None /\ script = DefaultScript

\* a commit: first step (data pages), enabled when nothing is pending; second step: WriteMeta below
Commit(name, d) == pending = None /\ pending' = [name |-> name, d |-> d] /\ UNCHANGED <<disk, log, script>>
NoCommit == pending = None /\ UNCHANGED <<disk, log, pending, script>>
WriteMeta == pending # None /\ disk' = pending.d /\ log' = Append(log, pending.name) /\ pending' = None /\ UNCHANGED <<phase, next, crashes, script>>
Boot1 == phase = "boot1" /\ Commit("CreateBuckets", [disk EXCEPT !.buckets = TRUE]) /\ phase' = "boot2" /\ UNCHANGED <<next, crashes>>
\* the index and the history are (re)built up to the head when they are behind
Boot2 == phase = "boot2" /\ Commit("build unspent indexes and init history",
                                    [disk EXCEPT !.index = IF disk.blocks = 0 THEN -1 ELSE disk.blocks - 1, !.history = IF disk.blocks = 0 THEN -1 ELSE disk.blocks - 1])
         /\ phase' = "boot3" /\ UNCHANGED <<next, crashes>>
\* visor init: the genesis block if there is none, and the pool loses what has become invalid
Boot3 == phase = "boot3" /\ Commit("visor init", IF disk.blocks = 0 THEN [disk EXCEPT !.blocks = 1, !.index = 0, !.history = 0]
                                                  ELSE [disk EXCEPT !.pool = @ \ Invalid(disk)])
         /\ phase' = "run" /\ UNCHANGED <<next, crashes>>
\* events already reflected in the disk are skipped when they are offered again after a restart
\* what an event does to the disk, and whether the driver offers it at all (events the disk already reflects are skipped)
Offered(d, e) == e.ev \in {"refresh", "remove"} \/ e.k >= d.blocks
Ev(d, e) == CASE e.ev = "block" -> [d EXCEPT !.blocks = @ + 1, !.index = @ + 1, !.history = @ + 1, !.pool = @ \ {<<"own", e.k>>}]
              [] e.ev = "inject" -> [d EXCEPT !.pool = @ \cup {<<"own", e.k>>}]
              [] e.ev = "conflict" -> [d EXCEPT !.pool = @ \cup {<<"conf", e.k>>}]
              [] e.ev = "refresh" -> d                                           \* validity flags only: the abstract disk is the same
              [] e.ev = "remove" -> [d EXCEPT !.pool = @ \ Invalid(d)]
CommitName(e) == CASE e.ev = "block" -> "ExecuteSignedBlock" [] e.ev \in {"inject", "conflict"} -> "InjectForeignTransaction"
                   [] e.ev = "refresh" -> "RefreshUnconfirmed" [] e.ev = "remove" -> "RemoveInvalidUnconfirmed"
Run == /\ phase = "run" /\ next <= Len(script)
       /\ LET e == script[next] IN IF Offered(disk, e) THEN Commit(CommitName(e), Ev(disk, e)) ELSE NoCommit
       /\ next' = next + 1 /\ UNCHANGED <<phase, crashes>>
\* anywhere: between commits, or inside one (what was written of the pending state is lost, the disk is the old state)
Crash == /\ crashes < MaxCrashes /\ phase # "done"
         /\ crashes' = crashes + 1 /\ phase' = "boot1" /\ next' = 1 /\ pending' = None /\ UNCHANGED <<disk, log, script>>
Finish == phase = "run" /\ next > Len(script) /\ pending = None /\ phase' = "done" /\ UNCHANGED <<disk, next, crashes, log, pending, script>>
Next == Boot1 \/ Boot2 \/ Boot3 \/ Run \/ WriteMeta \/ Crash \/ Finish
Spec == Init /\ [][Next]_vars /\ WF_vars(Boot1 \/ Boot2 \/ Boot3 \/ Run \/ WriteMeta \/ Finish)

\* the verification walks the stored blocks; it is skipped without buckets; with buckets and no block there is nothing to walk
Verify(d) == IF ~d.buckets \/ d.blocks = 0 THEN "ok"
             ELSE IF d.history <= d.blocks - 1 /\ d.index <= d.blocks - 1 THEN "ok" ELSE "inconsistent"
VerifyAlwaysOK == Verify(disk) = "ok"
\* the disk of the life that never crashes: start-up, then every event in order
RECURSIVE After(_, _, _)
After(d, sc, i) == IF i > Len(sc) THEN d ELSE After(Ev(d, sc[i]), sc, i + 1)
Final == After([buckets |-> TRUE, index |-> 0, history |-> 0, blocks |-> 1, pool |-> {}], script, 1)
RecoveredEqualsUncrashed == phase = "done" => disk = Final
EventuallyDone == <>(phase = "done")
\* the commit names the node may produce, for validating the recorded commit sequence
CommitNames == {"CreateBuckets", "build unspent indexes and init history", "visor init", "ExecuteSignedBlock", "InjectForeignTransaction",
                "RefreshUnconfirmed", "RemoveInvalidUnconfirmed"}
=============================================================================
