------------------------------ MODULE CrashRecords ------------------------------
(***************************************************************************)
(* Record oracle: every line of recs.ndjson is one crash plan executed on  *)
(* the REAL node: the bolt file as it was at a commit boundary (and, for   *)
(* double crashes, at a commit boundary of the restarted run) or INSIDE a   *)
(* commit (fn "torn": a prefix of the commit's data pages written, the     *)
(* meta page not or half written - by Crash.tla the old state), verified   *)
(* (optionally) and restarted, then given the remaining events.            *)
(***************************************************************************)
EXTENDS Integers, Sequences, Json, TLC

Recs == ndJsonDeserialize("recs.ndjson")
VARIABLE l
Init == l \in 1..Len(Recs)
Next == UNCHANGED l

StartUp == <<"CreateBuckets", "build unspent indexes and init history", "visor init">>
CommitNames == {"CreateBuckets", "build unspent indexes and init history", "visor init", "ExecuteSignedBlock", "InjectForeignTransaction",
                "RefreshUnconfirmed", "RemoveInvalidUnconfirmed"}

Reason(r) ==
  IF r.fn = "uncrashed" THEN
     \* the recorded commit sequence is one the specification's life-cycle produces: start-up, then one commit per event
     IF Len(r.commits) >= 3 /\ SubSeq(r.commits, 1, 3) = StartUp /\ \A i \in 4..Len(r.commits) : r.commits[i] \in CommitNames \ {"CreateBuckets", "visor init", "build unspent indexes and init history"}
     THEN "ok" ELSE "commit-sequence-not-in-the-specified-life-cycle"
  ELSE IF r.verify /\ r.check # "ok" THEN (IF r.check = "timeout" \/ r.check = "timeout-and-not-stoppable" THEN "verification-does-not-terminate" ELSE "verification-fails")
  ELSE IF r.restart # "ok" THEN "restart-fails"
  ELSE IF r.final # r.expected THEN "recovered-state-differs-from-uncrashed"
  ELSE "ok"

Conforms == LET x == Reason(Recs[l]) IN x = "ok" \/ PrintT(<<"MISMATCH", "rec", l, Recs[l].fn, x>>)
=============================================================================
