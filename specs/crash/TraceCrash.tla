------------------------------ MODULE TraceCrash ------------------------------
(***************************************************************************)
(* Trace validation (C08): trace.ndjson holds the event logs of REAL node  *)
(* lives, one after the other: for every crash plan the uncrashed run's    *)
(* events up to the crash point, the crash, the restarted run's events     *)
(* (and again for a double crash).  Events are emitted at the linearization*)
(* points: "begin" when the commit hook fires for a named bolt Update (its *)
(* data pages are written), "commit" with the projected disk state read    *)
(* back right after the commit (blocks, pool, history, buckets), "skip"    *)
(* when the driver does not offer an event that the disk already reflects, *)
(* "crash", "done".  Every line must be ONE step of Crash.tla's own        *)
(* actions; variables that are not logged (index, phase, next) are         *)
(* inferred by the actions.  Accepted iff every line is consumed.          *)
(***************************************************************************)
EXTENDS Crash, Json

Trace == ndJsonDeserialize("trace.ndjson")
VARIABLE l
tvars == <<vars, l>>

IsEvent(e) == l <= Len(Trace) /\ Trace[l].ev = e /\ l' = l + 1
\* a new life: the script comes with the trace
TraceReset == /\ IsEvent("trace")
              /\ disk' = Empty /\ phase' = "boot1" /\ next' = 1 /\ crashes' = 0 /\ log' = << >> /\ pending' = None
              /\ script' = [i \in DOMAIN Trace[l].script |-> [ev |-> Trace[l].script[i].ev, k |-> Trace[l].script[i].k]]
TraceBegin == IsEvent("begin") /\ (Boot1 \/ Boot2 \/ Boot3 \/ Run) /\ pending' # None /\ pending'.name = Trace[l].name
TraceCommit == /\ IsEvent("commit") /\ WriteMeta /\ pending.name = Trace[l].name
               /\ disk'.buckets = Trace[l].buckets /\ disk'.blocks = Trace[l].blocks /\ Cardinality(disk'.pool) = Trace[l].pool /\ disk'.history = Trace[l].history
TraceSkip == IsEvent("skip") /\ Run /\ pending' = None /\ pending = None /\ script[next].ev = Trace[l].kind
TraceCrashEv == IsEvent("crash") /\ Crash
TraceDone == IsEvent("done") /\ Finish /\ disk = Final
TraceInit == l = 1 /\ disk = Empty /\ phase = "fresh" /\ next = 1 /\ crashes = 0 /\ log = << >> /\ pending = None /\ script = << >>
TraceNext == TraceReset \/ TraceBegin \/ TraceCommit \/ TraceSkip \/ TraceCrashEv \/ TraceDone
TraceSpec == TraceInit /\ [][TraceNext]_tvars

\* every state of every real life satisfies the specification's invariant
TraceVerifyOK == Verify(disk) = "ok"
\* one state per consumed line plus the initial state
TraceAccepted == TLCGet("stats").diameter - 1 = Len(Trace)
=============================================================================
