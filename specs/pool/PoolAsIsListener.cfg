SPECIFICATION Spec
CONSTANTS Callers = {c1, c2}
  PublishChecksQuit = FALSE
  CallerAbandons = FALSE
  AddInStrand = TRUE
INVARIANTS NoResultRace NoWaitGroupMisuse AfterShutdown AnswerAgrees
PROPERTIES ShutdownTerminates EveryCallReturns
CHECK_DEADLOCK FALSE
