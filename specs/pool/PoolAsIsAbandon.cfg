SPECIFICATION Spec
CONSTANTS Callers = {c1, c2}
  PublishChecksQuit = TRUE
  CallerAbandons = TRUE
  AddInStrand = TRUE
INVARIANTS NoResultRace NoWaitGroupMisuse AfterShutdown AnswerAgrees
PROPERTIES ShutdownTerminates EveryCallReturns
CHECK_DEADLOCK FALSE
