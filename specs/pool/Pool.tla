---------------------------------- MODULE Pool ----------------------------------
(***************************************************************************)
(* The connection pool's concurrency skeleton (C32), one action per        *)
(* blocking point or critical section of src/daemon/gnet/pool.go and       *)
(* src/daemon/strand/strand.go:                                            *)
(*   Run        start the strand worker (counted in the pool's WaitGroup), *)
(*              net.Listen, publish the listener under listenerLock,       *)
(*              accept until the listener is closed and quit is closed,    *)
(*              wg.Wait, close(done)                                       *)
(*   worker     processStrand: select{quit, request}; a request that was   *)
(*              received is always run to completion                       *)
(*   Strand     a caller offers its function on the UNBUFFERED request     *)
(*              channel (select with quit), then waits for completion      *)
(*   Connect    strand(canConnect); dial; wg.Add(1); go handleConnection   *)
(*              -> strand(register the connection); read/write loops until *)
(*              the connection is closed; wg.Done                          *)
(*   Shutdown   close(quit); wait strandDone; close the listener under     *)
(*              listenerLock; disconnectAll; wait done                     *)
(* CONSTANTS name the places where the code's choice matters; the values   *)
(* in PoolFixed.cfg are the code as it is, each other value is a design    *)
(* that TLC refutes (PoolAsIs*.cfg) - the defects found and repaired:      *)
(*   PublishChecksQuit  Run looks at quit while it publishes the listener  *)
(*                      and closes the listener itself                     *)
(*   CallerAbandons     a caller whose function the worker has ALREADY     *)
(*                      taken returns the closed error when quit closes    *)
(*   AddInStrand        Connect's wg.Add(1) runs as a strand request       *)
(***************************************************************************)
EXTENDS PoolCore, TLC
CONSTANTS Callers, PublishChecksQuit, CallerAbandons, AddInStrand

G(c) == <<"conn", c>>                       \* the connection goroutine started by caller c's Connect
Procs == Callers \cup {G(c) : c \in Callers}

VARIABLES quit, strandDone, done,
          listener,                          \* the published listener: "nil" | "open" | "closed"
          ln,                                \* Run's own listener: "none" | "open" | "closed"
          run, shut,                         \* program counters of Run and Shutdown
          worker, job,                       \* worker: "none" | "idle" | "busy" | "exited"; job: whose function runs
          pc, fn,                            \* per process: where it is, and which function its strand call carries
          writing, reading,                  \* result cells being written by the worker / read by their caller
          registry,                          \* connections registered in the pool (set of processes G(c))
          wg,                                \* the pool's WaitGroup counter
          misuse,                            \* TRUE once wg.Add ran from zero while Run was in wg.Wait
          ran                                \* processes whose current strand call's function was started by the worker
vars == <<quit, strandDone, done, listener, ln, run, shut, worker, job, pc, fn, writing, reading, registry, wg, misuse, ran>>

Init == /\ quit = FALSE /\ strandDone = FALSE /\ done = FALSE /\ listener = "nil" /\ ln = "none"
        /\ run = "start" /\ shut = "idle" /\ worker = "none" /\ job = "-"
        /\ pc = [p \in Procs |-> IF p \in Callers THEN "idle" ELSE "unborn"]
        /\ fn = [p \in Procs |-> "-"]
        /\ writing = {} /\ reading = {} /\ registry = {} /\ wg = 0 /\ misuse = FALSE /\ ran = {}

\* ---- Run ----
RunStartWorker == /\ run = "start" /\ worker' = "idle" /\ wg' = wg + 1 /\ run' = "listen"
                  /\ UNCHANGED <<quit, strandDone, done, listener, ln, shut, job, pc, fn, writing, reading, registry, misuse, ran>>
RunListen == /\ run = "listen" /\ ln' = "open" /\ run' = "publish"
             /\ UNCHANGED <<quit, strandDone, done, listener, shut, worker, job, pc, fn, writing, reading, registry, wg, misuse, ran>>
\* under listenerLock
RunPublish == /\ run = "publish" /\ run' = "accept"
              /\ IF PublishChecksQuit /\ quit
                   THEN ln' = "closed" /\ UNCHANGED listener
                   ELSE listener' = "open" /\ UNCHANGED ln
              /\ UNCHANGED <<quit, strandDone, done, shut, worker, job, pc, fn, writing, reading, registry, wg, misuse, ran>>
\* Accept returns an error once the listener is closed; the loop ends when quit is closed as well
RunAcceptFails == /\ run = "accept" /\ ln = "closed" /\ quit
                  /\ run' = "wait" /\ UNCHANGED <<quit, strandDone, done, listener, ln, shut, worker, job, pc, fn, writing, reading, registry, wg, misuse, ran>>
RunFinish == /\ run = "wait" /\ wg = 0
             /\ done' = TRUE /\ run' = "returned" /\ UNCHANGED <<quit, strandDone, listener, ln, shut, worker, job, pc, fn, writing, reading, registry, wg, misuse, ran>>

\* ---- the strand worker ----
WorkerQuit == /\ worker = "idle" /\ quit
              /\ worker' = "exited" /\ strandDone' = TRUE /\ wg' = wg - 1
              /\ UNCHANGED <<quit, done, listener, ln, run, shut, job, pc, fn, writing, reading, registry, misuse, ran>>
\* rendezvous on the unbuffered request channel: the caller sends, the idle worker receives, the function starts
Handoff(p) == /\ worker = "idle" /\ pc[p] = "sending"
              /\ worker' = "busy" /\ job' = p /\ pc' = [pc EXCEPT ![p] = "waiting"]
              /\ writing' = writing \cup {p}                                   \* the function writes the caller's result cell
              /\ ran' = ran \cup {p}
              /\ UNCHANGED <<quit, strandDone, done, listener, ln, run, shut, fn, reading, registry, wg, misuse>>
\* the function's effect, then close(done) of the request
WorkerFinish == /\ worker = "busy"
                /\ worker' = "idle" /\ writing' = writing \ {job}
                /\ registry' = IF fn[job] = "register" THEN registry \cup {job} ELSE registry
                /\ wg' = IF fn[job] = "addwg" THEN wg + 1 ELSE wg
                /\ pc' = [pc EXCEPT ![job] = IF @ = "waiting" THEN "gotresult" ELSE @]
                /\ job' = "-" /\ UNCHANGED <<quit, strandDone, done, listener, ln, run, shut, fn, reading, misuse, ran>>

\* ---- a strand call by process p (API caller or connection goroutine) ----
GiveUpSending(p) == /\ pc[p] = "sending" /\ quit /\ pc' = [pc EXCEPT ![p] = "closed"]
                    /\ UNCHANGED <<quit, strandDone, done, listener, ln, run, shut, worker, job, fn, writing, reading, registry, wg, misuse, ran>>
Abandon(p) == /\ CallerAbandons /\ pc[p] = "waiting" /\ quit
              /\ pc' = [pc EXCEPT ![p] = "abandoned"]
              /\ UNCHANGED <<quit, strandDone, done, listener, ln, run, shut, worker, job, fn, writing, reading, registry, wg, misuse, ran>>
\* back in the caller: it reads the result cell (the size it asked for, the connection that was made, ...)
ReadResult(p) == /\ pc[p] \in {"gotresult", "abandoned"}
                 /\ reading' = reading \cup {p}
                 /\ pc' = [pc EXCEPT ![p] = IF @ = "gotresult" THEN "ok" ELSE "closed"]
                 /\ UNCHANGED <<quit, strandDone, done, listener, ln, run, shut, worker, job, fn, writing, registry, wg, misuse, ran>>
DoneReading(p) == /\ p \in reading /\ reading' = reading \ {p}
                  /\ UNCHANGED <<quit, strandDone, done, listener, ln, run, shut, worker, job, pc, fn, writing, registry, wg, misuse, ran>>

\* ---- API callers: a query-like call (Size, GetConnections, SendMessage, Disconnect, ...) or Connect ----
CallQuery(c) == /\ pc[c] = "idle" /\ pc' = [pc EXCEPT ![c] = "sending"] /\ fn' = [fn EXCEPT ![c] = "query"]
                /\ UNCHANGED <<quit, strandDone, done, listener, ln, run, shut, worker, job, writing, reading, registry, wg, misuse, ran>>
CallConnect(c) == /\ pc[c] = "idle" /\ pc' = [pc EXCEPT ![c] = "sending"] /\ fn' = [fn EXCEPT ![c] = "canconnect"]
                  /\ UNCHANGED <<quit, strandDone, done, listener, ln, run, shut, worker, job, writing, reading, registry, wg, misuse, ran>>
\* the continuation after a strand call returned
Spawn(c) == pc' = [pc EXCEPT ![c] = "returned", ![G(c)] = "sending"] /\ fn' = [fn EXCEPT ![G(c)] = "register"]
After(c) == /\ pc[c] \in {"ok", "closed"} /\ c \notin reading
            /\ CASE pc[c] = "closed" -> pc' = [pc EXCEPT ![c] = "returned"] /\ UNCHANGED <<fn, wg, misuse, ran>>     \* ErrConnectionPoolClosed
                 [] fn[c] = "query" -> pc' = [pc EXCEPT ![c] = "returned"] /\ UNCHANGED <<fn, wg, misuse, ran>>
                 [] fn[c] = "canconnect" /\ AddInStrand ->                                                       \* dialled; register through the strand
                        pc' = [pc EXCEPT ![c] = "sending"] /\ fn' = [fn EXCEPT ![c] = "addwg"] /\ ran' = ran \ {c} /\ UNCHANGED <<wg, misuse>>
                 [] fn[c] = "canconnect" /\ ~AddInStrand ->                                                      \* dialled; wg.Add(1) from this goroutine
                        /\ wg' = wg + 1 /\ misuse' = (misuse \/ (wg = 0 /\ run = "wait")) /\ Spawn(c) /\ UNCHANGED ran
                 [] fn[c] = "addwg" -> Spawn(c) /\ UNCHANGED <<wg, misuse, ran>>
            /\ UNCHANGED <<quit, strandDone, done, listener, ln, run, shut, worker, job, writing, reading, registry>>
\* ---- the connection goroutine: registered -> serves until its connection is closed; refused -> closes and leaves ----
GServe(g) == /\ g \notin Callers /\ pc[g] = "ok" /\ g \notin reading /\ pc' = [pc EXCEPT ![g] = "serving"]
             /\ UNCHANGED <<quit, strandDone, done, listener, ln, run, shut, worker, job, fn, writing, reading, registry, wg, misuse, ran>>
\* read/write loops end when the connection was closed (Disconnect, disconnectAll) or quit closed
GLoopsEnd(g) == /\ g \notin Callers /\ pc[g] = "serving" /\ (quit \/ g \notin registry)
                /\ pc' = [pc EXCEPT ![g] = "leaving"]
                /\ UNCHANGED <<quit, strandDone, done, listener, ln, run, shut, worker, job, fn, writing, reading, registry, wg, misuse, ran>>
GRefused(g) == /\ g \notin Callers /\ pc[g] = "closed" /\ g \notin reading /\ pc' = [pc EXCEPT ![g] = "leaving"]
               /\ UNCHANGED <<quit, strandDone, done, listener, ln, run, shut, worker, job, fn, writing, reading, registry, wg, misuse, ran>>
GDone(g) == /\ g \notin Callers /\ pc[g] = "leaving" /\ pc' = [pc EXCEPT ![g] = "gone"] /\ wg' = wg - 1
            /\ UNCHANGED <<quit, strandDone, done, listener, ln, run, shut, worker, job, fn, writing, reading, registry, misuse, ran>>

\* ---- Shutdown ----
ShutBegin == shut = "idle" /\ quit' = TRUE /\ shut' = "waitstrand" /\ UNCHANGED <<strandDone, done, listener, ln, run, worker, job, pc, fn, writing, reading, registry, wg, misuse, ran>>
\* under listenerLock
ShutCloseListener == /\ shut = "waitstrand" /\ strandDone
                     /\ IF listener = "open" THEN listener' = "closed" /\ ln' = "closed" ELSE UNCHANGED <<listener, ln>>
                     /\ shut' = "disconnect" /\ UNCHANGED <<quit, strandDone, done, run, worker, job, pc, fn, writing, reading, registry, wg, misuse, ran>>
ShutDisconnectAll == shut = "disconnect" /\ registry' = {} /\ shut' = "waitdone" /\ UNCHANGED <<quit, strandDone, done, listener, ln, run, worker, job, pc, fn, writing, reading, wg, misuse, ran>>
ShutFinish == shut = "waitdone" /\ done /\ shut' = "returned" /\ UNCHANGED <<quit, strandDone, done, listener, ln, run, worker, job, pc, fn, writing, reading, registry, wg, misuse, ran>>

Progress == \/ RunStartWorker \/ RunListen \/ RunPublish \/ RunAcceptFails \/ RunFinish \/ WorkerQuit \/ WorkerFinish
            \/ \E p \in Procs : Handoff(p) \/ GiveUpSending(p) \/ Abandon(p) \/ ReadResult(p) \/ DoneReading(p)
            \/ \E c \in Callers : After(c)
            \/ \E g \in Procs : GServe(g) \/ GLoopsEnd(g) \/ GRefused(g) \/ GDone(g)
            \/ ShutBegin \/ ShutCloseListener \/ ShutDisconnectAll \/ ShutFinish
Next == Progress \/ \E c \in Callers : CallQuery(c) \/ CallConnect(c)
Spec == Init /\ [][Next]_vars /\ WF_vars(Progress)

\* ---- properties ----
ShutdownTerminates == <>(shut = "returned")
EveryCallReturns == \A c \in Callers : pc[c] # "idle" ~> pc[c] = "returned"
NoResultRace == writing \cap reading = {}
NoWaitGroupMisuse == ~misuse
\* what the recorder observes once Shutdown has returned
AfterShutdown == shut = "returned" => /\ Terminal(TRUE, run = "returned", Cardinality(registry))
                                      /\ worker = "exited"
                                      /\ \A g \in Procs \ Callers : pc[g] \in {"unborn", "gone"}   \* no pool goroutine outlives Shutdown
\* a call answered "closed" was not made: its function was never started (the answer and the effect agree)
AnswerAgrees == \A p \in Procs : pc[p] = "closed" => p \notin ran
=============================================================================
