SPECIFICATION Spec
CONSTANTS Callers = {c1, c2}
  PublishChecksQuit = TRUE
  CallerAbandons = FALSE
  AddInStrand = FALSE
INVARIANTS NoResultRace NoWaitGroupMisuse AfterShutdown AnswerAgrees
PROPERTIES ShutdownTerminates EveryCallReturns
CHECK_DEADLOCK FALSE
