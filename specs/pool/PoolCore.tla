-------------------------------- MODULE PoolCore --------------------------------
(***************************************************************************)
(* What C32 promises about one use of a connection pool, as operators over *)
(* plain values - shared by the design model (Pool.tla, where they are     *)
(* evaluated on model states) and by the record oracle (PoolRecords.tla,   *)
(* where they are evaluated on what a real pool did).                      *)
(***************************************************************************)
EXTENDS Integers, FiniteSets, Sequences

\* once Shutdown has returned: Run has returned and nothing is registered
Terminal(shutReturned, runReturned, registered) == shutReturned /\ runReturned /\ registered = 0

\* every call completes ("ok", or "err": the operation's own error) or answers that the pool is closed
Outcomes == {"ok", "err", "closed"}
\* operations that go through the strand and therefore answer "closed" once the pool has shut down
Stranded == {"connect", "size", "connections", "disconnect", "send", "broadcast", "pings", "connection", "stale", "clearstale"}
Kinds == Stranded \cup {"listening", "incoming", "connect-refused"}
Split(s) == LET i == CHOOSE k \in 1..Len(s) : SubSeq(s, k, k) = ":" IN <<SubSeq(s, 1, i - 1), SubSeq(s, i + 1, Len(s))>>
=============================================================================
