------------------------------ MODULE PoolRecords ------------------------------
(***************************************************************************)
(* Record oracle (C32): every line of recs.ndjson is one observation of a  *)
(* REAL gnet.ConnectionPool (overlay test in package gnet, built with      *)
(* -race): kind "run" = one pool lifetime with concurrent callers, network *)
(* events and a Shutdown at a seeded moment; kind "race" = one report of   *)
(* the race detector; kind "panic" = the process died in the pool's code. Each record is one initial state.                   *)
(***************************************************************************)
EXTENDS PoolCore, Json, TLC

Recs == ndJsonDeserialize("recs.ndjson")
VARIABLE l
Init == l \in 1..Len(Recs)
Next == UNCHANGED l

Class(s) == LET p == Split(s) IN [kind |-> p[1], out |-> p[2]]
Reasons(r) ==
  IF r.kind = "race" THEN <<"data-race">>
  ELSE IF r.kind = "panic" THEN <<"crash">>
  ELSE SelectSeq(<<
    IF ~r.shutdownReturned THEN "shutdown-did-not-return" ELSE "ok",
    IF ~r.callsReturned THEN "call-did-not-return" ELSE "ok",
    IF r.shutdownReturned /\ r.callsReturned /\ ~Terminal(r.shutdownReturned, r.runReturned, r.registered + r.addresses)
       THEN (IF ~r.runReturned THEN "run-did-not-return" ELSE "connection-left-registered") ELSE "ok",
    IF \E i \in DOMAIN r.results : Class(r.results[i]).kind \notin Kinds \/ Class(r.results[i]).out \notin Outcomes
       THEN "result-class" ELSE "ok",
    IF r.shutdownReturned /\ r.callsReturned /\ ~r.afterReturned THEN "call-after-shutdown-did-not-return" ELSE "ok",
    IF \E i \in DOMAIN r.after : Class(r.after[i]).kind \in Stranded /\ Class(r.after[i]).out # "closed"
       THEN "call-after-shutdown-not-answered-closed" ELSE "ok"
  >>, LAMBDA x : x # "ok")

Conforms == LET x == Reasons(Recs[l]) IN x = <<>> \/ \A i \in DOMAIN x : PrintT(<<"MISMATCH", "rec", l, Recs[l].kind, x[i]>>)
=============================================================================
