INIT EdgeInitOnly
NEXT EdgeNext
CONSTANTS
  Ips = {}
  Ports = {}
  Mirrors = {}
  ListenPorts = {}
  GnetIds = {}
INVARIANTS EdgeConforms CallInAlphabet
CHECK_DEADLOCK FALSE
