INIT EdgeInit
NEXT EdgeNext
CONSTANTS
  Ips = {}
  Ports = {}
  Mirrors = {}
  ListenPorts = {}
  GnetIds = {}
INVARIANTS EdgeConforms StateConforms CallInAlphabet
CHECK_DEADLOCK FALSE
