---------------------------- MODULE ConnectionsEdges ----------------------------
(***************************************************************************)
(* Edge oracle for the explore -> validate direction (DESIGN 2.2).         *)
(*                                                                         *)
(* The harness explored the REAL daemon.Connections breadth-first and      *)
(* wrote   states.ndjson : {id, path, proj}   (projection of every         *)
(*                          reachable implementation state)                *)
(*         edges.ndjson  : {pre, call, res, post}  (every call of the      *)
(*                          alphabet attempted in every state)             *)
(* Every edge becomes one initial state of this spec: the pre-projection   *)
(* is loaded into the variables of Connections, the specification's own    *)
(* action for the logged call is taken, and the successor is compared      *)
(* with the logged result class and post-projection.  Every state of the   *)
(* table is also checked against the derived views (the property proper).  *)
(* Edges are independent, so TLC checks them on all workers.               *)
(***************************************************************************)
EXTENDS Connections, Json

StateFile == "states.ndjson"
EdgeFile  == "edges.ndjson"
States == ndJsonDeserialize(StateFile)
Edges  == ndJsonDeserialize(EdgeFile)

VARIABLES l,      \* index of the edge (or state) this behaviour checks
          phase   \* "edge" -> "loaded" -> "done" for an edge; "entry" -> "state" for a state-table entry

AddrStr(a) == Ip(a) \o ":" \o ToString(Port(a))

\* ---- projection (JSON) -> abstract state ----
ConnsOf(p) ==
  LET idx == DOMAIN p.conns
      key(i) == <<p.conns[i].ip, p.conns[i].port>>
  IN [a \in {key(i) : i \in idx} |->
        LET i == CHOOSE j \in idx : key(j) = a
        IN [st |-> p.conns[i].st, out |-> p.conns[i].out, mirror |-> p.conns[i].mirror,
            lport |-> p.conns[i].lport, gid |-> p.conns[i].gid]]

ObsIpCounts(p) == { <<p.ipcounts[i].ip, p.ipcounts[i].n>> : i \in DOMAIN p.ipcounts }
ObsMirrors(p)  == { <<p.mirrors[i].mirror, p.mirrors[i].ip, p.mirrors[i].lport>> : i \in DOMAIN p.mirrors }
ObsGnet(p)     == { <<p.gnetids[i].gid, <<p.gnetids[i].ip, p.gnetids[i].port>>>> : i \in DOMAIN p.gnetids }
\* the listen map as a set of <<listen address text, connection address text>>
ObsListen(p)   == UNION { { <<p.listen[i].laddr, p.listen[i].addrs[j]>> : j \in DOMAIN p.listen[i].addrs } : i \in DOMAIN p.listen }
ObsListenEntries(p) == LET n[i \in 0..Len(p.listen)] == IF i = 0 THEN 0 ELSE n[i-1] + Len(p.listen[i].addrs) IN n[Len(p.listen)]
ExpListen(c)   == { <<x[1] \o ":" \o ToString(x[2]), AddrStr(x[3])>> : x \in ListenView(c) }

\* C24 proper: the secondary maps describe exactly the live connections
StateOK(p) ==
  LET c == ConnsOf(p) IN
  /\ Len(p.conns) = Cardinality(DOMAIN c) /\ p.len = Len(p.conns)
  /\ ObsIpCounts(p) = IpCountView(c)
  /\ ObsMirrors(p)  = MirrorView(c)  /\ Len(p.mirrors) = Cardinality(MirrorView(c))
  /\ ObsGnet(p)     = GnetView(c)    /\ Len(p.gnetids) = Cardinality(GnetView(c))
  /\ ObsListen(p)   = ExpListen(c)   /\ ObsListenEntries(p) = Cardinality(ListenView(c))
  /\ \A i \in DOMAIN p.listen : Len(p.listen[i].addrs) > 0
  /\ \A a, b \in DOMAIN c : (a # b /\ c[a].st = "introduced" /\ c[b].st = "introduced" /\ Ip(a) = Ip(b)) => c[a].mirror # c[b].mirror

CallOf(k) == Call(k.op, <<k.ip, k.port>>, k.gid, k.mirror, k.lport)

InitLast == [call |-> Call("init", <<"", 0>>, 0, 0, 0), res |-> "ok"]

\* One behaviour per edge and per state-table entry.  The initial states are cheap (an index
\* only); loading the pre-projection is the first step, so that it is done by all workers.
EdgeInit ==
  /\ conns = NoConn /\ last = InitLast
  /\ \/ l \in 1..Len(Edges)  /\ phase = "edge"
     \/ l \in 1..Len(States) /\ phase = "entry"

\* later chunks of a large edge file: the state table was already checked with the first chunk
EdgeInitOnly == conns = NoConn /\ last = InitLast /\ l \in 1..Len(Edges) /\ phase = "edge"

Load ==
  /\ l' = l /\ last' = last
  /\ \/ phase = "edge"  /\ phase' = "loaded" /\ conns' = ConnsOf(States[Edges[l].pre].proj)
     \/ phase = "entry" /\ phase' = "state"  /\ conns' = ConnsOf(States[l].proj)

\* the specification's own action, constrained to the logged call
Take ==
  /\ phase = "loaded" /\ phase' = "done" /\ l' = l
  /\ LET k == CallOf(Edges[l].call) IN
       CASE k.op = "pending"    -> Pending(k.addr)
         [] k.op = "connected"  -> Connected(k.addr, k.gid)
         [] k.op = "introduced" -> Introduced(k.addr, k.gid, k.mirror, k.lport)
         [] k.op = "remove"     -> Remove(k.addr, k.gid)

EdgeNext == Load \/ Take

EdgeSpec == EdgeInit /\ [][EdgeNext]_<<vars, l, phase>>

\* Monitors.  They report through PrintT and stay TRUE, so that one TLC run collects every
\* mismatch (the driver turns MISMATCH lines into the verdict).
EdgeConforms ==
  phase = "done" =>
     \/ (last.res = Edges[l].res /\ conns = ConnsOf(States[Edges[l].post].proj))
     \/ PrintT(<<"MISMATCH", "edge", l, "expected", last.res, conns>>)

StateConforms ==
  phase = "state" =>
     \/ (States[l].id = l /\ StateOK(States[l].proj))
     \/ PrintT(<<"MISMATCH", "state", l>>)

\* the alphabet assumption under which the edge was produced
CallInAlphabet ==
  phase = "loaded" =>
     \/ (Edges[l].call.op = "connected" => FreshGid(conns, Edges[l].call.gid))
     \/ PrintT(<<"MISMATCH", "alphabet", l>>)
=============================================================================
