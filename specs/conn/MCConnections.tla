---------------------------- MODULE MCConnections ----------------------------
EXTENDS Connections
\* `last` is output only: hide it from the fingerprint (the action properties are still
\* evaluated on every generated transition).
View == conns
=============================================================================
