SPECIFICATION Spec
CONSTANTS
  Ips = {"10.0.0.1", "10.0.0.2"}
  Ports = {6000, 6001}
  Mirrors = {0, 7}
  ListenPorts = {0, 6000}
  GnetIds = {0, 1, 2, 3}
INVARIANTS TypeOK NoSharedIpMirror MirrorViewIsFunction GnetViewIsFunction PendingHasNoGid OnlyIncomingUnregistered EmptyWhenNoConns
PROPERTIES IntroducedOnlyFromConnected ErrorIsNoOp
CHECK_DEADLOCK FALSE
VIEW View
