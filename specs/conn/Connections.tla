---------------------------- MODULE Connections ----------------------------
(***************************************************************************)
(* Abstract model of daemon.Connections (src/daemon/connections.go).       *)
(*                                                                         *)
(* The primary state is the function `conns` from live addresses to their  *)
(* connection record.  The four secondary maps the implementation keeps    *)
(* (ipCounts, mirrors, gnetIDs, listenAddrs) are DEFINITIONS over `conns`  *)
(* - that they can be so defined is exactly property C24.                  *)
(*                                                                         *)
(* The module is written as a functional core: Step(c, call) returns the   *)
(* result class and the next value of `conns`.  The actions of the design  *)
(* spec (this module), the behaviour generator (GenConnections) and the    *)
(* edge oracle (ConnectionsEdges) all use the same Step.                   *)
(***************************************************************************)
EXTENDS Integers, Sequences, FiniteSets, TLC

CONSTANTS Ips,          \* set of IP strings
          Ports,        \* set of remote ports (non-zero)
          Mirrors,      \* set of mirror values an introduction may carry (includes 0)
          ListenPorts,  \* set of listen ports an introduction may carry (includes 0)
          GnetIds       \* set of gnet connection ids a caller may pass (includes 0 = invalid)

Addrs == Ips \X Ports                 \* <<ip, port>>
Ip(a) == a[1]
Port(a) == a[2]

NoConn == [a \in {} |-> 0]
With(f, a, v) == [x \in DOMAIN f \cup {a} |-> IF x = a THEN v ELSE f[x]]
Without(f, a) == [x \in DOMAIN f \ {a} |-> f[x]]

ConnRec == [st : {"pending", "connected", "introduced"}, out : BOOLEAN,
            mirror : Mirrors, lport : ListenPorts \cup Ports \cup {0}, gid : GnetIds]

--------------------------------------------------------------------------
(* Derived views: what the implementation keeps in its secondary maps.    *)

Live(c) == DOMAIN c
IpCount(c, ip)  == Cardinality({a \in Live(c) : Ip(a) = ip})
IpCountView(c)  == { <<ip, IpCount(c, ip)>> : ip \in {Ip(a) : a \in Live(c)} }
MirrorView(c)   == { <<c[a].mirror, Ip(a), c[a].lport>> : a \in {x \in Live(c) : c[x].st = "introduced"} }
GnetView(c)     == { <<c[a].gid, a>> : a \in {x \in Live(c) : c[x].gid # 0} }
\* A connection is registered under its listen address when it is outgoing (registered by
\* `pending` under its own address) or introduced (incoming connections register on
\* introduction); a connection without a listen port (0) is registered nowhere.
Registered(c, a) == c[a].lport # 0 /\ (c[a].out \/ c[a].st = "introduced")
ListenView(c)   == { <<Ip(a), c[a].lport, a>> : a \in {x \in Live(c) : Registered(c, x)} }

Views(c) == [ipcounts |-> IpCountView(c), mirrors |-> MirrorView(c),
             gnetids |-> GnetView(c), listen |-> ListenView(c)]

--------------------------------------------------------------------------
(* Functional core.  A call is a record [op, addr, gid, mirror, lport].   *)

R(res, c) == [res |-> res, conns |-> c]

\* gnet hands out ids that are unique among live connections; 0 is never handed out
\* but callers may pass it (it is refused).
FreshGid(c, g) == g = 0 \/ \A a \in Live(c) : c[a].gid # g

StepPending(c, a) ==
  IF a \in Live(c) THEN R("ErrConnectionExists", c)
  ELSE R("ok", With(c, a, [st |-> "pending", out |-> TRUE, mirror |-> 0, lport |-> Port(a), gid |-> 0]))

StepConnected(c, a, g) ==
  IF g = 0 THEN R("ErrInvalidGnetID", c)
  ELSE IF a \notin Live(c)
  THEN R("ok", With(c, a, [st |-> "connected", out |-> FALSE, mirror |-> 0, lport |-> 0, gid |-> g]))
  ELSE IF c[a].st = "pending"   THEN R("ok", [c EXCEPT ![a].st = "connected", ![a].gid = g])
  ELSE IF c[a].st = "connected" THEN R("ErrConnectionAlreadyConnected", c)
  ELSE R("ErrConnectionAlreadyIntroduced", c)

MirrorTaken(c, a, m) ==
  \E b \in Live(c) : c[b].st = "introduced" /\ Ip(b) = Ip(a) /\ c[b].mirror = m

StepIntroduced(c, a, g, m, lp) ==
  IF g = 0 THEN R("ErrInvalidGnetID", c)
  ELSE IF a \notin Live(c) THEN R("ErrConnectionNotExist", c)
  ELSE IF c[a].st = "pending" THEN R("ErrConnectionStateNotConnected", c)
  ELSE IF c[a].st = "introduced" THEN R("ErrConnectionAlreadyIntroduced", c)
  ELSE IF c[a].gid # g THEN R("ErrConnectionGnetIDMismatch", c)
  ELSE IF MirrorTaken(c, a, m) THEN R("ErrConnectionIPMirrorExists", c)
  ELSE R("ok", [c EXCEPT ![a].st = "introduced", ![a].mirror = m,
                         ![a].lport = IF c[a].out THEN c[a].lport ELSE lp])

StepRemove(c, a, g) ==
  IF a \notin Live(c) THEN R("ErrConnectionNotExist", c)
  ELSE IF c[a].gid # g THEN R("ErrConnectionGnetIDMismatch", c)
  ELSE R("ok", Without(c, a))

Step(c, call) ==
  CASE call.op = "pending"    -> StepPending(c, call.addr)
    [] call.op = "connected"  -> StepConnected(c, call.addr, call.gid)
    [] call.op = "introduced" -> StepIntroduced(c, call.addr, call.gid, call.mirror, call.lport)
    [] call.op = "remove"     -> StepRemove(c, call.addr, call.gid)

Call(op, a, g, m, lp) == [op |-> op, addr |-> a, gid |-> g, mirror |-> m, lport |-> lp]

\* The calls a caller can make in state c (the alphabet of the exploration).
Calls(c) ==
  {Call("pending", a, 0, 0, 0) : a \in Addrs}
  \cup {Call("connected", a, g, 0, 0) : a \in Addrs, g \in {x \in GnetIds : FreshGid(c, x)}}
  \cup {Call("introduced", x[1], x[2], x[3], x[4]) : x \in Addrs \X GnetIds \X Mirrors \X ListenPorts}
  \cup {Call("remove", a, g, 0, 0) : a \in Addrs, g \in GnetIds}

--------------------------------------------------------------------------
(* Design spec.                                                           *)

VARIABLES conns,   \* function: addr -> connection record
          last     \* the last call and its result (observable)
vars == <<conns, last>>

Init == conns = NoConn /\ last = [call |-> Call("init", <<"", 0>>, 0, 0, 0), res |-> "ok"]

Do(call) == LET r == Step(conns, call) IN conns' = r.conns /\ last' = [call |-> call, res |-> r.res]

Pending(a)              == Do(Call("pending", a, 0, 0, 0))
Connected(a, g)         == FreshGid(conns, g) /\ Do(Call("connected", a, g, 0, 0))
Introduced(a, g, m, lp) == Do(Call("introduced", a, g, m, lp))
Remove(a, g)            == Do(Call("remove", a, g, 0, 0))

Next == \E a \in Addrs :
          \/ Pending(a)
          \/ \E g \in GnetIds : Connected(a, g) \/ Remove(a, g)
          \/ \E g \in GnetIds, m \in Mirrors, lp \in ListenPorts : Introduced(a, g, m, lp)

Spec == Init /\ [][Next]_vars

--------------------------------------------------------------------------
(* Property C24.                                                          *)

TypeOK == \A a \in Live(conns) : conns[a] \in ConnRec

\* two introduced connections never share an IP and mirror value
NoSharedIpMirror == \A a, b \in Live(conns) :
   (a # b /\ conns[a].st = "introduced" /\ conns[b].st = "introduced" /\ Ip(a) = Ip(b))
      => conns[a].mirror # conns[b].mirror

\* consequently the mirror view is a function of (mirror, ip), and ids are a function of gid
MirrorViewIsFunction == \A x, y \in MirrorView(conns) : (x[1] = y[1] /\ x[2] = y[2]) => x = y
GnetViewIsFunction   == \A x, y \in GnetView(conns) : x[1] = y[1] => x = y

PendingHasNoGid == \A a \in Live(conns) : (conns[a].st = "pending") <=> (conns[a].gid = 0)
OnlyIncomingUnregistered == \A a \in Live(conns) : conns[a].st = "pending" => conns[a].out

\* removing every connection leaves all maps empty
EmptyWhenNoConns == (Live(conns) = {}) =>
   (MirrorView(conns) = {} /\ GnetView(conns) = {} /\ ListenView(conns) = {} /\ IpCountView(conns) = {})

\* a connection becomes introduced only from the connected state with the matching id
IntroducedOnlyFromConnected ==
   [][\A a \in Addrs :
        (a \in DOMAIN conns' /\ conns'[a].st = "introduced" /\ ~(a \in DOMAIN conns /\ conns[a].st = "introduced"))
        => (a \in DOMAIN conns /\ conns[a].st = "connected" /\ conns[a].gid = conns'[a].gid
            /\ last'.call.op = "introduced" /\ last'.call.gid = conns[a].gid /\ last'.res = "ok")]_vars

\* a call that reports an error changes nothing
ErrorIsNoOp == [][last'.res # "ok" => conns' = conns]_vars
=============================================================================
