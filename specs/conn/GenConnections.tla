---------------------------- MODULE GenConnections ----------------------------
(***************************************************************************)
(* Behaviour generator for the generate -> replay direction.  Runs the     *)
(* design spec with a history variable; when a behaviour reaches Depth it  *)
(* is printed as one JSON line  GEN [ {call, res, post}, ... ]  where post *)
(* is the expected projection (conns and the four derived views), in the   *)
(* same layout the harness logs.  Used with  tlc -simulate num=N.          *)
(***************************************************************************)
EXTENDS Connections, Json, SequencesExt

CONSTANT Depth
VARIABLES hist, done

AddrStr(a) == Ip(a) \o ":" \o ToString(Port(a))

ProjOf(c) ==
  [conns    |-> SetToSeq({[ip |-> Ip(a), port |-> Port(a), st |-> c[a].st, out |-> c[a].out,
                           mirror |-> c[a].mirror, lport |-> c[a].lport, gid |-> c[a].gid] : a \in Live(c)}),
   mirrors  |-> SetToSeq({[mirror |-> x[1], ip |-> x[2], lport |-> x[3]] : x \in MirrorView(c)}),
   ipcounts |-> SetToSeq({[ip |-> x[1], n |-> x[2]] : x \in IpCountView(c)}),
   gnetids  |-> SetToSeq({[gid |-> x[1], ip |-> Ip(x[2]), port |-> Port(x[2])] : x \in GnetView(c)}),
   listen   |-> SetToSeq({[laddr |-> la,
                           addrs |-> SetToSeq({AddrStr(y[3]) : y \in {z \in ListenView(c) : z[1] \o ":" \o ToString(z[2]) = la}})]
                          : la \in {x[1] \o ":" \o ToString(x[2]) : x \in ListenView(c)}}),
   len      |-> Cardinality(Live(c))]

CallJson(k) == [op |-> k.op, ip |-> Ip(k.addr), port |-> Port(k.addr), gid |-> k.gid, mirror |-> k.mirror, lport |-> k.lport]

GenInit == Init /\ hist = <<>> /\ done = FALSE

GenNext ==
  \/ /\ Len(hist) < Depth /\ ~done
     /\ Next
     /\ hist' = Append(hist, [call |-> last'.call, res |-> last'.res, post |-> conns'])   \* projection deferred to print time
     /\ UNCHANGED done
  \/ /\ Len(hist) = Depth /\ ~done
     /\ PrintT("GEN " \o ToJson([i \in DOMAIN hist |-> [call |-> CallJson(hist[i].call), res |-> hist[i].res, post |-> ProjOf(hist[i].post)]]))
     /\ done' = TRUE /\ UNCHANGED <<vars, hist>>

GenSpec == GenInit /\ [][GenNext]_<<vars, hist, done>>
=============================================================================
