---------------------------- MODULE DropletRecords ----------------------------
(***************************************************************************)
(* Record oracle (C30): every line of recs.ndjson is one call of the real  *)
(* droplet.FromString ("parse": the text as byte values, accepted or not,  *)
(* the value as decimal digits, did it return within the watchdog) or      *)
(* droplet.ToString ("format": the value, the text, and what parsing that  *)
(* text gave back).  Each record is one initial state; TLC evaluates the   *)
(* definitions of Droplet.tla on it.                                       *)
(***************************************************************************)
EXTENDS Droplet, Json, TLC

MaxInt64Digits == <<9,2,2,3,3,7,2,0,3,6,8,5,4,7,7,5,8,0,7>>   \* 2^63-1
Recs == ndJsonDeserialize("recs.ndjson")
VARIABLE l
Init == l \in 1..Len(Recs)
Next == UNCHANGED l

Reason(r) ==
  IF r.fn = "parse" THEN (IF ~r.returned THEN "parse-did-not-return" ELSE ParseVerdict(r.s, r.ok, r.val))
  ELSE IF r.fn = "format" THEN FormatVerdict(r.n, r.ok, r.text, r.backOk, r.back)
  ELSE "unknown-record"
Conforms == LET x == Reason(Recs[l]) IN x = "ok" \/ PrintT(<<"MISMATCH", "rec", l, Recs[l].fn, x>>)
=============================================================================
