------------------------------ MODULE MCBase58 ------------------------------
(***************************************************************************)
(* Base58.tla checked on its own: for every byte string of length <= 3     *)
(* over a boundary set of byte values, and every text of length <= 3 over  *)
(* a part of the alphabet plus foreign characters, the digit-sequence      *)
(* definitions agree with native integer arithmetic, Decode inverts Encode *)
(* and Encode inverts Decode (the bijection the property relies on).       *)
(***************************************************************************)
EXTENDS Base58, TLC
ByteVals == {0, 1, 57, 58, 59, 127, 128, 255}
Chars == {49, 50, 65, 122, 48, 73, 108, 200}      \* '1' '2' 'A' 'z' and the foreign '0' 'I' 'l' 0xC8
VARIABLES mode, x
Init == \/ mode = "bytes" /\ x \in UNION {[1..n -> ByteVals] : n \in 0..3}
        \/ mode = "text" /\ x \in UNION {[1..n -> Chars] : n \in 0..3}
Next == UNCHANGED <<mode, x>>
RECURSIVE Num(_, _)
Num(d, B) == IF Len(d) = 0 THEN 0 ELSE B * Num(SubSeq(d, 1, Len(d) - 1), B) + d[Len(d)]
BytesOK == mode = "bytes" =>
   LET t == Encode(x) z == Leading(x, 0) IN
   /\ Decodable(t) /\ Decode(t) = x
   /\ Leading(t, 49) = z
   /\ Num([i \in 1..(Len(t) - z) |-> DigitOf(t[z + i])], 58) = Num(x, 256)
   /\ (Len(t) > z => t[z + 1] # 49)
   /\ EncodeVerdict(x, t) = "ok" /\ DecodeVerdict(t, TRUE, x) = (IF Len(t) = 0 THEN "ok" ELSE "ok")
TextOK == mode = "text" =>
   IF Decodable(x) THEN /\ Encode(Decode(x)) = x
                        /\ Num(Decode(x), 256) = Num([i \in 1..Len(x) |-> DigitOf(x[i])], 58)
                        /\ Leading(Decode(x), 0) = Leading(x, 49)
   ELSE DecodeVerdict(x, TRUE, << >>) = "non-alphabet-text-decoded" /\ DecodeVerdict(x, FALSE, << >>) = "ok"
=============================================================================
