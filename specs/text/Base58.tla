------------------------------- MODULE Base58 -------------------------------
(***************************************************************************)
(* Base58 and address text (C15) by the big-integer definition.  A byte    *)
(* string is z zero bytes followed by the base-256 digits of a number N    *)
(* (no leading zero digit); its text is z times '1' followed by the        *)
(* base-58 digits of N in the Bitcoin alphabet.  That is a bijection       *)
(* between byte strings and texts over the alphabet, so a text decodes iff *)
(* all its characters are in the alphabet, and every such text is the      *)
(* canonical text of exactly one byte string.  Numbers are digit sequences *)
(* (most significant first) and conversion is schoolbook division, so      *)
(* nothing depends on TLC's 32-bit integers.  Checked on its own by        *)
(* MCBase58 against native integers.                                       *)
(***************************************************************************)
EXTENDS Integers, Sequences

Alphabet58 == <<49, 50, 51, 52, 53, 54, 55, 56, 57,                                              \* 1-9
                65, 66, 67, 68, 69, 70, 71, 72, 74, 75, 76, 77, 78, 80, 81, 82, 83, 84, 85, 86, 87, 88, 89, 90,   \* A-Z without I, O
                97, 98, 99, 100, 101, 102, 103, 104, 105, 106, 107, 109, 110, 111, 112, 113, 114, 115, 116, 117, 118, 119, 120, 121, 122>>  \* a-z without l
InAlphabet(c) == \E i \in 1..58 : Alphabet58[i] = c
DigitOf(c) == (CHOOSE i \in 1..58 : Alphabet58[i] = c) - 1

\* the number of leading elements equal to z (by index: linear in the length, byte strings of thousands of zeros are inputs too)
RECURSIVE LeadingFrom(_, _, _)
LeadingFrom(s, z, i) == IF i <= Len(s) /\ s[i] = z THEN LeadingFrom(s, z, i + 1) ELSE i - 1
Leading(s, z) == LeadingFrom(s, z, 1)
Drop(s, n) == SubSeq(s, n + 1, Len(s))
Zeros(n) == [i \in 1..n |-> 0]

\* quotient (digit sequence, leading zeros kept) and remainder of the base-B number d by k
RECURSIVE DivFrom(_, _, _, _, _)
DivFrom(d, B, k, i, rem) ==
  IF i > Len(d) THEN [q |-> << >>, r |-> rem]
  ELSE LET cur == rem * B + d[i] rest == DivFrom(d, B, k, i + 1, cur % k) IN [q |-> <<cur \div k>> \o rest.q, r |-> rest.r]
\* the digits in base T of the number whose base-B digits are d: least significant first while dividing, returned most significant first
RECURSIVE ConvRev(_, _, _)
ConvRev(d, B, T) ==
  LET n == Drop(d, Leading(d, 0)) IN
  IF Len(n) = 0 THEN << >> ELSE LET x == DivFrom(n, B, T, 1, 0) IN <<x.r>> \o ConvRev(x.q, B, T)
Reverse(s) == [i \in 1..Len(s) |-> s[Len(s) + 1 - i]]
Convert(d, B, T) == Reverse(ConvRev(d, B, T))

Encode(bytes) == LET z == Leading(bytes, 0) dg == Convert(Drop(bytes, z), 256, 58)
                 IN [i \in 1..z |-> 49] \o [i \in 1..Len(dg) |-> Alphabet58[dg[i] + 1]]
Decodable(text) == \A i \in DOMAIN text : InAlphabet(text[i])
Decode(text) == LET z == Leading(text, 49) r == Drop(text, z)
                IN Zeros(z) \o Convert([i \in 1..Len(r) |-> DigitOf(r[i])], 58, 256)

\* ---- verdicts on observed calls ----
EncodeVerdict(bytes, text) == IF text = Encode(bytes) THEN "ok" ELSE "encode-differs-from-definition"
\* the empty text is the text of the empty byte string; the implementation refuses it (named deviation, known finding)
DecodeVerdict(text, accepted, bytes) ==
  IF ~Decodable(text) THEN (IF accepted THEN "non-alphabet-text-decoded" ELSE "ok")
  ELSE IF ~accepted THEN (IF Len(text) = 0 THEN "empty-text-rejected" ELSE "alphabet-text-rejected")
  ELSE IF bytes # Decode(text) THEN "decode-differs-from-definition"
  ELSE IF Encode(bytes) # text THEN "not-canonical" ELSE "ok"

\* an address text: 20 key bytes, the version byte, the first four bytes of SHA-256 of those 21 (computed by the recorder with crypto/sha256)
IsAddressText(text, sum4) == /\ Len(text) > 0 /\ Decodable(text)
                             /\ LET b == Decode(text) IN Len(b) = 25 /\ b[21] = 0 /\ SubSeq(b, 22, 25) = sum4
AddressVerdict(text, sum4, accepted, key, version, again) ==
  IF ~IsAddressText(text, sum4) THEN (IF accepted THEN "non-address-text-accepted" ELSE "ok")
  ELSE IF ~accepted THEN "address-text-rejected"
  ELSE LET b == Decode(text) IN
       IF key # SubSeq(b, 1, 20) \/ version # 0 THEN "wrong-address-value"
       ELSE IF again # text THEN "address-text-not-one-to-one" ELSE "ok"
=============================================================================
