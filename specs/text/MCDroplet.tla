------------------------------ MODULE MCDroplet ------------------------------
(***************************************************************************)
(* The definitions of Droplet.tla checked on their own, exhaustively for a *)
(* small instance (2 decimal places, values up to 1299): every value       *)
(* formats to a text that denotes it; every text over the alphabet         *)
(* {0,1,3,9,.,-,+,e} of length <= MaxLen that denotes an amount denotes    *)
(* one whose text denotes the same amount again; native integers are the   *)
(* independent yardstick for the digit-sequence arithmetic.                *)
(***************************************************************************)
EXTENDS Droplet, FiniteSets, TLC
CONSTANT MaxLen
MCMaxValue == <<1, 2, 9, 9>>
Alphabet == {48, 49, 51, 57, 46, 45, 43, 101}
RECURSIVE Nat2Digits(_)
Nat2Digits(n) == IF n = 0 THEN << >> ELSE Nat2Digits(n \div 10) \o <<n % 10>>
RECURSIVE Digits2Nat(_)
Digits2Nat(d) == IF Len(d) = 0 THEN 0 ELSE 10 * Digits2Nat(SubSeq(d, 1, Len(d) - 1)) + d[Len(d)]
MaxN == Digits2Nat(MaxValue)

VARIABLES mode, x
Init == \/ mode = "value" /\ x \in 0..(MaxN + 50)
        \/ mode = "text" /\ x \in UNION {[1..n -> Alphabet] : n \in 0..MaxLen}
Next == UNCHANGED <<mode, x>>

\* the independent reading of a text with native integers (small instance only): value * 10^Places as a rational test
Pow10(k) == IF k = 0 THEN 1 ELSE IF k = 1 THEN 10 ELSE IF k = 2 THEN 100 ELSE IF k = 3 THEN 1000 ELSE IF k = 4 THEN 10000 ELSE 100000
ValueOK == mode = "value" =>
   LET v == Nat2Digits(x) IN
   IF x <= MaxN THEN /\ Denotes(Format(v)) = [class |-> "ok", value |-> v]
                     /\ Read(Format(v)).plain
                     /\ FormatVerdict(v, TRUE, Format(v), TRUE, v) = "ok"
                     /\ ParseVerdict(Format(v), TRUE, v) = "ok" /\ ParseVerdict(Format(v), FALSE, << >>) = "plain-amount-rejected"
   ELSE ~Le(v, MaxValue) /\ FormatVerdict(v, TRUE, Format(v), TRUE, v) = "formatted-unrepresentable"
TextOK == mode = "text" =>
   LET d == Denotes(x) r == Read(x) IN
   /\ d.class = "ok" => /\ Le(d.value, MaxValue) /\ Denotes(Format(d.value)) = d
                        \* against native integers when the exponent is small enough for them
                        /\ (r.exp.small /\ r.exp.n \in -3..3 /\ Len(r.digits) <= 5 =>
                              LET k == Places + r.exp.n - r.fraclen IN
                              IF k >= 0 THEN Digits2Nat(d.value) = Digits2Nat(r.digits) * Pow10(k)
                              ELSE Digits2Nat(d.value) * Pow10(0 - k) = Digits2Nat(r.digits))
   /\ (r.ok /\ d.class # "ok" /\ r.exp.small /\ r.exp.n \in -3..3 /\ Len(r.digits) <= 5 =>
          LET k == Places + r.exp.n - r.fraclen n == Digits2Nat(r.digits) IN
          \/ r.neg /\ n > 0
          \/ k >= 0 /\ n * Pow10(k) > MaxN
          \/ k < 0 /\ (n % Pow10(0 - k) # 0 \/ n \div Pow10(0 - k) > MaxN))
=============================================================================
