INIT Init
NEXT Next
INVARIANTS BytesOK TextOK
CHECK_DEADLOCK FALSE
