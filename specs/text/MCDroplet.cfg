CONSTANTS Places = 2
  MaxValue <- MCMaxValue
  MaxLen = 5
INIT Init
NEXT Next
INVARIANTS ValueOK TextOK
CHECK_DEADLOCK FALSE
