------------------------------- MODULE Droplet -------------------------------
(***************************************************************************)
(* Coin amount text (C30) as mathematics.  A text is a sequence of byte    *)
(* values.  Denotation: [sign] digits [. digits] [ (e|E) [sign] digits ]   *)
(* with at least one mantissa digit denotes  D * 10^(exp - fraclen); the   *)
(* droplet value is that times 10^Places.  A text is an AMOUNT iff it      *)
(* denotes a non-negative number whose droplet value is a whole number     *)
(* (at most Places decimal places) that fits in MaxDigits/MaxValue.        *)
(* Every accepted text must be an amount, with the exact value; every      *)
(* amount text must be accepted, except three named shapes the vendored    *)
(* decimal parser does not take (Tolerated: ".0", seven-digit exponents,   *)
(* "10e-7").                                                               *)
(* Values are digit sequences (most significant first, no leading zeros,   *)
(* zero = << >>), so nothing here depends on TLC's 32-bit integers.        *)
(* Checked on its own by MCDroplet (small Places / MaxValue, all short     *)
(* texts) and evaluated on recorded calls of the real functions by         *)
(* DropletRecords.                                                         *)
(***************************************************************************)
EXTENDS Integers, Sequences
CONSTANTS Places,      \* 6
          MaxValue     \* digit sequence of the largest droplet value that parses (2^63-1)

IsDigit(c) == c \in 48..57
AllDigits(s) == \A i \in DOMAIN s : IsDigit(s[i])
Val(s) == [i \in DOMAIN s |-> s[i] - 48]                           \* digit characters -> digit values
RECURSIVE StripLeft(_)
StripLeft(d) == IF Len(d) > 0 /\ d[1] = 0 THEN StripLeft(Tail(d)) ELSE d      \* canonical digit sequence
RECURSIVE TrailingZeros(_)
TrailingZeros(d) == IF Len(d) > 0 /\ d[Len(d)] = 0 THEN 1 + TrailingZeros(SubSeq(d, 1, Len(d) - 1)) ELSE 0
Zeros(k) == [i \in 1..k |-> 0]
First(s, set) == IF \E i \in DOMAIN s : s[i] \in set THEN CHOOSE i \in DOMAIN s : s[i] \in set /\ \A j \in 1..(i - 1) : s[j] \notin set ELSE 0

\* a <= b for canonical digit sequences
RECURSIVE LexLe(_, _)
LexLe(a, b) == IF Len(a) = 0 THEN TRUE ELSE IF a[1] < b[1] THEN TRUE ELSE IF a[1] > b[1] THEN FALSE ELSE LexLe(Tail(a), Tail(b))
Le(a, b) == Len(a) < Len(b) \/ (Len(a) = Len(b) /\ LexLe(a, b))

\* ---- reading a text ----
Signed(s) == IF Len(s) > 0 /\ s[1] \in {43, 45} THEN [neg |-> s[1] = 45, signed |-> TRUE, rest |-> Tail(s)] ELSE [neg |-> FALSE, signed |-> FALSE, rest |-> s]
\* the exponent: "small" with its integer value when it has at most 6 significant digits, otherwise only its direction
Exponent(t) ==
  LET sg == Signed(t) d == StripLeft(Val(sg.rest)) IN
  IF Len(sg.rest) = 0 \/ ~AllDigits(sg.rest) THEN [ok |-> FALSE]
  ELSE IF Len(d) > 6 THEN [ok |-> TRUE, small |-> FALSE, neg |-> sg.neg]
  ELSE LET RECURSIVE N(_)
           N(x) == IF Len(x) = 0 THEN 0 ELSE 10 * N(SubSeq(x, 1, Len(x) - 1)) + x[Len(x)]
       IN [ok |-> TRUE, small |-> TRUE, neg |-> sg.neg, n |-> IF sg.neg THEN 0 - N(d) ELSE N(d)]
Read(s) ==
  LET e == First(s, {101, 69})
      mant == IF e = 0 THEN s ELSE SubSeq(s, 1, e - 1)
      ex == IF e = 0 THEN [ok |-> TRUE, small |-> TRUE, neg |-> FALSE, n |-> 0] ELSE Exponent(SubSeq(s, e + 1, Len(s)))
      sg == Signed(mant)
      p == First(sg.rest, {46})
      ip == IF p = 0 THEN sg.rest ELSE SubSeq(sg.rest, 1, p - 1)
      fp == IF p = 0 THEN << >> ELSE SubSeq(sg.rest, p + 1, Len(sg.rest))
  IN [ok |-> ex.ok /\ AllDigits(ip) /\ AllDigits(fp) /\ Len(ip) + Len(fp) > 0,
      plain |-> e = 0 /\ ~sg.signed /\ Len(ip) > 0, neg |-> sg.neg, digits |-> StripLeft(Val(ip \o fp)), fraclen |-> Len(fp), exp |-> ex]

\* ---- what a text denotes: [class |-> "ok", value |-> droplet digit sequence] or a reason why it is not an amount ----
Denotes(s) ==
  LET r == Read(s) IN
  IF ~r.ok THEN [class |-> "syntax"]
  ELSE IF Len(r.digits) = 0 THEN [class |-> "ok", value |-> << >>]                  \* zero, however it is written
  ELSE IF r.neg THEN [class |-> "negative"]
  ELSE IF ~r.exp.small THEN [class |-> IF r.exp.neg THEN "decimals" ELSE "large"]    \* |exponent| >= 10^6 on a non-zero mantissa of recordable length
  ELSE LET k == Places + r.exp.n - r.fraclen IN                                     \* droplets = digits * 10^k
       IF k >= 0 THEN (IF Len(r.digits) + k > Len(MaxValue) THEN [class |-> "large"]
                       ELSE LET v == r.digits \o Zeros(k) IN IF Le(v, MaxValue) THEN [class |-> "ok", value |-> v] ELSE [class |-> "large"])
       ELSE IF TrailingZeros(r.digits) < 0 - k THEN [class |-> "decimals"]
       ELSE LET v == SubSeq(r.digits, 1, Len(r.digits) + k) IN IF Le(v, MaxValue) THEN [class |-> "ok", value |-> v] ELSE [class |-> "large"]

\* ---- the text of a droplet value: integer part without leading zeros (one 0 at least), a point, exactly Places digits ----
Format(v) ==
  LET padded == IF Len(v) <= Places THEN Zeros(Places + 1 - Len(v)) \o v ELSE v
      n == Len(padded)
  IN [i \in 1..(n + 1) |-> IF i <= n - Places THEN padded[i] + 48 ELSE IF i = n - Places + 1 THEN 46 ELSE padded[i - 1] + 48]

\* ---- the amounts the vendored decimal parser is known not to take (named deviations; everything else must be accepted) ----
RECURSIVE TrimRight(_)
TrimRight(d) == IF Len(d) > 0 /\ d[Len(d)] = 48 THEN TrimRight(SubSeq(d, 1, Len(d) - 1)) ELSE d
Tolerated(s) ==
  LET e == First(s, {101, 69})
      mant == IF e = 0 THEN s ELSE SubSeq(s, 1, e - 1)
      sg == Signed(mant)
      p == First(sg.rest, {46})
      ip == IF p = 0 THEN sg.rest ELSE SubSeq(sg.rest, 1, p - 1)
      fp == IF p = 0 THEN << >> ELSE TrimRight(SubSeq(sg.rest, p + 1, Len(sg.rest)))
      r == Read(s)
  IN \/ Len(ip) = 0 /\ Len(fp) = 0                        \* ".0": no digit is left once the fraction's trailing zeros are dropped
     \/ ~r.exp.small                                       \* an exponent of seven digits or more (on zero)
     \/ Len(fp) - r.exp.n > Places                         \* written with more than Places decimals, made up for by trailing zeros: "10e-7"

\* ---- verdicts on one observed call ----
\* parse: accepted (with droplet digit sequence val) or rejected
ParseVerdict(s, accepted, val) ==
  LET d == Denotes(s) IN
  IF accepted THEN (IF d.class # "ok" THEN "accepted-" \o d.class ELSE IF val # d.value THEN "wrong-value" ELSE "ok")
  ELSE IF d.class = "ok" /\ ~Tolerated(s) THEN (IF Read(s).plain THEN "plain-amount-rejected" ELSE "amount-rejected") ELSE "ok"
\* format of a value that fits: the text, and parsing that text gives the value back
FormatVerdict(v, ok, text, backOk, back) ==
  IF ~Le(v, MaxValue) THEN (IF ok THEN "formatted-unrepresentable" ELSE "ok")
  ELSE IF ~ok THEN "representable-not-formatted"
  ELSE IF text # Format(v) THEN "wrong-text"
  ELSE IF ~backOk \/ back # v THEN "round-trip" ELSE "ok"
=============================================================================
