CONSTANTS Places = 6
  MaxValue <- MaxInt64Digits
INIT Init
NEXT Next
INVARIANT Conforms
CHECK_DEADLOCK FALSE
