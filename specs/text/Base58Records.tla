---------------------------- MODULE Base58Records ----------------------------
(***************************************************************************)
(* Record oracle (C15): every line of recs.ndjson is one call of the real  *)
(* base58.Encode ("enc", with the decoding of its result), base58.Decode   *)
(* ("dec") or cipher.DecodeBase58Address ("addr", with the address value,  *)
(* its text again, and - from the recorder's own math/big + crypto/sha256  *)
(* - the reference bytes and the checksum the first 21 of them must have). *)
(* Each record is one initial state; TLC evaluates Base58.tla on it.       *)
(***************************************************************************)
EXTENDS Base58, Json, TLC

Recs == ndJsonDeserialize("recs.ndjson")
VARIABLE l
Init == l \in 1..Len(Recs)
Next == UNCHANGED l

Reason(r) ==
  IF r.fn = "enc" THEN
     LET v == EncodeVerdict(r.bytes, r.text) IN
     IF v # "ok" THEN v
     ELSE IF Len(r.bytes) = 0 THEN (IF r.backOk THEN "ok" ELSE "empty-text-rejected")
     ELSE IF ~r.backOk \/ r.back # r.bytes THEN "decode-does-not-invert-encode" ELSE "ok"
  ELSE IF r.fn = "dec" THEN DecodeVerdict(r.text, r.ok, r.bytes)
  \* a result handed out earlier, looked at again after eight more calls: still the decoding of its text
  ELSE IF r.fn = "held" THEN (IF r.now # r.was \/ r.now # Decode(r.text) THEN "earlier-result-changed-by-later-calls" ELSE "ok")
  ELSE IF r.fn = "addr" THEN
     \* the recorder's reference decoding must be the definition's, or its checksum is about other bytes
     IF r.refOk # (Decodable(r.text)) \/ (r.refOk /\ r.ref # Decode(r.text)) THEN "harness-reference-decoding"
     ELSE AddressVerdict(r.text, r.sum4, r.ok, r.key, r.version, r.again)
  ELSE "unknown-record"
Conforms == LET x == Reason(Recs[l]) IN x = "ok" \/ PrintT(<<"MISMATCH", "rec", l, Recs[l].fn, x>>)
=============================================================================
