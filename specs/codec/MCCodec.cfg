CONSTANTS MaxLen = 5
INIT Init
NEXT Next
INVARIANT OK
CHECK_DEADLOCK FALSE
