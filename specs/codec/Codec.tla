-------------------------------- MODULE Codec --------------------------------
(***************************************************************************)
(* The binary wire format of src/cipher/encoder (C21) as a function of a   *)
(* SCHEMA, independent of both implementations (the reflection encoder and *)
(* the generated *_skyencoder.go codecs), which are both checked against   *)
(* it and thereby against each other.                                      *)
(*   schema  [k |-> "int", n]            n bytes, little endian (a value   *)
(*                                       is its byte sequence)             *)
(*           [k |-> "barray", len]       len bytes                         *)
(*           [k |-> "array", len, e]     len elements                      *)
(*           [k |-> "bslice", max]       u32 length, that many bytes       *)
(*           [k |-> "slice", max, e]     u32 length, that many elements    *)
(*           [k |-> "struct", f, omit]   the fields in order; omit: the    *)
(*                                       last field is left out when empty *)
(* max = 0: no maximum.  Decoding reads a length L and fails with          *)
(* "underflow" when fewer than L BYTES remain (whatever the element size), *)
(* then with "maxlen" when L exceeds the maximum; an omitted last field is *)
(* recognised by no bytes remaining.                                       *)
(***************************************************************************)
EXTENDS Integers, Sequences

U32(n) == <<n % 256, (n \div 256) % 256, (n \div 65536) % 256, (n \div 16777216) % 256>>
RECURSIVE Flat(_)
Flat(ss) == IF Len(ss) = 0 THEN << >> ELSE Head(ss) \o Flat(Tail(ss))

RECURSIVE Enc(_, _)
Enc(s, v) ==
  CASE s.k = "int" -> v
    [] s.k = "barray" -> v
    [] s.k = "bslice" -> U32(Len(v)) \o v
    [] s.k = "array" -> Flat([i \in 1..Len(v) |-> Enc(s.e, v[i])])
    [] s.k = "slice" -> U32(Len(v)) \o Flat([i \in 1..Len(v) |-> Enc(s.e, v[i])])
    [] s.k = "struct" -> LET n == Len(s.f)
                             keep == IF s.omit /\ Len(v[n]) = 0 THEN n - 1 ELSE n
                         IN Flat([i \in 1..keep |-> Enc(s.f[i], v[i])])
\* a value respects the maximum lengths of its schema (generated encoders refuse to encode one that does not)
RECURSIVE WithinMax(_, _)
WithinMax(s, v) ==
  CASE s.k \in {"int", "barray"} -> TRUE
    [] s.k = "bslice" -> s.max = 0 \/ Len(v) <= s.max
    [] s.k = "array" -> \A i \in 1..Len(v) : WithinMax(s.e, v[i])
    [] s.k = "slice" -> (s.max = 0 \/ Len(v) <= s.max) /\ \A i \in 1..Len(v) : WithinMax(s.e, v[i])
    [] s.k = "struct" -> \A i \in 1..Len(s.f) : WithinMax(s.f[i], v[i])

\* ---- decoding: [err |-> "", v |-> value, p |-> next position] or [err |-> kind] ----
Left(b, p) == Len(b) - p + 1
\* the length prefix at p: a length of 2^31 or more can never be covered by a recordable buffer
LenAt(b, p) == IF b[p + 3] >= 128 THEN -1 ELSE b[p] + 256 * b[p + 1] + 65536 * b[p + 2] + 16777216 * b[p + 3]
RECURSIVE Dec(_, _, _)
RECURSIVE DecSeq(_, _, _, _, _)
RECURSIVE DecFields(_, _, _, _, _, _)
\* k elements of schema e from position p, appended to acc
DecSeq(e, b, p, k, acc) ==
  IF k = 0 THEN [err |-> "", v |-> acc, p |-> p]
  ELSE LET r == Dec(e, b, p) IN IF r.err # "" THEN r ELSE DecSeq(e, b, r.p, k - 1, Append(acc, r.v))
DecFields(f, omit, b, p, i, acc) ==
  IF i > Len(f) THEN [err |-> "", v |-> acc, p |-> p]
  ELSE IF omit /\ i = Len(f) /\ Left(b, p) = 0 THEN [err |-> "", v |-> Append(acc, << >>), p |-> p]   \* the omitted empty last field
  ELSE LET r == Dec(f[i], b, p) IN IF r.err # "" THEN r ELSE DecFields(f, omit, b, r.p, i + 1, Append(acc, r.v))
Dec(s, b, p) ==
  CASE s.k = "int" -> IF Left(b, p) < s.n THEN [err |-> "underflow"] ELSE [err |-> "", v |-> SubSeq(b, p, p + s.n - 1), p |-> p + s.n]
    [] s.k = "barray" -> IF Left(b, p) < s.len THEN [err |-> "underflow"] ELSE [err |-> "", v |-> SubSeq(b, p, p + s.len - 1), p |-> p + s.len]
    [] s.k = "array" -> DecSeq(s.e, b, p, s.len, << >>)
    [] s.k \in {"bslice", "slice"} ->
         IF Left(b, p) < 4 THEN [err |-> "underflow"]
         ELSE LET L == LenAt(b, p) q == p + 4 IN
              IF L < 0 \/ L > Left(b, q) THEN [err |-> "underflow"]
              ELSE IF s.max > 0 /\ L > s.max THEN [err |-> "maxlen"]
              ELSE IF s.k = "bslice" THEN [err |-> "", v |-> SubSeq(b, q, q + L - 1), p |-> q + L]
              ELSE DecSeq(s.e, b, q, L, << >>)
    [] s.k = "struct" -> DecFields(s.f, s.omit, b, p, 1, << >>)

Decode(s, b) == Dec(s, b, 1)
\* exact decoding: everything must be consumed
DecodeExact(s, b) == LET r == Decode(s, b) IN IF r.err # "" THEN r.err ELSE IF r.p # Len(b) + 1 THEN "remaining" ELSE ""

\* ---- verdicts on observed calls ----
\* an encoding by one implementation: the bytes (or the refusal of a value beyond its maximum lengths, generated only) and the size
EncVerdict(s, v, err, bytes, size, mayRefuse) ==
  IF err # "" THEN (IF mayRefuse /\ err = "maxlen" /\ ~WithinMax(s, v) THEN "ok" ELSE "encode-error-" \o err)
  ELSE IF mayRefuse /\ ~WithinMax(s, v) THEN "encoded-beyond-maxlen"
  ELSE IF bytes # Enc(s, v) THEN "encoding-differs-from-format"
  ELSE IF size # Len(bytes) THEN "size-differs" ELSE "ok"
\* a decoding by one implementation: d = [err, n, value, reenc, xerr]
DecVerdict(s, b, d) ==
  LET r == Decode(s, b) IN
  IF d.err # r.err THEN "decode-outcome:" \o (IF d.err = "" THEN "accepted" ELSE d.err) \o "-expected-" \o (IF r.err = "" THEN "accepted" ELSE r.err)
  ELSE IF d.xerr # DecodeExact(s, b) THEN "exact-decode-outcome"
  ELSE IF r.err # "" THEN "ok"
  ELSE IF d.value # r.v THEN "decoded-value"
  ELSE IF d.n # r.p - 1 THEN "bytes-consumed"
  ELSE IF d.reenc # SubSeq(b, 1, r.p - 1) THEN "not-canonical" ELSE "ok"
=============================================================================
