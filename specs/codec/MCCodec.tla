------------------------------- MODULE MCCodec -------------------------------
(***************************************************************************)
(* Codec.tla checked on its own: for a schema that uses every construct    *)
(* (ints, byte array, byte slice with a maximum, slice of structs with a   *)
(* maximum, omitted last field) and EVERY byte string of length <= 2*MaxLen *)
(* over a small byte alphabet: decoding either fails with a definite kind  *)
(* or yields a value within the maxima; encoding that value and decoding   *)
(* again gives the value back; and the encoding equals the consumed bytes  *)
(* except for the one shape the format cannot make canonical (an explicit  *)
(* zero length for the omitted last field).                                *)
(***************************************************************************)
EXTENDS Codec, TLC
CONSTANTS MaxLen
Bytes == {0, 1, 2, 128}
S1 == [k |-> "struct", omit |-> TRUE, f |-> <<
        [k |-> "barray", len |-> 1],
        [k |-> "slice", max |-> 2, e |-> [k |-> "struct", omit |-> FALSE, f |-> <<[k |-> "int", n |-> 1], [k |-> "bslice", max |-> 1]>>]],
        [k |-> "bslice", max |-> 0]>>]
VARIABLES b1, b2
b == b1 \o b2
Strings == UNION {[1..n -> Bytes] : n \in 0..MaxLen}
Init == b1 \in Strings /\ b2 \in Strings /\ (Len(b1) < MaxLen => Len(b2) = 0)     \* every string of length <= 2*MaxLen once
Next == UNCHANGED <<b1, b2>>
ExplicitEmptyTail(r) == Len(r.v[3]) = 0 /\ r.p >= 5 /\ SubSeq(b, r.p - 4, r.p - 1) = <<0, 0, 0, 0>>
OK == LET r == Decode(S1, b) IN
      IF r.err # "" THEN r.err \in {"underflow", "maxlen"} /\ DecodeExact(S1, b) = r.err
      ELSE /\ WithinMax(S1, r.v)
           /\ Decode(S1, Enc(S1, r.v)).err = "" /\ Decode(S1, Enc(S1, r.v)).v = r.v
           /\ DecodeExact(S1, Enc(S1, r.v)) = ""
           /\ (Enc(S1, r.v) = SubSeq(b, 1, r.p - 1) \/ (ExplicitEmptyTail(r) /\ Enc(S1, r.v) = SubSeq(b, 1, r.p - 5)))
           /\ DecVerdict(S1, b, [err |-> "", xerr |-> DecodeExact(S1, b), value |-> r.v, n |-> r.p - 1, reenc |-> SubSeq(b, 1, r.p - 1)]) = "ok"
=============================================================================
