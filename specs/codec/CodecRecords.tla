----------------------------- MODULE CodecRecords -----------------------------
(***************************************************************************)
(* Record oracle (C21): every line of recs.ndjson is one value encoded     *)
(* ("enc") or one byte string decoded ("dec") by BOTH the generated codec  *)
(* of a type and the reflection encoder (overlay tests in the packages     *)
(* that own the codecs); schemas.ndjson holds the schema of every type,    *)
(* derived from the Go type by reflection.  TLC evaluates Codec.tla on     *)
(* each record for each implementation: agreement of both with the format  *)
(* is their agreement with each other.                                     *)
(***************************************************************************)
EXTENDS Codec, Json, TLC

Recs == ndJsonDeserialize("recs.ndjson")
Schemas == ndJsonDeserialize("schemas.ndjson")
SchemaOf(t) == Schemas[CHOOSE i \in DOMAIN Schemas : Schemas[i].type = t].schema
VARIABLE l
Init == l \in 1..Len(Recs)
Next == UNCHANGED l

Tag(p, x) == IF x = "ok" THEN "ok" ELSE p \o x
Reasons(r) ==
  LET s == SchemaOf(r.type) IN
  SelectSeq(
    IF r.fn = "enc" THEN <<
         IF r.panic # "" THEN "panic" ELSE "ok",
         Tag("gen:", EncVerdict(s, r.value, r.genErr, r.gen, r.genSize, TRUE)),
         Tag("ref:", EncVerdict(s, r.value, "", r.ref, r.refSize, FALSE)) >>
    ELSE <<
         IF r.gen.panic # "" THEN "gen:panic" ELSE Tag("gen:", DecVerdict(s, r.bytes, r.gen)),
         IF r.ref.panic # "" THEN "ref:panic" ELSE Tag("ref:", DecVerdict(s, r.bytes, r.ref)) >>,
    LAMBDA x : x # "ok")
Conforms == LET x == Reasons(Recs[l]) IN x = << >> \/ \A i \in DOMAIN x : PrintT(<<"MISMATCH", "rec", l, Recs[l].type, x[i]>>)
=============================================================================
