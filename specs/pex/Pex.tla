---------------------------------- MODULE Pex ----------------------------------
(***************************************************************************)
(* The peer list (C26).  peers: a set of [addr, trusted, ago, retry] with  *)
(* at most one record per addr; ago = seconds since the peer was last seen.*)
(* An address argument is described by what it is: class of the IP part    *)
(* ("unicast4": a global unicast IPv4 address, "loopback", or anything     *)
(* else: unspecified, multicast, broadcast, link-local, IPv6, not an IP,   *)
(* wrong number of parts), port (an integer, -1 when not a 16-bit number), *)
(* clean (the text with whitespace removed: the key it is stored under).   *)
(* Functional core: one operator per operation, giving the set of allowed  *)
(* [res, peers'] outcomes (bulk addition and eviction leave a choice).     *)
(***************************************************************************)
EXTENDS Integers, FiniteSets, Sequences

Day == 86400
Addrs(ps) == { p.addr : p \in ps }
Get(ps, a) == CHOOSE p \in ps : p.addr = a
Valid(x, allowLocal) == (x.class = "unicast4" \/ (x.class = "loopback" /\ allowLocal)) /\ x.port >= 1024 /\ x.port <= 65535
Fresh(a) == [addr |-> a, trusted |-> FALSE, ago |-> 0, retry |-> 0]
Seen(ps, a) == { IF p.addr = a THEN [p EXCEPT !.ago = 0] ELSE p : p \in ps }
Full(ps, max) == max > 0 /\ Cardinality(ps) >= max

\* candidates for eviction: an untrusted peer that nobody has seen for longer than any other untrusted peer
Oldest(ps) == { p \in ps : ~p.trusted /\ \A q \in ps : ~q.trusted => q.ago <= p.ago }

AddPeer(ps, x, max, allowLocal) ==
  IF ~Valid(x, allowLocal) THEN {[res |-> "invalid", peers |-> ps]}
  ELSE IF x.clean \in Addrs(ps) THEN {[res |-> "ok", peers |-> Seen(ps, x.clean)]}
  ELSE IF ~Full(ps, max) THEN {[res |-> "ok", peers |-> ps \cup {Fresh(x.clean)}]}
  ELSE IF Oldest(ps) = {} \/ \A o \in Oldest(ps) : o.ago < Day THEN {[res |-> "full", peers |-> ps]}   \* trusted peers are never evicted
  ELSE { [res |-> "ok", peers |-> (ps \ {o}) \cup {Fresh(x.clean)}] : o \in { q \in Oldest(ps) : q.ago >= Day } }

\* bulk addition: only valid addresses, never beyond max, nothing removed; which of them are taken is left open
AddPeersOK(ps, xs, max, allowLocal, ps2) ==
  LET valid == { xs[i].clean : i \in { j \in DOMAIN xs : Valid(xs[j], allowLocal) } } IN
  /\ Addrs(ps) \subseteq Addrs(ps2)
  /\ Addrs(ps2) \ Addrs(ps) \subseteq valid
  /\ (Full(ps, max) => Addrs(ps2) = Addrs(ps))
  /\ (max > 0 /\ ~Full(ps, max) => Cardinality(ps2) <= max)
  /\ \A p \in ps2 : IF p.addr \in Addrs(ps) THEN p.trusted = Get(ps, p.addr).trusted /\ p.retry = Get(ps, p.addr).retry ELSE p = Fresh(p.addr)

Remove(ps, a) == { p \in ps : p.addr # a }
SetTrusted(ps, a) == { IF p.addr = a THEN [p EXCEPT !.trusted = TRUE] ELSE p : p \in ps }
\* a connection attempt (failed or successful) also counts as having seen the peer
IncRetry(ps, a) == { IF p.addr = a THEN [p EXCEPT !.retry = @ + 1, !.ago = 0] ELSE p : p \in ps }
ResetRetry(ps, a) == { IF p.addr = a THEN [p EXCEPT !.retry = 0, !.ago = 0] ELSE p : p \in ps }
\* the periodic clean-up: untrusted peers not seen for longer than the expiration go, trusted ones stay
ClearOld(ps, expiration) == { p \in ps : p.trusted \/ p.ago <= expiration }

\* ---- C26 ----
OnlyValidKeys(ps, validKeys) == Addrs(ps) \subseteq validKeys
=============================================================================
