------------------------------ MODULE PexRecords ------------------------------
(***************************************************************************)
(* Record oracle: every line of recs.ndjson is one operation on a REAL     *)
(* pex.Pex (overlay test in package pex): pre list, operation, arguments,  *)
(* result, post list.  Each record is one initial state.                   *)
(***************************************************************************)
EXTENDS Pex, Json, TLC

Recs == ndJsonDeserialize("recs.ndjson")
VARIABLE l
Init == l \in 1..Len(Recs)
Next == UNCHANGED l

PS(q) == { [addr |-> q[i].addr, trusted |-> q[i].trusted, ago |-> q[i].ago, retry |-> q[i].retry] : i \in DOMAIN q }
Arg(a) == [clean |-> a.clean, class |-> a.class, port |-> a.port]

Reason(r) ==
  LET pre == PS(r.pre) post == PS(r.post) a == r.args[1].raw IN
  IF Cardinality(Addrs(post)) # Len(r.post) THEN "duplicate-address"
  ELSE CASE r.op = "add" ->
         LET x == IF r.args[1].class = "known" THEN [clean |-> r.args[1].clean, class |-> "unicast4", port |-> 6000] ELSE Arg(r.args[1])
             outs == AddPeer(pre, x, r.max, r.allowLocal)
         IN IF [res |-> r.res, peers |-> post] \in outs THEN "ok"
            ELSE IF r.res \notin { o.res : o \in outs } THEN
                   (IF r.res = "ok" /\ ~Valid(x, r.allowLocal) THEN "invalid-address-admitted" ELSE "add-result")
            ELSE IF \E p \in pre : p.trusted /\ p.addr \notin Addrs(post) THEN "trusted-peer-evicted"
            ELSE IF r.max > 0 /\ Cardinality(pre) <= r.max /\ Cardinality(post) > r.max THEN "add-beyond-max"
            ELSE "add-post-state"
    [] r.op = "bulk" ->
         IF AddPeersOK(pre, [i \in DOMAIN r.args |-> Arg(r.args[i])], r.max, r.allowLocal, post) THEN "ok"
         ELSE IF r.max > 0 /\ Cardinality(pre) <= r.max /\ Cardinality(post) > r.max THEN "bulk-beyond-max"
         ELSE IF \E p \in pre : p.addr \notin Addrs(post) THEN "bulk-removed-a-peer"
         ELSE "bulk-post-state"
    [] r.op = "remove" -> IF post = Remove(pre, a) THEN "ok" ELSE "remove"
    [] r.op = "trust" -> IF post = SetTrusted(pre, r.args[1].clean) THEN "ok" ELSE "trust"
    [] r.op = "retry" -> IF post = IncRetry(pre, a) THEN "ok" ELSE "retry"
    [] r.op = "resetretry" -> IF post = ResetRetry(pre, a) THEN "ok" ELSE "resetretry"
    [] r.op = "age" -> IF post = { IF p.addr = a THEN [p EXCEPT !.ago = r.args[1].port] ELSE p : p \in pre } THEN "ok" ELSE "harness-ageing"
    [] r.op = "clear" -> IF post = ClearOld(pre, r.expiration) THEN "ok"
                         ELSE IF \E p \in pre : p.trusted /\ p.addr \notin Addrs(post) THEN "trusted-peer-dropped-as-stale" ELSE "clear-old"
    \* a restart keeps the (valid) peers, bounded by max; trust is re-derived from the configuration, retry counters start again;
    \* peers that failed more than MaxPeerRetryTimes (10) connection attempts in a row are not written to the peers file
    \* (peerlist.save, by design - the trusted ones come back from the configured default connections)
    [] r.op = "reload" -> IF r.res = "ok" /\ Addrs(post) \subseteq Addrs(pre)
                             /\ (r.max > 0 /\ Cardinality(pre) <= r.max => Addrs(post) = { p.addr : p \in { q \in pre : q.retry <= 10 } })
                             /\ \A p \in post : ~p.trusted /\ p.retry = 0 /\ p.ago = Get(pre, p.addr).ago THEN "ok" ELSE "reload"
    \* bookkeeping about one listed peer (it was just heard from: its age starts again); nobody is added or removed by it
    [] r.op \in {"hasport", "useragent"} ->
         LET c == r.args[1].clean
             hit == c \in Addrs(pre) /\ ~(r.op = "useragent" /\ r.n = 1)
         IN IF Addrs(post) # Addrs(pre) THEN "bookkeeping-changed-membership"
            ELSE IF (r.res = "ok") # hit THEN "bookkeeping-result"
            ELSE IF post # { IF hit /\ p.addr = c THEN [p EXCEPT !.ago = 0] ELSE p : p \in pre } THEN "bookkeeping-post-state" ELSE "ok"
    [] r.op = "resetall" -> IF post = { [p EXCEPT !.retry = 0] : p \in pre } THEN "ok" ELSE "resetall"
    [] r.op = "isfull" -> IF post # pre THEN "query-changed-the-list"
                          ELSE IF r.res # (IF r.max > 0 /\ Cardinality(pre) >= r.max THEN "true" ELSE "false") THEN "is-full"
                          ELSE IF r.n # Cardinality({ p \in pre : p.trusted }) THEN "all-trusted" ELSE "ok"
    [] OTHER -> "unknown-op"

Conforms == LET x == Reason(Recs[l]) IN x = "ok" \/ PrintT(<<"MISMATCH", "rec", l, Recs[l].op, x>>)
=============================================================================
