--------------------------- MODULE PeerWireRecords ---------------------------
(***************************************************************************)
(* Record oracle (C26 over the wire): every line of recs.ndjson is one     *)
(* GETP or GIVP message sent to a REAL node over TCP (harness/syncrec,     *)
(* mode peers): the node's peer list before, the addresses given (with the *)
(* class they were built from), the node's replies before the PONG         *)
(* barrier, the list after.  Only valid addresses become keys, a bulk      *)
(* addition never pushes the list beyond Max (Pex.tla's Valid / bound);    *)
(* the reply clauses (a reply lists only known peers - in fact only those  *)
(* whose listening port was confirmed by a connection -, at most           *)
(* ReplyCount, none twice) belong to no listed property (owner X: notes).  *)
(***************************************************************************)
EXTENDS Pex, Json, TLC

Recs == ndJsonDeserialize("recs.ndjson")
VARIABLE l
Init == l \in 1..Len(Recs)
Next == UNCHANGED l

Set(s) == {s[i] : i \in DOMAIN s}
Reasons(r) ==
  LET pre == Set(r.pre) post == Set(r.post)
      valid == {r.items[i].clean : i \in {j \in DOMAIN r.items : Valid([clean |-> r.items[j].clean, class |-> r.items[j].class, port |-> r.items[j].port], r.allowLocal)}}
      replies == {i \in DOMAIN r.sent : r.sent[i].id = "GIVP"}
  IN SelectSeq(<<
       IF r.msg = "GIVP" /\ ~((post \ pre) \subseteq valid) THEN "C26:invalid-address-admitted-over-the-wire" ELSE "ok",
       IF r.msg = "GIVP" /\ r.max > 0 /\ Cardinality(pre) <= r.max /\ Cardinality(post) > r.max THEN "C26:peer-list-beyond-max-over-the-wire" ELSE "ok",
       IF r.msg = "GIVP" /\ ~(pre \subseteq post) THEN "C26:peer-dropped-by-an-addition" ELSE "ok",
       \* the room left is shared by all valid addresses given, known ones included (they are capped before known ones are skipped)
       IF r.msg = "GIVP" /\ (r.max = 0 \/ Cardinality(pre) + Cardinality(valid) <= r.max) /\ post # pre \cup valid THEN "X:valid-address-not-added" ELSE "ok",
       IF r.msg = "GETP" /\ post # pre THEN "X:request-changed-the-list" ELSE "ok",
       IF r.msg = "GETP" /\ \E i \in replies : ~(Set(r.sent[i].peers) \subseteq pre) \/ Len(r.sent[i].peers) > r.replyCount
                                               \/ Cardinality(Set(r.sent[i].peers)) # Len(r.sent[i].peers) THEN "X:reply-to-a-peer-request" ELSE "ok",
       IF r.closed THEN "X:connection-closed-on-a-well-formed-message" ELSE "ok"
     >>, LAMBDA x : x # "ok")
Conforms == LET x == Reasons(Recs[l]) IN x = << >> \/ \A i \in DOMAIN x : PrintT(<<"MISMATCH", "rec", l, Recs[l].msg, x[i]>>)
=============================================================================
