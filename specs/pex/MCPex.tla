--------------------------------- MODULE MCPex ---------------------------------
(***************************************************************************)
(* The peer list on a small universe: four valid addresses (one of them a  *)
(* loopback one), three invalid ones, Max = 2, peers ageing in three steps.*)
(* Every interleaving of AddPeer, AddPeers, remove, trust, retry, ageing   *)
(* and the clean-up.  C26: only valid addresses are ever keys; a bulk      *)
(* addition never grows the list beyond Max; a trusted peer leaves the     *)
(* list only by an explicit removal.                                       *)
(***************************************************************************)
EXTENDS Pex, TLC
CONSTANTS Max, AllowLocal
VARIABLES ps, lastOp
vars == <<ps, lastOp>>

Expiration == 7 * Day
X(c, cl, port) == [clean |-> c, class |-> cl, port |-> port]
Args == { X("a", "unicast4", 6000), X("b", "unicast4", 1024), X("c", "unicast4", 65535), X("l", "loopback", 6000),
          X("p0", "unicast4", 1023), X("p9", "unicast4", 65536), X("m", "multicast", 6000), X("g", "garbage", -1) }
ValidKeys == { x.clean : x \in { y \in Args : Valid(y, AllowLocal) } }
Ages == {0, Day + 10, Expiration + 10}

Init == ps = {} /\ lastOp = "init"
Next ==
  \/ \E x \in Args : \E o \in AddPeer(ps, x, Max, AllowLocal) : ps' = o.peers /\ lastOp' = "add"
  \/ \E x \in Args, y \in Args : \E ps2 \in SUBSET { Fresh(z.clean) : z \in {x, y} } :
        LET n == ps \cup { q \in ps2 : q.addr \notin Addrs(ps) } IN
        AddPeersOK(ps, <<x, y>>, Max, AllowLocal, n) /\ ps' = n /\ lastOp' = "bulk"
  \/ \E p \in ps : ps' = Remove(ps, p.addr) /\ lastOp' = "remove"
  \/ \E p \in ps : ps' = SetTrusted(ps, p.addr) /\ lastOp' = "trust"
  \/ \E p \in ps : p.retry < 1 /\ ps' = IncRetry(ps, p.addr) /\ lastOp' = "retry"
  \/ \E p \in ps, a \in Ages : a > p.ago /\ ps' = { IF q = p THEN [q EXCEPT !.ago = a] ELSE q : q \in ps } /\ lastOp' = "age"
  \/ ps' = ClearOld(ps, Expiration) /\ lastOp' = "clear"
Spec == Init /\ [][Next]_vars

OnlyValid == OnlyValidKeys(ps, ValidKeys)
OneRecordPerAddr == Cardinality(Addrs(ps)) = Cardinality(ps)
BulkNeverExceedsMax == [][lastOp' = "bulk" /\ Cardinality(ps) <= Max => Cardinality(ps') <= Max]_vars
AddNeverExceedsMax == [][lastOp' = "add" /\ Cardinality(ps) <= Max => Cardinality(ps') <= Max]_vars
TrustedStay == [][lastOp' # "remove" => \A p \in ps : p.trusted => p.addr \in Addrs(ps')]_vars
=============================================================================
