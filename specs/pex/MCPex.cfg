SPECIFICATION Spec
CONSTANTS Max = 2
  AllowLocal = TRUE
INVARIANTS OnlyValid OneRecordPerAddr
PROPERTIES BulkNeverExceedsMax AddNeverExceedsMax TrustedStay
CHECK_DEADLOCK FALSE
