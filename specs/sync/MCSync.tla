-------------------------------- MODULE MCSync --------------------------------
(***************************************************************************)
(* The sync protocol on a small universe: N publisher blocks, a network    *)
(* that loses, duplicates and reorders messages, an adversary that injects *)
(* representative hostile payloads, a follower that asks periodically and  *)
(* after every progress, a peer that answers a request with the blocks     *)
(* above the asked head.                                                   *)
(* Safety: the follower's head counts only publisher blocks taken in       *)
(* order (by construction of Process), never exceeds what was ever given,  *)
(* and every progress triggers a request above the new head.               *)
(* Liveness: with a fair periodic request and fair delivery of the answer  *)
(* to the CURRENT head, the follower reaches the publisher's head, however *)
(* much is lost, duplicated or reordered.                                  *)
(***************************************************************************)
EXTENDS Sync, TLC
CONSTANTS N, K          \* publisher blocks; blocks per answer

VARIABLES head,      \* follower head (0 = genesis)
          net,       \* set of messages in flight: [t |-> "GIVB", items] or [t |-> "GETB", n]
          given,     \* publisher blocks (sequence numbers) ever put on the network, by a peer or by the adversary
          lastReq    \* the last request the follower sent after progress (0 if none yet)
vars == <<head, net, given, lastReq>>

Pub(a, b) == [i \in 1..(b - a + 1) |-> [seq |-> a + i - 1, kind |-> "pub"]]
Hostile == { <<[seq |-> 2, kind |-> "pub"], [seq |-> 1, kind |-> "pub"]>>,                                  \* out of order
             <<[seq |-> 1, kind |-> "pub"], [seq |-> 1, kind |-> "pub"], [seq |-> 2, kind |-> "pub"]>>,      \* duplicate inside
             <<[seq |-> 1, kind |-> "forged"]>>, <<[seq |-> 1, kind |-> "pub"], [seq |-> 2, kind |-> "forged"], [seq |-> 3, kind |-> "pub"]>>,
             <<[seq |-> N, kind |-> "pub"]>>,                                                                \* from the future
             <<[seq |-> 2, kind |-> "alien"]>> }

PubSeqs(items) == { items[i].seq : i \in { j \in DOMAIN items : items[j].kind = "pub" } }
Init == head = 0 /\ net = {} /\ given = {} /\ lastReq = 0

Ask == /\ net' = net \cup {[t |-> "GETB", n |-> head]}                  \* periodic request
       /\ UNCHANGED <<head, given, lastReq>>
Answer == \E m \in net : /\ m.t = "GETB" /\ m.n < N
                         /\ LET hi == IF m.n + K < N THEN m.n + K ELSE N IN
                            /\ net' = net \cup {[t |-> "GIVB", items |-> Pub(m.n + 1, hi)]}
                            /\ given' = given \cup ((m.n + 1)..hi)
                         /\ UNCHANGED <<head, lastReq>>
Inject == \E p \in Hostile : net' = net \cup {[t |-> "GIVB", items |-> p]} /\ given' = given \cup PubSeqs(p) /\ UNCHANGED <<head, lastReq>>
Lose == \E m \in net : net' = net \ {m} /\ UNCHANGED <<head, given, lastReq>>
Receive == \E m \in net : /\ m.t = "GIVB"
                          /\ head' = Process(head, m.items)
                          /\ LET r == Replies(head, m.items) IN
                             /\ net' = IF r = << >> THEN net ELSE net \cup {[t |-> "GETB", n |-> r[2].n]}   \* duplication: the message stays
                             /\ lastReq' = IF r = << >> THEN lastReq ELSE r[2].n
                          /\ UNCHANGED given
ReceiveAnswerForHead == \E m \in net : m.t = "GIVB" /\ Len(m.items) > 0 /\ m.items[1] = [seq |-> head + 1, kind |-> "pub"]
                                       /\ head' = Process(head, m.items) /\ head' > head
                                       /\ net' = net \cup {[t |-> "GETB", n |-> head']} /\ lastReq' = head' /\ UNCHANGED given
AnswerHead == /\ [t |-> "GETB", n |-> head] \in net /\ head < N
              /\ LET hi == IF head + K < N THEN head + K ELSE N IN
                 /\ net' = net \cup {[t |-> "GIVB", items |-> Pub(head + 1, hi)]} /\ given' = given \cup ((head + 1)..hi)
              /\ UNCHANGED <<head, lastReq>>

Next == Ask \/ Answer \/ Inject \/ Lose \/ Receive
Spec == Init /\ [][Next]_vars /\ WF_vars(Ask) /\ SF_vars(AnswerHead) /\ SF_vars(ReceiveAnswerForHead)

TypeOK == head \in 0..N
\* the follower holds only a gap-free prefix of what it was given
HeadNeverAboveGiven == \A k \in 1..head : k \in given
ProgressRequestsAboveHead == [][head' > head => lastReq' = head']_vars
HeadOnlyGrows == [][head' >= head]_vars
Converges == <>[](head = N)
=============================================================================
