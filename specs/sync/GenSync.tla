-------------------------------- MODULE GenSync --------------------------------
(***************************************************************************)
(* Behaviour generator (generate -> replay) for the sync protocol: a       *)
(* behaviour is a sequence of GIVB payloads delivered to the follower;     *)
(* payloads are drawn from: runs of publisher blocks from any start,       *)
(* permutations, duplicates, and runs with one forged / not-extending      *)
(* block.  The specification's own head after each payload is carried so   *)
(* that interesting behaviours (progress in several steps) are produced;   *)
(* the replayer only needs the payloads.  Used with tlc -simulate.         *)
(***************************************************************************)
EXTENDS Sync, Json, TLC
CONSTANTS N, Depth
VARIABLES head, hist, done
gvars == <<head, hist, done>>

Kinds == {"pub", "forged", "alien", "rebodied"}
Run(a, b) == [i \in 1..(b - a + 1) |-> [seq |-> a + i - 1, kind |-> "pub"]]
Payloads ==
  ({ Run(a, b) : a \in 1..N, b \in 1..N } \ {<< >>})
  \cup { <<[seq |-> a, kind |-> "pub"], [seq |-> b, kind |-> "pub"]>> : a \in 1..N, b \in 1..N }
  \cup { <<[seq |-> a, kind |-> "pub"], [seq |-> b, kind |-> k], [seq |-> c, kind |-> "pub"]>> : a \in 1..N, b \in 1..N, c \in 1..N, k \in Kinds }
  \cup { <<[seq |-> a, kind |-> k]>> : a \in 1..N, k \in Kinds }

GenInit == head = 0 /\ hist = << >> /\ done = FALSE
GenNext ==
  \/ /\ Len(hist) < Depth /\ ~done
     /\ \E p \in { q \in Payloads : Len(q) > 0 } :
          /\ head' = Process(head, p)
          /\ hist' = Append(hist, p)
     /\ UNCHANGED done
  \/ /\ Len(hist) = Depth /\ ~done
     /\ PrintT("GEN " \o ToJson(hist))
     /\ done' = TRUE /\ UNCHANGED <<head, hist>>
=============================================================================
