------------------------------- MODULE MCGossip -------------------------------
(***************************************************************************)
(* Two nodes that run Gossip.tla's handlers over reliable FIFO channels;   *)
(* users hand transactions to either node (which announces them).          *)
(* Safety: a pool never holds a hard-invalid transaction; a node is only   *)
(* ever given what it asked for or a user handed it.  Liveness: the        *)
(* network falls silent and then both pools hold the same transactions -   *)
(* every non-hard transaction any user submitted (convergence), although   *)
(* soft transactions are re-announced (the named deviation does not loop). *)
(***************************************************************************)
EXTENDS Gossip, TLC
CONSTANTS Txns, ClassOf         \* ClassOf: [Txns -> {"valid", "soft", "hard"}]
MCClass == [t \in Txns |-> IF t \in {"t1", "t4"} THEN "valid" ELSE IF t = "t2" THEN "soft" ELSE "hard"]
Nodes == {"a", "b"}
Other(n) == IF n = "a" THEN "b" ELSE "a"
VARIABLES pool, chan, submitted     \* chan[n]: messages on their way TO n
vars == <<pool, chan, submitted>>
Item(t) == [h |-> t, class |-> ClassOf[t]]
Init == pool = [n \in Nodes |-> {}] /\ chan = [n \in Nodes |-> << >>] /\ submitted = {}
\* a user injects t at node n (API): pooled unless hard, announced to the peer
Submit(n, t) == /\ t \notin submitted /\ submitted' = submitted \cup {t}
                /\ IF ClassOf[t] = "hard" THEN UNCHANGED <<pool, chan>>
                   ELSE /\ pool' = [pool EXCEPT ![n] = @ \cup {t}]
                        /\ chan' = [chan EXCEPT ![Other(n)] = Append(@, [id |-> "ANNT", hashes |-> <<t>>])]
Deliver(n) == /\ Len(chan[n]) > 0
              /\ LET m == Head(chan[n])
                     items == [i \in DOMAIN m.hashes |-> Item(m.hashes[i])]
                     r == Handle(pool[n], m.id, items)
                 IN /\ pool' = [pool EXCEPT ![n] = r.pool]
                    /\ chan' = [chan EXCEPT ![n] = Tail(@), ![Other(n)] = @ \o r.sent]
              /\ UNCHANGED submitted
Next == (\E n \in Nodes, t \in Txns : Submit(n, t)) \/ \E n \in Nodes : Deliver(n)
Spec == Init /\ [][Next]_vars /\ WF_vars(\E n \in Nodes : Deliver(n))

NoHardPooled == \A n \in Nodes : \A t \in pool[n] : ClassOf[t] # "hard"
OnlySubmitted == \A n \in Nodes : pool[n] \subseteq submitted
Quiet == \A n \in Nodes : chan[n] = << >>
Converges == <>[](Quiet /\ pool["a"] = pool["b"] /\ pool["a"] = {t \in submitted : ClassOf[t] # "hard"})
=============================================================================
