SPECIFICATION Spec
CONSTANTS Txns = {"t1", "t2", "t3", "t4"}
  ClassOf <- MCClass
INVARIANTS NoHardPooled OnlySubmitted
PROPERTIES Converges
CHECK_DEADLOCK FALSE
