SPECIFICATION Spec
CONSTANTS N = 3
  K = 2
INVARIANTS TypeOK HeadNeverAboveGiven
PROPERTIES ProgressRequestsAboveHead HeadOnlyGrows Converges
CHECK_DEADLOCK FALSE
