INIT GenInit
NEXT GenNext
CONSTANTS
  N = 4
  Depth = 5
CHECK_DEADLOCK FALSE
