------------------------------ MODULE SyncRecords ------------------------------
(***************************************************************************)
(* Record oracle for the real node driven over TCP (harness/syncrec): one  *)
(* record per GIVB message / per introduction attempt / per first message  *)
(* of a fresh connection / per convergence run.                            *)
(***************************************************************************)
EXTENDS Sync, Json, TLC

Recs == ndJsonDeserialize("recs.ndjson")
VARIABLE l
Init == l \in 1..Len(Recs)
Next == UNCHANGED l

Ids(sent) == { sent[i].id : i \in DOMAIN sent }
Proj(sent, ids) == LET q == SelectSeq(sent, LAMBDA m : m.id \in ids) IN [i \in DOMAIN q |-> [id |-> q[i].id, n |-> q[i].n]]
ItemsOf(r) == [i \in DOMAIN r.items |-> [seq |-> r.items[i].seq, kind |-> r.items[i].kind]]

Reason(r) ==
  CASE r.fn = "givb" ->
         IF r.post # Process(r.pre, ItemsOf(r)) THEN "C33:head-after-message"
         ELSE IF ~r.chainIsPublisherPrefix THEN "C33:chain-not-publisher-prefix"
         ELSE IF Proj(r.sent, {"ANNB", "GETB"}) # Replies(r.pre, ItemsOf(r)) THEN "C33:request-after-progress"
         ELSE IF r.closed THEN "C33:disconnected-a-peer-for-blocks"
         ELSE "ok"
    [] r.fn = "introduced" -> IF "GETB" \in Ids(r.sent) THEN "ok" ELSE "C33:no-request-after-introduction"
    [] r.fn = "converge" -> IF r.head = r.n /\ r.chainIsPublisherPrefix THEN "ok" ELSE "C33:did-not-converge"
    [] r.fn = "intro" ->
         LET v == IntroVerdict(r) introduced == "GETB" \in Ids(r.sent) IN
         IF introduced /\ v # "introduced" THEN "C25:introduced-although-" \o v
         ELSE IF ~introduced /\ v # "introduced" /\ ~r.closed THEN "C25:not-disconnected-after-" \o v
         ELSE "ok"
    [] r.fn = "first" ->
         IF ~FirstMessageTolerated(r.id) /\ (r.thenIntroduced \/ ~r.closed) THEN "C25:protocol-reached-before-introduction"
         ELSE IF r.id = "GIVP" /\ ~r.thenIntroduced THEN "C25:peer-list-before-introduction-disconnected"
         ELSE "ok"
    [] OTHER -> "unknown-record"

Conforms == LET x == Reason(Recs[l]) IN x = "ok" \/ PrintT(<<"MISMATCH", "rec", l, Recs[l].fn, x>>)
=============================================================================
