-------------------------------- MODULE Gossip --------------------------------
(***************************************************************************)
(* The transaction gossip sub-protocol of the daemon (ANNT announce hashes, *)
(* GETT request, GIVT give), as src/daemon/messages.go handles it.  This   *)
(* is not one of the listed properties: the specification grows to the     *)
(* system's behaviour.  A transaction has a class: "valid", "soft" (only   *)
(* soft constraints violated: pooled and flagged) or "hard" (never pooled).*)
(*   ANNT(hs)  -> GETT(the hashes of hs not in the pool, order and         *)
(*                repetitions kept), nothing when all are known            *)
(*   GETT(hs)  -> GIVT(the pooled transactions among hs, order kept)       *)
(*   GIVT(ts)  -> each in turn: hard: dropped; known and not soft: skipped; *)
(*                otherwise pooled (if new) and announced; one ANNT to     *)
(*                every connection, the giver included, when any           *)
(* Named deviation of the implementation (kept, harmless): a transaction   *)
(* that is already pooled and violates soft constraints is announced again *)
(* every time it is given (the soft-violation branch comes before the      *)
(* known branch in GiveTxnsMessage.process).                               *)
(***************************************************************************)
EXTENDS Integers, Sequences, FiniteSets

Sel(s, P(_)) == SelectSeq(s, P)
AnnReply(pool, hs) == LET u == SelectSeq(hs, LAMBDA h : h \notin pool) IN IF Len(u) = 0 THEN << >> ELSE <<[id |-> "GETT", hashes |-> u]>>
GetReply(pool, hs) == LET k == SelectSeq(hs, LAMBDA h : h \in pool) IN IF Len(k) = 0 THEN << >> ELSE <<[id |-> "GIVT", hashes |-> k]>>
\* ts: sequence of [h, class]; result [pool, ann]
RECURSIVE GiveFrom(_, _, _, _)
GiveFrom(ts, i, pool, ann) ==
  IF i > Len(ts) THEN [pool |-> pool, ann |-> ann]
  ELSE LET t == ts[i] IN
       IF t.class = "hard" THEN GiveFrom(ts, i + 1, pool, ann)
       ELSE IF t.h \in pool /\ t.class # "soft" THEN GiveFrom(ts, i + 1, pool, ann)
       ELSE GiveFrom(ts, i + 1, pool \cup {t.h}, Append(ann, t.h))
Give(pool, ts) == GiveFrom(ts, 1, pool, << >>)
GiveReply(pool, ts) == LET g == Give(pool, ts) IN IF Len(g.ann) = 0 THEN << >> ELSE <<[id |-> "ANNT", hashes |-> g.ann]>>

\* what one message does to a node: [pool, sent]
Handle(pool, kind, items) ==
  LET hs == [i \in DOMAIN items |-> items[i].h] IN
  CASE kind = "ANNT" -> [pool |-> pool, sent |-> AnnReply(pool, hs)]
    [] kind = "GETT" -> [pool |-> pool, sent |-> GetReply(pool, hs)]
    [] kind = "GIVT" -> [pool |-> Give(pool, items).pool, sent |-> GiveReply(pool, items)]
=============================================================================
