--------------------------------- MODULE Sync ---------------------------------
(***************************************************************************)
(* A follower node syncing the publisher's chain from peers (C33), and the *)
(* introduction gate in front of the protocol (C25).                       *)
(*                                                                         *)
(* The publisher's chain is blocks 1..N on top of the genesis block.  A    *)
(* peer message GIVB carries a sequence of items [seq, kind]:              *)
(*   kind "pub"     the publisher's block with that sequence number        *)
(*        "forged"  a block with that sequence number signed by another key*)
(*        "alien"   a publisher-signed block that does not extend the chain*)
(*                  (its parent is not the follower's block seq-1)         *)
(*        "rebodied" the publisher's genuine header and signature with     *)
(*                  another body of individually valid transactions        *)
(* Functional core: Process(head, items) - what one GIVB does to the head. *)
(***************************************************************************)
EXTENDS Integers, Sequences, FiniteSets

\* one message: blocks at or below the head AT ARRIVAL are skipped; the first block that cannot be appended ends the message
RECURSIVE Walk(_, _, _)
Walk(cur, maxSeq, items) ==
  IF items = << >> THEN cur
  ELSE LET b == Head(items) IN
       IF b.seq <= maxSeq THEN Walk(cur, maxSeq, Tail(items))
       ELSE IF b.kind = "pub" /\ b.seq = cur + 1 THEN Walk(cur + 1, maxSeq, Tail(items))
       ELSE cur
Process(head, items) == Walk(head, head, items)

\* what the follower sends after a message: nothing without progress, else its new head and a request above it
Replies(head, items) == LET h == Process(head, items) IN IF h = head THEN << >> ELSE <<[id |-> "ANNB", n |-> h], [id |-> "GETB", n |-> h]>>

\* ---- C25: the introduction decision, in the order the checks are documented ----
\* i = [mirrorOurs, version, minVersion, extraLen, pubkeyOK, burn, maxSize, prec, uaFits, uaValid, tailLen]
IntroVerdict(i) ==
  IF i.mirrorOurs THEN "self"
  ELSE IF i.version < i.minVersion THEN "version"
  ELSE IF i.extraLen = 0 THEN "pubkey-not-provided"
  ELSE IF i.extraLen < 33 THEN "extra"
  ELSE IF ~i.pubkeyOK THEN "pubkey-mismatch"
  ELSE IF i.extraLen < 33 + 9 THEN "extra"
  ELSE IF i.burn < 2 THEN "burn"
  ELSE IF i.maxSize < 1024 THEN "maxsize"
  ELSE IF i.prec > 6 THEN "precision"
  ELSE IF ~i.uaFits THEN "extra"
  ELSE IF ~i.uaValid THEN "useragent"
  ELSE IF i.tailLen > 0 /\ i.tailLen < 32 THEN "extra"
  ELSE "introduced"

\* before introduction only INTR, DISC and GIVP are tolerated
FirstMessageTolerated(id) == id \in {"INTR", "DISC", "GIVP"}
=============================================================================
