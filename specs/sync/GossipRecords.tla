---------------------------- MODULE GossipRecords ----------------------------
(***************************************************************************)
(* Record oracle: every line of recs.ndjson is one ANNT / GETT / GIVT      *)
(* message sent to a REAL node over TCP (harness/syncrec, mode gossip):    *)
(* the node's pool before, the message's items (hash and class, the class  *)
(* by construction), everything the node sent back before the PONG         *)
(* barrier, the pool after.  TLC evaluates Gossip.tla's Handle on it.      *)
(* A hard-invalid transaction in the pool is owned by C06; the protocol    *)
(* clauses belong to no listed property (owner X: reported as notes).      *)
(***************************************************************************)
EXTENDS Gossip, Json, TLC

Recs == ndJsonDeserialize("recs.ndjson")
VARIABLE l
Init == l \in 1..Len(Recs)
Next == UNCHANGED l

Set(s) == {s[i] : i \in DOMAIN s}
Reasons(r) ==
  LET pre == Set(r.pre) post == Set(r.post)
      e == Handle(pre, r.msg, r.items)
      hard == {r.items[i].h : i \in {j \in DOMAIN r.items : r.items[j].class = "hard"}}
      got == [i \in DOMAIN r.sent |-> [id |-> r.sent[i].id, hashes |-> r.sent[i].hashes]]
  IN SelectSeq(<<
       IF (post \ pre) \cap hard # {} THEN "C06:hard-invalid-transaction-pooled-through-gossip" ELSE "ok",
       IF r.closed THEN "X:connection-closed-on-a-well-formed-message" ELSE "ok",
       IF post # e.pool /\ (post \ pre) \cap hard = {} THEN "X:pool-after-the-message" ELSE "ok",
       IF got # e.sent THEN "X:reply-differs:" \o r.msg ELSE "ok"
     >>, LAMBDA x : x # "ok")
Conforms == LET x == Reasons(Recs[l]) IN x = << >> \/ \A i \in DOMAIN x : PrintT(<<"MISMATCH", "rec", l, Recs[l].msg, x[i]>>)
=============================================================================
