-------------------------------- MODULE ApiGate --------------------------------
(***************************************************************************)
(* HTTP API access control (C27): the decision whether a request reaches   *)
(* an endpoint's logic, as documented (src/api/README.md: route table in   *)
(* ApiRoutes.tla, CSRF, Host / Origin / Referer checks, basic auth, JSON   *)
(* content type for v2 POST), in the order the checks are applied.         *)
(*                                                                         *)
(* A request is described by classes:                                      *)
(*   method; auth in {"none","exact","wrong-pass","wrong-user","split",    *)
(*   "empty"}; host in {"configured","localhost-name","foreign","empty",   *)
(*   "whitelisted"}; origin/referer in {"none","own","foreign",            *)
(*   "unparsable","whitelisted"}; token in {"none","valid","expired",      *)
(*   "garbage","tampered","older","forged-empty-key","forged-other-key"};   *)
(*   ctype in {"json","json-charset",       *)
(*   "text","none"}.                                                       *)
(* cfg: enabled (set of API sets), disableCSRF, disableHeaderCheck,        *)
(*      creds (TRUE when username/password are configured).                *)
(***************************************************************************)
EXTENDS ApiRoutes, FiniteSets, Sequences

AuthOK(cfg, a) == IF cfg.creds THEN a = "exact" ELSE a \in {"none", "empty"}
\* the Host header is checked (against DNS rebinding) only when the API is bound to a loopback interface
HostOK(cfg, h) == cfg.public \/ h \in {"configured", "localhost-name", "empty", "whitelisted"}
\* the Origin header is judged if present, otherwise the Referer header: the configured host and the whitelist; on a
\* loopback interface both spellings of localhost are the node's own origin - on a public interface they are foreign
OriginOK(cfg, o, r) == LET x == IF o = "none" THEN r ELSE o IN
                       x \in {"none", "own", "whitelisted"} \/ (x \in {"localhost-alias", "loopback-alias"} /\ ~cfg.public)
\* "a new token invalidates earlier ones": only the most recently issued, unexpired token of this node is valid
TokenOK(t) == t = "valid"
\* the implementation's tokens are stateless: any unexpired token this node signed passes (recorded finding)
TokenOKStateless(t) == t \in {"valid", "older"}
JSONType(c) == c \in {"json", "json-charset"}
Unsafe(m) == m \in {"POST", "PUT", "DELETE"}

\* "401" | "415" | "403-host" | "403-origin" | "403-csrf" | "405" | "403-disabled" | "pass"
VerdictWith(cfg, route, q, TokOK(_)) ==
  IF ~AuthOK(cfg, q.auth) THEN "401"
  ELSE IF route.version = 2 /\ q.method = "POST" /\ ~JSONType(q.ctype) THEN "415"
  ELSE IF ~cfg.disableHeaderCheck /\ ~HostOK(cfg, q.host) THEN "403-host"
  ELSE IF ~cfg.disableHeaderCheck /\ ~OriginOK(cfg, q.origin, q.referer) THEN "403-origin"
  ELSE IF ~cfg.disableCSRF /\ Unsafe(q.method) /\ route.uri # "/api/v1/csrf" /\ ~TokOK(q.token) THEN "403-csrf"
  ELSE IF q.method \notin route.methods THEN "405"
  ELSE IF ~route.any /\ route.sets \cap cfg.enabled = {} THEN "403-disabled"
  ELSE "pass"

Verdict(cfg, route, q) == VerdictWith(cfg, route, q, TokenOK)
VerdictStateless(cfg, route, q) == VerdictWith(cfg, route, q, TokenOKStateless)

RouteOf(uri) == CHOOSE r \in Routes : r.uri = uri
=============================================================================
