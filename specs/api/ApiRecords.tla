------------------------------ MODULE ApiRecords ------------------------------
(***************************************************************************)
(* Record oracle: every line of recs.ndjson is one HTTP request served by  *)
(* the REAL server mux (api.create, overlay test in package api) with the  *)
(* status it returned and what refused it, if anything.                    *)
(***************************************************************************)
EXTENDS ApiGate, Json, TLC, Integers

Recs == ndJsonDeserialize("recs.ndjson")
VARIABLE l
Init == l \in 1..Len(Recs)
Next == UNCHANGED l

Rng(f) == { f[i] : i \in DOMAIN f }
Cfg(r) == [enabled |-> Rng(r.cfg.enabled), disableCSRF |-> r.cfg.disableCSRF, disableHeaderCheck |-> r.cfg.disableHeaderCheck, creds |-> r.cfg.creds, public |-> r.cfg.public]
\* what the response shows: the status and, for a 403, which check spoke
Observed(r) ==
  IF r.status = 401 THEN "401"
  ELSE IF r.status = 415 /\ RouteOf(r.uri).version = 2 /\ r.method = "POST" THEN "415"   \* elsewhere a 415 is the endpoint's own answer
  ELSE IF r.status = 403 /\ r.gate = "host" THEN "403-host"
  ELSE IF r.status = 403 /\ r.gate = "origin" THEN "403-origin"
  ELSE IF r.status = 403 /\ r.gate = "csrf" THEN "403-csrf"
  ELSE IF r.status = 403 /\ r.gate = "disabled" THEN "403-disabled"
  ELSE IF r.status = 405 THEN "405"
  ELSE "pass"          \* the endpoint's own logic answered (any status, or the stub gateway was called)

Same(v, o) == v = o \/ (v = "pass" /\ o = "405")                \* an endpoint may itself restrict methods further: not an access-control matter
\* Named deviation of the implementation from the documentation (recorded finding F26): the wallet-recover endpoint is
\* served under WALLET although documented under INSECURE_WALLET_SEED
ImplRoute(route) == IF route.uri = "/api/v2/wallet/recover" THEN [route EXCEPT !.sets = {"WALLET"}] ELSE route

Reason(r) ==
  LET doc == RouteOf(r.uri)
      v == Verdict(Cfg(r), doc, r)
      o == Observed(r)
      dir == IF o = "pass" THEN "reached-although-403-disabled:" ELSE "refused-403-disabled-although-allowed:" IN
  IF Same(v, o) THEN "ok"
  ELSE IF r.token = "older" /\ Same(VerdictStateless(Cfg(r), doc, r), o) THEN "csrf-token-issued-before-a-newer-one-accepted"
  ELSE IF ImplRoute(doc) # doc /\ Same(Verdict(Cfg(r), ImplRoute(doc), r), o) THEN dir \o r.uri
  ELSE IF ImplRoute(doc) # doc /\ r.token = "older" /\ Same(VerdictStateless(Cfg(r), ImplRoute(doc), r), o) THEN "csrf-token-issued-before-a-newer-one-accepted"
  ELSE IF v = "405" /\ o = "pass" THEN "undocumented-method-served"
  ELSE IF o = "pass" THEN "reached-although-" \o v
  ELSE IF v = "pass" THEN "refused-" \o o \o "-although-allowed"
  ELSE "refused-with-" \o o \o "-instead-of-" \o v

Conforms == LET x == Reason(Recs[l]) IN x = "ok" \/ PrintT(<<"MISMATCH", "rec", l, Recs[l].uri, x>>)
=============================================================================
