------------------------------ MODULE HttpRecords ------------------------------
(***************************************************************************)
(* C28: every HTTP request to the node gets a well-formed HTTP response    *)
(* with a status (an error status for bad input) - not a dropped           *)
(* connection (what net/http does when a handler panics), not a hang.      *)
(* Every line of recs.ndjson is one request sent over TCP to a REAL node   *)
(* composed in the harness process (harness/apirec).                       *)
(***************************************************************************)
EXTENDS Integers, Sequences, Json, TLC

Recs == ndJsonDeserialize("recs.ndjson")
VARIABLE l
Init == l \in 1..Len(Recs)
Next == UNCHANGED l

\* the statuses the API documents (README): success, client errors, and server-side failure reports
Documented == {200, 400, 401, 403, 404, 405, 415, 422, 500, 501, 503}

Reason(r) ==
  IF r.dropped THEN "connection-dropped:" \o r.uri
  ELSE IF r.timeout THEN (IF r.fn = "probe" THEN "hang:" \o r.name ELSE "hang:" \o r.uri)
  ELSE IF ~r.complete THEN "incomplete-response:" \o r.uri
  ELSE IF r.status \notin Documented THEN "undocumented-status:" \o r.uri
  ELSE "ok"

Conforms == LET x == Reason(Recs[l]) IN x = "ok" \/ PrintT(<<"MISMATCH", "rec", l, Recs[l].fn, x>>)
=============================================================================
