----------------------------- MODULE WalletRecords -----------------------------
(***************************************************************************)
(* Wallet service invariants (C17, C18, C19) evaluated on records of a     *)
(* REAL wallet.Service (harness/walletrec): after every operation the      *)
(* wallets in memory (post), the wallets a freshly started service loads   *)
(* from the same directory (reload), and observed facts per wallet.        *)
(* A wallet is projected to [id, type, fp, encrypted, label, temp, ext,    *)
(* chg, sec] (ext/chg: the entry addresses of the external / change chain, *)
(* sec: a digest of the encrypted secrets blob).                           *)
(***************************************************************************)
EXTENDS Integers, Sequences, FiniteSets, Json, TLC

Recs == ndJsonDeserialize("recs.ndjson")
VARIABLE l
Init == l \in 1..Len(Recs)
Next == UNCHANGED l

Rng(f) == { f[i] : i \in DOMAIN f }
P(q) == { [id |-> q[i].id, type |-> q[i].type, fp |-> q[i].fp, encrypted |-> q[i].encrypted, label |-> q[i].label, ext |-> q[i].ext, chg |-> q[i].chg,
           sec |-> q[i].sec] : i \in DOMAIN q }
Persistent(q) == P(SelectSeq(q, LAMBDA w : ~w.temp))
ById(q, id) == LET s == SelectSeq(q, LAMBDA w : w.id = id) IN IF Len(s) = 0 THEN [id |-> "", ext |-> << >>, chg |-> << >>, encrypted |-> FALSE, temp |-> FALSE, type |-> ""] ELSE s[1]

\* C19: memory equals what a fresh service loads (temporary wallets and explicitly unloaded ones excepted)
MemEqualsReload(r) == Persistent(r.post) = { w \in P(r.reload) : w.id \notin Rng(r.unloaded) }
\* C19: a failed operation changes nothing
FailedOpIsNoOp(r) == r.res = "err" => r.post = r.pre
\* C19: no two loaded wallets share a fingerprint
UniqueFingerprints(q) == \A i, j \in DOMAIN q : (i # j /\ q[i].fp # "") => q[i].fp # q[j].fp

\* what a successful operation does to the wallet it names (the rest must not change)
Others(r) == { w \in P(r.post) : w.id # r.id } = { w \in P(r.pre) : w.id # r.id }
EffectOK(r) ==
  LET a == ById(r.pre, r.id) b == ById(r.post, r.id) IN
  r.res = "ok" =>
    CASE r.op = "create" -> a.id = "" /\ b.id = r.id /\ ~r.idTaken /\ Others(r)          \* a file name that is taken is never given away
      [] r.op = "restart" -> Persistent(r.post) = Persistent(r.pre) \cup { w \in P(r.reload) : w.id \in Rng(r.unloadedBefore) }
      \* a collection wallet has no seed to derive from: asking it for new addresses adds nothing
      [] r.op = "newaddr" -> IF r.onChange
                             THEN Len(b.chg) = Len(a.chg) + r.k /\ SubSeq(b.chg, 1, Len(a.chg)) = a.chg /\ b.ext = a.ext /\ Others(r)
                             ELSE Len(b.ext) = Len(a.ext) + (IF a.type = "collection" THEN 0 ELSE r.k) /\ SubSeq(b.ext, 1, Len(a.ext)) = a.ext /\ b.chg = a.chg /\ Others(r)
      [] r.op = "scan" -> Len(b.ext) >= Len(a.ext) /\ SubSeq(b.ext, 1, Len(a.ext)) = a.ext /\ SubSeq(b.chg, 1, Len(a.chg)) = a.chg /\ Others(r)
      [] r.op = "label" -> b.ext = a.ext /\ b.encrypted = a.encrypted /\ Others(r)
      [] r.op = "encrypt" -> ~a.encrypted /\ b.encrypted /\ b.ext = a.ext /\ b.chg = a.chg /\ Others(r)
      [] r.op = "decrypt" -> a.encrypted /\ ~b.encrypted /\ b.ext = a.ext /\ b.chg = a.chg /\ r.rightPw /\ Others(r)
      [] r.op = "recover" -> a.encrypted /\ b.ext = a.ext /\ b.chg = a.chg /\ r.rightPw /\ Others(r)
      [] r.op = "unload" -> b.id = "" /\ Others(r)
      [] r.op = "updatesecrets" -> b.ext = a.ext /\ b.encrypted = a.encrypted /\ Others(r)
      [] r.op = "viewsecrets" -> P(r.post) = P(r.pre)                                      \* looking changes nothing
      \* Service.Update: the caller's modification (addresses made without a password, or a label) and nothing else
      [] r.op = "update" -> /\ b.encrypted = a.encrypted /\ Others(r)
                            /\ IF r.updKind = "label" THEN b.ext = a.ext /\ b.chg = a.chg
                               ELSE IF r.onChange THEN Len(b.chg) = Len(a.chg) + r.k /\ SubSeq(b.chg, 1, Len(a.chg)) = a.chg /\ b.ext = a.ext
                               ELSE Len(b.ext) = Len(a.ext) + r.k /\ SubSeq(b.ext, 1, Len(a.ext)) = a.ext /\ b.chg = a.chg
      [] r.op \in {"view", "getwallet"} -> P(r.post) = P(r.pre)                           \* what the caller does to its copy stays with the caller
      [] r.op = "getseed" -> r.seedAPI /\ a.encrypted /\ r.rightPw /\ r.seedMatches /\ P(r.post) = P(r.pre)
      [] OTHER -> TRUE

Fact(r, name) == \A i \in DOMAIN r.facts : r.facts[i][name]

Reasons(r) ==
  LET C(bad, name) == IF bad THEN name ELSE "ok" IN
  SelectSeq(<<
    C(r.reloadErr # "", "C19:fresh-service-does-not-start"),
    C(r.reloadErr = "" /\ ~MemEqualsReload(r), "C19:memory-differs-from-reload"),
    C(~FailedOpIsNoOp(r), "C19:failed-operation-changed-memory"),
    C(~UniqueFingerprints(r.post), "C19:duplicate-fingerprint-in-memory"),
    C(r.reloadErr = "" /\ ~UniqueFingerprints(r.reload), "C19:duplicate-fingerprint-on-disk"),
    C(~EffectOK(r), "C19:effect-of-" \o r.op),
    C(~Fact(r, "entriesConsistent"), "C17:entry-address-or-public-key-inconsistent"),
    C(~Fact(r, "matchesReference"), "C17:addresses-differ-from-single-batch-derivation"),
    C(~Fact(r, "secretsHidden"), "C18:secret-visible-in-locked-wallet"),
    C(~Fact(r, "unlockRestores"), "C18:unlock-does-not-restore-secrets"),
    C(~Fact(r, "wrongPwRejected"), "C18:wrong-password-accepted")
  >>, LAMBDA x : x # "ok")

DecryptReason(r) == IF r.panic THEN "C18:decrypt-panics"
                    ELSE IF r.untouched /\ ~r.plaintext THEN "C18:valid-ciphertext-not-decrypted"
                    ELSE IF ~r.untouched /\ ~r.err /\ ~r.plaintext THEN "C18:damaged-ciphertext-decrypted-to-something-else"
                    ELSE "ok"

Conforms == LET r == Recs[l] xs == IF r.fn = "decrypt" THEN SelectSeq(<<DecryptReason(r)>>, LAMBDA x : x # "ok") ELSE Reasons(r)
            IN xs = << >> \/ \A i \in DOMAIN xs : PrintT(<<"MISMATCH", "rec", l, r.fn, xs[i]>>)
=============================================================================
