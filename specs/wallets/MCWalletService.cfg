SPECIFICATION Spec
CONSTANTS Ids = {1, 2, 3}
  Seeds = {"s1", "s2"}
  MaxN = 3
INVARIANTS MemEqualsReload FreshServiceStarts UniqueInMemory
PROPERTIES FailedOpIsNoOp OnlyGrows
CHECK_DEADLOCK FALSE
