--------------------------- MODULE MCWalletService ---------------------------
(***************************************************************************)
(* The wallet service as a state machine over memory and the wallet        *)
(* directory (C19, and the state part of C17/C18): every operation mutates *)
(* a clone, saves it, then installs it in memory; a save may fail.         *)
(* mem, disk : id -> [seed, n, label, enc, pw, temp]; reserved: seeds      *)
(* whose fingerprint is taken (also by an unloaded wallet whose file is    *)
(* still in the directory).                                                *)
(* Invariants: what a fresh service would load from disk equals memory     *)
(* (temporary and unloaded wallets excepted); it can always start (no two  *)
(* files with the same seed); a wallet's addresses are the first n of its  *)
(* seed's sequence whatever the batching (n only grows, by the requested   *)
(* amounts); encryption state on disk equals memory.                       *)
(***************************************************************************)
EXTENDS Integers, FiniteSets, TLC
CONSTANTS Ids, Seeds, MaxN

VARIABLES mem, disk, unloaded, reserved, lastOK
vars == <<mem, disk, unloaded, reserved, lastOK>>

None == [x \in {} |-> 0]
With(f, k, v) == [x \in DOMAIN f \cup {k} |-> IF x = k THEN v ELSE f[x]]
Without(f, k) == [x \in DOMAIN f \ {k} |-> f[x]]
W(seed, n, temp) == [seed |-> seed, n |-> n, label |-> 0, enc |-> FALSE, pw |-> 0, temp |-> temp]

Init == mem = None /\ disk = None /\ unloaded = {} /\ reserved = {} /\ lastOK = TRUE

\* every operation: either it succeeds (memory and, unless temporary, disk change together) or it changes nothing
Install(id, w) == /\ mem' = With(mem, id, w)
                  /\ disk' = IF w.temp THEN disk ELSE With(disk, id, w)
                  /\ lastOK' = TRUE
Fail == UNCHANGED <<mem, disk, unloaded, reserved>> /\ lastOK' = FALSE

Create(id, seed, temp) ==
  /\ id \notin DOMAIN mem /\ id \notin DOMAIN disk
  /\ IF seed \in reserved THEN Fail                               \* fingerprint conflict
     ELSE \/ Install(id, W(seed, 1, temp)) /\ reserved' = reserved \cup {seed} /\ unloaded' = unloaded \ {id}
          \/ Fail                                                 \* the save failed
NewAddr(id, k) == /\ id \in DOMAIN mem /\ mem[id].n + k <= MaxN
                  /\ \/ Install(id, [mem[id] EXCEPT !.n = @ + k]) /\ UNCHANGED <<unloaded, reserved>>
                     \/ Fail
Label(id) == /\ id \in DOMAIN mem
             /\ \/ Install(id, [mem[id] EXCEPT !.label = 1 - @]) /\ UNCHANGED <<unloaded, reserved>>
                \/ Fail
Encrypt(id, pw) == /\ id \in DOMAIN mem
                   /\ IF mem[id].enc \/ mem[id].temp THEN Fail
                      ELSE \/ Install(id, [mem[id] EXCEPT !.enc = TRUE, !.pw = pw]) /\ UNCHANGED <<unloaded, reserved>>
                           \/ Fail
Decrypt(id, pw) == /\ id \in DOMAIN mem
                   /\ IF ~mem[id].enc \/ mem[id].pw # pw THEN Fail
                      ELSE \/ Install(id, [mem[id] EXCEPT !.enc = FALSE, !.pw = 0]) /\ UNCHANGED <<unloaded, reserved>>
                           \/ Fail
\* the file stays: its seed remains reserved
Unload(id) == /\ id \in DOMAIN mem
              /\ mem' = Without(mem, id) /\ unloaded' = unloaded \cup {id} /\ lastOK' = TRUE /\ UNCHANGED <<disk, reserved>>

Next == \E id \in Ids : \/ \E s \in Seeds, t \in BOOLEAN : Create(id, s, t)
                        \/ \E k \in 1..2 : NewAddr(id, k)
                        \/ Label(id) \/ Unload(id)
                        \/ \E pw \in 1..2 : Encrypt(id, pw) \/ Decrypt(id, pw)
Spec == Init /\ [][Next]_vars

Persistent == [id \in { i \in DOMAIN mem : ~mem[i].temp } |-> mem[id]]
Reload == [id \in DOMAIN disk \ unloaded |-> disk[id]]
MemEqualsReload == Persistent = Reload
FreshServiceStarts == \A a, b \in DOMAIN disk : a # b => disk[a].seed # disk[b].seed
UniqueInMemory == \A a, b \in DOMAIN mem : a # b => mem[a].seed # mem[b].seed
FailedOpIsNoOp == [][~lastOK' => mem' = mem /\ disk' = disk]_vars
OnlyGrows == [][\A id \in DOMAIN mem \cap DOMAIN mem' : mem'[id].n >= mem[id].n /\ mem'[id].seed = mem[id].seed]_vars
=============================================================================
