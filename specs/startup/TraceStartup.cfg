SPECIFICATION TraceSpec
CONSTANTS
  Versions <- NoCheckpoints
  Checkpoints <- NoCheckpoints
  Stored <- Identity
INVARIANTS OwnDatabaseOpens RecordsTheBinary VerifiedWhenDemanded
POSTCONDITION TraceAccepted
CHECK_DEADLOCK FALSE
