SPECIFICATION Spec
CONSTANTS
  Versions <- MCVersions
  Checkpoint <- MCCheckpoint
  Stored <- Identity
INVARIANTS OwnDatabaseOpens RecordsTheBinary VerifiedWhenDemanded
PROPERTIES NeverDowngraded StartTerminates
