SPECIFICATION Spec
CONSTANTS
  Versions <- MCVersions
  Checkpoints <- MCCheckpoints
  Stored <- Identity
INVARIANTS OwnDatabaseOpens RecordsTheBinary VerifiedWhenDemanded
PROPERTIES NeverDowngraded StartTerminates
