---------------------------- MODULE StartupRecords ----------------------------
(***************************************************************************)
(* Record oracle for the start-up gate (record -> validate): every line of *)
(* startup.ndjson is one start of a REAL node binary's start-up sequence   *)
(* (visor.OpenDB, skycoin.checkAndUpdateDB with the real dbVerify,         *)
(* visor.New, Init) on a database file left by an abrupt stop of the       *)
(* previous start.  Each record is one initial state; Reason evaluates     *)
(* Startup.tla's own operators (Refused, NeedsVerify, the identity Stored) *)
(* on the logged versions - parsed from the raw text by the recorder, the  *)
(* precedence is Semver.tla's, not the library's.                          *)
(***************************************************************************)
EXTENDS StartupRules, Json, TLC
Recs == ndJsonDeserialize("startup.ndjson")
VARIABLE l
Init == l \in 1..Len(Recs)
Next == UNCHANGED l

Ver(j) == IF j.none THEN None ELSE [core |-> j.core, pre |-> j.pre, build |-> j.build]
NeedsVerify(app, st, cp, force) == NeedsVerifyAt(app, st, cp, force)

Reason(r) ==
  LET app == Ver(r.app)
      before == Ver(r.before)
      after == Ver(r.after)
      cp == Ver(r.checkpoint)
      refused == Refused(app, before)
  IN IF r.opened /\ refused THEN "C08:file-of-a-higher-version-used"
     ELSE IF ~r.opened /\ ~refused THEN "C08:restart-refused-without-cause"          \* e.g. the binary's own file
     ELSE IF ~r.opened THEN (IF after # before THEN "C08:refused-start-changed-the-file" ELSE "ok")
     ELSE IF after # app THEN "C08:recorded-version-is-not-the-binary's"
     ELSE IF NeedsVerify(app, before, cp, r.force) /\ r.verifyCalls = 0 THEN "C08:used-without-the-verification-the-rule-demands"
     ELSE IF ~NeedsVerify(app, before, cp, r.force) /\ r.verifyCalls > 0 THEN "X:verified-without-need"
     ELSE IF r.verifyCalls > 1 THEN "X:verified-twice"
     ELSE IF ~r.initOK THEN "C08:start-up-fails-after-the-gate"
     ELSE IF r.expectHead >= 0 /\ r.headSeq # r.expectHead THEN "C08:head-after-restart-differs-from-the-file"
     ELSE IF r.expectHead < 0 /\ r.headSeq # 0 THEN "C08:fresh-file-does-not-start-at-genesis"
     ELSE "ok"

Conforms == LET x == Reason(Recs[l]) IN x = "ok" \/ PrintT(<<"MISMATCH", "rec", l, Recs[l].fn, x>>)
=============================================================================
