------------------------------- MODULE Semver -------------------------------
(***************************************************************************)
(* Semantic-version precedence (semver.org 2.0.0, section 11), the order   *)
(* github.com/blang/semver implements and the node's start-up gate uses.   *)
(* A version is [core |-> <<major, minor, patch>>, pre |-> identifiers,    *)
(* build |-> identifiers]; an identifier is [num |-> TRUE, n |-> value,    *)
(* cs |-> << >>] or [num |-> FALSE, n |-> 0, cs |-> its ASCII codes].      *)
(* Build metadata takes no part in precedence.                             *)
(***************************************************************************)
EXTENDS Naturals, Sequences

RECURSIVE LexLess(_, _)
LexLess(a, b) == IF a = << >> THEN b # << >>
                 ELSE IF b = << >> THEN FALSE
                 ELSE IF Head(a) # Head(b) THEN Head(a) < Head(b)
                 ELSE LexLess(Tail(a), Tail(b))

\* numeric identifiers compare as numbers and are below alphanumeric ones, which compare as ASCII strings
IdLess(x, y) == IF x.num /\ y.num THEN x.n < y.n
                ELSE IF x.num THEN TRUE
                ELSE IF y.num THEN FALSE
                ELSE LexLess(x.cs, y.cs)

\* identifier lists, field by field; when all fields of the shorter are equal, the longer one is the higher
RECURSIVE PreLess(_, _)
PreLess(p, q) == IF p = << >> THEN q # << >>
                 ELSE IF q = << >> THEN FALSE
                 ELSE IF IdLess(Head(p), Head(q)) THEN TRUE
                 ELSE IF IdLess(Head(q), Head(p)) THEN FALSE
                 ELSE PreLess(Tail(p), Tail(q))

Less(v, w) == IF v.core # w.core THEN LexLess(v.core, w.core)
              ELSE IF v.pre = << >> THEN FALSE              \* a release is the highest version of its core
              ELSE IF w.pre = << >> THEN TRUE               \* a pre-release is below its release
              ELSE PreLess(v.pre, w.pre)
Greater(v, w) == Less(w, v)
SamePrecedence(v, w) == ~Less(v, w) /\ ~Less(w, v)
=============================================================================
