---------------------------- MODULE StartupRules ----------------------------
(***************************************************************************)
(* The two decisions of the start-up gate (src/skycoin/db_check.go checkDB *)
(* and shouldVerifyDB), shared by the design (Startup.tla) and the record  *)
(* oracle (StartupRecords.tla).                                            *)
(***************************************************************************)
EXTENDS Semver
None == [none |-> TRUE]
\* a file recorded by a higher version is not touched by a lower one
Refused(app, st) == st # None /\ Greater(st, app)
\* the integrity verification runs on a file without a version, on one recorded below the checkpoint version when the
\* binary is at or above it, and on request
NeedsVerifyAt(app, st, cp, force) == st = None \/ (Less(st, cp) /\ ~Less(app, cp)) \/ force
=============================================================================
