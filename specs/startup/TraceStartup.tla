----------------------------- MODULE TraceStartup -----------------------------
(***************************************************************************)
(* Trace validation of the start-up gate (C08): startup_trace.ndjson holds *)
(* the events of REAL start-up sequences, file after file.  Events are     *)
(* emitted where they happen: "begin" before checkAndUpdateDB is called,   *)
(* "gate" when the gate's decision becomes visible (refused: the call      *)
(* returned its error before anything else happened; let through: at the   *)
(* first verification call or version commit), "verify" inside the         *)
(* CheckDatabase / ResetCorruptDB call, "store" in the commit hook of the   *)
(* SetDBVersion update with the version read back from the file image      *)
(* taken right then, "finish" when the rest of the start-up returned,       *)
(* "crash" when the process image is replaced by the file as it was after   *)
(* one of the start's commits.  Every line must be ONE step of Startup.tla's*)
(* own actions; the step a start is in is inferred.  Accepted iff every     *)
(* line is consumed; the specification's invariants are checked in every    *)
(* state of every real sequence.                                           *)
(***************************************************************************)
EXTENDS Startup, Json

Trace == ndJsonDeserialize("startup_trace.ndjson")
VARIABLE l
tvars == <<vars, l>>
Identity(a) == a
NoCheckpoints == {}
Ver(j) == IF j.none THEN None ELSE [core |-> j.core, pre |-> j.pre, build |-> j.build]

IsEvent(e) == l <= Len(Trace) /\ Trace[l].ev = e /\ l' = l + 1
\* a new database file
TraceReset == /\ IsEvent("reset")
              /\ cp' = Ver(Trace[l].checkpoint) /\ stored' = None /\ writer' = None /\ run' = None /\ refusedOwn' = FALSE /\ unverified' = FALSE
TraceBegin == IsEvent("begin") /\ Begin(Ver(Trace[l].app), Trace[l].force)
TraceGate == IsEvent("gate") /\ Gate /\ (Trace[l].refused <=> run' = None)
TraceVerify == IsEvent("verify") /\ Verify
TraceStore == IsEvent("store") /\ Store /\ stored' = Ver(Trace[l].stored)
TraceFinish == IsEvent("finish") /\ Finish
TraceCrash == IsEvent("crash") /\ Crash
TraceInit == l = 1 /\ cp = None /\ stored = None /\ writer = None /\ run = None /\ refusedOwn = FALSE /\ unverified = FALSE
TraceNext == TraceReset \/ TraceBegin \/ TraceGate \/ TraceVerify \/ TraceStore \/ TraceFinish \/ TraceCrash
TraceSpec == TraceInit /\ [][TraceNext]_tvars
\* one state per consumed line plus the initial state
TraceAccepted == TLCGet("stats").diameter - 1 = Len(Trace)
=============================================================================
