INIT Init
NEXT Next
INVARIANT Conforms
CHECK_DEADLOCK FALSE
