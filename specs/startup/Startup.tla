------------------------------- MODULE Startup -------------------------------
(***************************************************************************)
(* What a node binary does with the database file before it uses it        *)
(* (src/skycoin/db_check.go checkAndUpdateDB + src/visor/meta.go), one     *)
(* action per step / database commit:                                      *)
(*   Begin(a, f)  the binary of version a is started (f: -verify-db)       *)
(*   Gate         reads the recorded version: a file recorded by a HIGHER  *)
(*                version is refused, nothing is written                   *)
(*   Verify       the integrity verification (when the gate asks for it)   *)
(*   Store        one commit: the binary's version is recorded             *)
(*   Finish       the rest of the start-up (visor.New, Init: Crash.tla)    *)
(*   Crash        the process stops at any point; commits are atomic       *)
(* Stored(a) is what Store records for binary a - the identity in the      *)
(* code; MCStartupNormalised.cfg is the refuted variant that records the   *)
(* release triple only.                                                    *)
(***************************************************************************)
EXTENDS StartupRules, TLC
CONSTANTS Versions,        \* the binaries that are ever started on this file
          Checkpoints,     \* the possible values of DBVerifyCheckpointVersion (fixed for the life of a file)
          Stored(_)        \* version recorded for a binary
VARIABLES cp,              \* the checkpoint version of this file's binaries
          stored,          \* the recorded version, or None
          writer,          \* the binary whose Store was the last one, or None
          run,             \* None, or the start in progress
          refusedOwn,      \* a binary was refused on a file it was itself the last to record
          unverified       \* a start went on without a verification the rule demands
vars == <<cp, stored, writer, run, refusedOwn, unverified>>

NeedsVerify(app, st, force) == NeedsVerifyAt(app, st, cp, force)

Init == cp \in Checkpoints /\ stored = None /\ writer = None /\ run = None /\ refusedOwn = FALSE /\ unverified = FALSE

Begin(a, f) == /\ run = None
               /\ run' = [app |-> a, force |-> f, step |-> "gate", verified |-> FALSE]
               /\ UNCHANGED <<cp, stored, writer, refusedOwn, unverified>>
Gate == /\ run # None /\ run.step = "gate"
        /\ IF Refused(run.app, stored)
           THEN run' = None /\ refusedOwn' = (refusedOwn \/ writer = run.app)
           ELSE /\ run' = [run EXCEPT !.step = IF NeedsVerify(run.app, stored, run.force) THEN "verify" ELSE "store"]
                /\ UNCHANGED refusedOwn
        /\ UNCHANGED <<cp, stored, writer, unverified>>
Verify == /\ run # None /\ run.step = "verify"
          /\ run' = [run EXCEPT !.step = "store", !.verified = TRUE]
          /\ UNCHANGED <<cp, stored, writer, refusedOwn, unverified>>
Store == /\ run # None /\ run.step = "store"
         /\ unverified' = (unverified \/ (NeedsVerify(run.app, stored, run.force) /\ ~run.verified))
         /\ stored' = Stored(run.app)
         /\ writer' = run.app
         /\ run' = [run EXCEPT !.step = "finish"]
         /\ UNCHANGED <<cp, refusedOwn>>
Finish == /\ run # None /\ run.step = "finish"
          /\ run' = None
          /\ UNCHANGED <<cp, stored, writer, refusedOwn, unverified>>
Crash == /\ run # None
         /\ run' = None
         /\ UNCHANGED <<cp, stored, writer, refusedOwn, unverified>>

Next == (\E a \in Versions, f \in BOOLEAN : Begin(a, f)) \/ Gate \/ Verify \/ Store \/ Finish \/ Crash
Spec == Init /\ [][Next]_vars /\ WF_vars(Gate \/ Verify \/ Store \/ Finish)

\* ---- properties ----
\* a binary can always come back to the file it was the last to record (whatever crashed in between)
OwnDatabaseOpens == ~refusedOwn
\* the recorded version never goes down, and never differs in precedence from the binary that recorded it
NeverDowngraded == [][stored = None \/ ~Less(stored', stored)]_vars
RecordsTheBinary == writer # None => SamePrecedence(stored, writer)
\* whatever is used was verified when the rule asks for it
VerifiedWhenDemanded == ~unverified
\* a start that is neither refused nor crashed ends
StartTerminates == [](run # None => <>(run = None))
=============================================================================
