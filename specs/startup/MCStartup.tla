------------------------------ MODULE MCStartup ------------------------------
EXTENDS Startup
Id(s) == [num |-> FALSE, n |-> 0, cs |-> s]
Num(k) == [num |-> TRUE, n |-> k, cs |-> << >>]
V(core, pre) == [core |-> core, pre |-> pre, build |-> << >>]
rc == <<114, 99>>
\* 0.26.0 < 0.27.0-1 < 0.27.0-rc.1 < 0.27.0-rc.2 < 0.27.0 < 0.27.1-rc.1
MCVersions == { V(<<0, 26, 0>>, << >>), V(<<0, 27, 0>>, <<Num(1)>>), V(<<0, 27, 0>>, <<Id(rc), Num(1)>>), V(<<0, 27, 0>>, <<Id(rc), Num(2)>>),
                V(<<0, 27, 0>>, << >>), V(<<0, 27, 1>>, <<Id(rc), Num(1)>>) }
MCCheckpoints == { V(<<0, 27, 0>>, <<Id(rc), Num(1)>>), V(<<0, 27, 0>>, << >>) }
Identity(a) == a
ReleaseTripleOnly(a) == [a EXCEPT !.pre = << >>]
\* the order is a strict total order on the model's versions (the definition is exercised, not only used)
OrderIsTotal == \A v, w \in MCVersions : (v = w) \/ (Less(v, w) /\ ~Less(w, v)) \/ (Less(w, v) /\ ~Less(v, w))
OrderIsTransitive == \A u, v, w \in MCVersions : Less(u, v) /\ Less(v, w) => Less(u, w)
ASSUME OrderIsTotal /\ OrderIsTransitive
=============================================================================
