SPECIFICATION Spec
CONSTANTS
  Versions <- MCVersions
  Checkpoints <- MCCheckpoints
  Stored <- ReleaseTripleOnly
INVARIANTS OwnDatabaseOpens
