SPECIFICATION Spec
CONSTANTS
  Versions <- MCVersions
  Checkpoint <- MCCheckpoint
  Stored <- ReleaseTripleOnly
INVARIANTS OwnDatabaseOpens
