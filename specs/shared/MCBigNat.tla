------------------------------- MODULE MCBigNat -------------------------------
(* BigNat against TLC's native integers: all operands below N, and a boundary grid. *)
EXTENDS BigNat, TLC
CONSTANT N
Grid == {0, 1, 2, 9, 10, 9999, 10000, 10001, 19999, 20000, 65535, 65536, 99999999 \div 10000, 46340}
ASSUME \A x \in 0..N : IsBigNat(FromNat(x)) /\ ToNat(FromNat(x)) = x
ASSUME \A x \in 0..N, y \in 0..N :
   /\ Add(FromNat(x), FromNat(y)) = FromNat(x + y)
   /\ Mul(FromNat(x), FromNat(y)) = FromNat(x * y)
   /\ (x >= y => Sub(FromNat(x), FromNat(y)) = FromNat(x - y))
   /\ Cmp(FromNat(x), FromNat(y)) = (IF x < y THEN -1 ELSE IF x > y THEN 1 ELSE 0)
   /\ (y > 0 => DivModSmall(FromNat(x), y) = [q |-> FromNat(x \div y), r |-> x % y])
   /\ (y > 0 => IsFloorDiv(FromNat(x \div y), FromNat(x), FromNat(y)))
   /\ (y > 0 => IsCeilDiv(FromNat((x + y - 1) \div y), FromNat(x), FromNat(y)))
   /\ (y > 0 /\ x \div y > 0 => ~IsFloorDiv(FromNat((x \div y) - 1), FromNat(x), FromNat(y)))
   /\ (y > 0 => ~IsFloorDiv(FromNat((x \div y) + 1), FromNat(x), FromNat(y)))
ASSUME \A x \in Grid, y \in Grid :
   /\ Add(FromNat(x), FromNat(y)) = FromNat(x + y)
   /\ (x <= 46340 /\ y <= 46340 => Mul(FromNat(x), FromNat(y)) = FromNat(x * y))
   /\ (x >= y => Sub(FromNat(x), FromNat(y)) = FromNat(x - y))
   /\ (y > 0 /\ y < 131072 => DivModSmall(FromNat(x), y) = [q |-> FromNat(x \div y), r |-> x % y])
\* 2^64 - 1 = (2^32 - 1) * (2^32 + 1);  2^32 + 1 = MaxU32 + 2
ASSUME Mul(MaxU32, Add(MaxU32, FromNat(2))) = MaxU64
ASSUME Add(Add(MaxI64, MaxI64), One) = MaxU64
ASSUME Add(Add(MaxI32, MaxI32), One) = MaxU32
ASSUME Sub(Add(MaxU64, One), One) = MaxU64 /\ Len(Add(MaxU64, One)) = 5
ASSUME PrintT(<<"BigNat self-check passed", N>>)
VARIABLE x
Init == x = 0
Next == UNCHANGED x
=============================================================================
