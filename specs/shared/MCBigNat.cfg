INIT Init
NEXT Next
CONSTANT N = 300
