---------------------------------- MODULE Fn ----------------------------------
(***************************************************************************)
(* Mathematical definitions of the pure helpers the ledger rules rest on   *)
(* (C31: checked arithmetic, fee, coin hours; C29: paging), over exact     *)
(* naturals (BigNat).  Nothing here transcribes Go arithmetic: results are *)
(* stated as the mathematical value plus "fits in 64 bits".                *)
(***************************************************************************)
EXTENDS BigNat

Thousand == <<1000>>
\* floor(a / 10^6) by two exact small divisions
DivMillion(a) == DivModSmall(DivModSmall(a, 1000).q, 1000).q
Million == <<0, 100>>
ModMillion(a) == Sub(a, Mul(DivMillion(a), Million))
\* floor(a / 3600)
Div3600(a) == DivModSmall(a, 3600).q

\* ---- C31 checked helpers: [err |-> BOOLEAN, r |-> BigNat] ----
Res(ok, v) == IF ok THEN [err |-> FALSE, r |-> v] ELSE [err |-> TRUE, r |-> Zero]
AddU64(a, b) == LET s == Add(a, b) IN Res(FitsU64(s), s)
MulU64(a, b) == LET s == Mul(a, b) IN Res(FitsU64(s), s)
AddU32(a, b) == LET s == Add(a, b) IN Res(FitsU32(s), s)
U64ToI64(a)  == Res(FitsI64(a), a)
\* signed inputs are logged as sign + magnitude
I64ToU64(neg, a) == Res(~neg \/ a = Zero, a)
IntToU32(neg, a) == Res((~neg \/ a = Zero) /\ FitsU32(a), a)

\* fee == ceil(hours / burn); remaining == hours - fee (never underflows)
IsRequiredFee(f, hours, burn)    == IsCeilDiv(f, hours, burn)
IsRemaining(rem, hours, burn)    == Le(rem, hours) /\ IsCeilDiv(Sub(hours, rem), hours, burn)

\* "ok" | "nofee" | "overflow" | "insufficient"
VerifyFee(hours, fee, burn) ==
  IF fee = Zero THEN "nofee"
  ELSE LET total == Add(hours, fee) IN
       IF ~FitsU64(total) THEN "overflow"
       \* fee >= ceil(total / burn)  <=>  fee * burn >= total
       ELSE IF Le(total, Mul(fee, burn)) THEN "ok" ELSE "insufficient"

\* accrued hours of an output (coins in droplets, hours, creation time) at time t
CoinHours(coins, hours, uxtime, t) ==
  IF Lt(t, uxtime) THEN Res(TRUE, hours)
  ELSE LET secs  == Sub(t, uxtime)
           whole == DivMillion(coins)
           rem   == ModMillion(coins)
           wcs   == Mul(secs, whole)
           ds    == Mul(secs, rem)
           cs    == Add(wcs, DivMillion(ds))          \* = floor(coins * secs / 10^6)
           total == Add(hours, Div3600(cs))          \* = hours + floor(coins * secs / 3.6e9)
       IN Res(FitsU64(wcs) /\ FitsU64(ds) /\ FitsU64(cs) /\ FitsU64(total), total)

\* the same with the failure kind the ledger rules distinguish: "ok", "add" (only the final addition of the earned
\* hours to the initial hours does not fit - the documented legacy case), "mult" (an intermediate does not fit)
CoinHoursK(coins, hours, uxtime, t) ==
  IF Lt(t, uxtime) THEN [k |-> "ok", r |-> hours]
  ELSE LET secs  == Sub(t, uxtime)
           wcs   == Mul(secs, DivMillion(coins))
           ds    == Mul(secs, ModMillion(coins))
           cs    == Add(wcs, DivMillion(ds))
           total == Add(hours, Div3600(cs))
       IN IF ~(FitsU64(wcs) /\ FitsU64(ds) /\ FitsU64(cs)) THEN [k |-> "mult", r |-> Zero]
          ELSE IF ~FitsU64(total) THEN [k |-> "add", r |-> Zero]
          ELSE [k |-> "ok", r |-> total]

\* ---- C29 paging over a list of n items ----
TotalPagesIs(tp, n, size) == IsCeilDiv(tp, n, size)
PageStart(size, page) == Mul(size, Sub(page, One))
\* [start, end) of page `page` (1-based); an empty page is [0, 0)
PageBounds(n, size, page) ==
  LET start == PageStart(size, page) IN
  IF Le(n, start) THEN [start |-> Zero, end |-> Zero]
  ELSE LET e == Add(start, size) IN [start |-> start, end |-> IF Le(e, n) THEN e ELSE n]
=============================================================================
