------------------------------- MODULE BigNat -------------------------------
(***************************************************************************)
(* Exact natural numbers for TLC (whose integers are 32 bit).              *)
(* A BigNat is a little-endian sequence of base-10000 limbs without        *)
(* leading (most significant) zero limbs; zero is << >>.                   *)
(* The recorders log every 64-bit amount as a JSON array of such limbs     *)
(* (pure formatting), so that all oracles over uint64 values are stated    *)
(* mathematically here and not by transcribing Go arithmetic.              *)
(* Checked against native integers by MCBigNat.                            *)
(***************************************************************************)
EXTENDS Integers, Sequences

Base == 10000

IsBigNat(a) == /\ \A i \in DOMAIN a : a[i] \in 0..(Base - 1)
               /\ (Len(a) > 0 => a[Len(a)] # 0)

Zero == << >>
One  == <<1>>

RECURSIVE Norm(_)
Norm(a) == IF Len(a) > 0 /\ a[Len(a)] = 0 THEN Norm(SubSeq(a, 1, Len(a) - 1)) ELSE a

RECURSIVE FromNat(_)
FromNat(n) == IF n = 0 THEN << >> ELSE <<n % Base>> \o FromNat(n \div Base)

\* only for values known to be small (tests, small operands)
RECURSIVE ToNat(_)
ToNat(a) == IF Len(a) = 0 THEN 0 ELSE a[1] + Base * ToNat(Tail(a))

Limb(a, i) == IF i <= Len(a) THEN a[i] ELSE 0
MaxOf(x, y) == IF x >= y THEN x ELSE y

RECURSIVE AddC(_, _, _, _)
AddC(a, b, i, carry) ==
  IF i > MaxOf(Len(a), Len(b)) THEN (IF carry = 0 THEN << >> ELSE <<carry>>)
  ELSE LET s == Limb(a, i) + Limb(b, i) + carry
       IN <<s % Base>> \o AddC(a, b, i + 1, s \div Base)
Add(a, b) == AddC(a, b, 1, 0)

\* -1, 0, 1
RECURSIVE CmpFrom(_, _, _)
CmpFrom(a, b, i) ==
  IF i = 0 THEN 0
  ELSE IF a[i] < b[i] THEN -1 ELSE IF a[i] > b[i] THEN 1 ELSE CmpFrom(a, b, i - 1)
Cmp(a, b) == IF Len(a) < Len(b) THEN -1 ELSE IF Len(a) > Len(b) THEN 1 ELSE CmpFrom(a, b, Len(a))
Lt(a, b) == Cmp(a, b) = -1
Le(a, b) == Cmp(a, b) # 1
Eq(a, b) == a = b

\* a - b for a >= b
RECURSIVE SubB(_, _, _, _)
SubB(a, b, i, borrow) ==
  IF i > Len(a) THEN << >>
  ELSE LET d == Limb(a, i) - Limb(b, i) - borrow
       IN IF d < 0 THEN <<d + Base>> \o SubB(a, b, i + 1, 1) ELSE <<d>> \o SubB(a, b, i + 1, 0)
Sub(a, b) == Norm(SubB(a, b, 1, 0))

\* a * k for a small natural k (k < 2^17, so that limb*k+carry stays below 2^31)
RECURSIVE MulSmallC(_, _, _, _)
MulSmallC(a, k, i, carry) ==
  IF i > Len(a) THEN FromNat(carry)
  ELSE LET p == a[i] * k + carry
       IN <<p % Base>> \o MulSmallC(a, k, i + 1, p \div Base)
MulSmall(a, k) == IF k = 0 THEN << >> ELSE Norm(MulSmallC(a, k, 1, 0))

ShiftLimbs(a, n) == IF Len(a) = 0 THEN a ELSE [i \in 1..n |-> 0] \o a

RECURSIVE MulAcc(_, _, _)
MulAcc(a, b, j) ==
  IF j > Len(b) THEN << >>
  ELSE Add(ShiftLimbs(MulSmall(a, b[j]), j - 1), MulAcc(a, b, j + 1))
Mul(a, b) == MulAcc(a, b, 1)

\* quotient and remainder by a small natural k (0 < k < 2^17): [q |-> BigNat, r |-> Nat]
RECURSIVE DivSmallFrom(_, _, _, _)
DivSmallFrom(a, k, i, rem) ==
  IF i = 0 THEN [q |-> << >>, r |-> rem]
  ELSE LET cur == rem * Base + a[i]
           rest == DivSmallFrom(a, k, i - 1, cur % k)
       IN [q |-> rest.q \o <<cur \div k>>, r |-> rest.r]
DivModSmall(a, k) == LET d == DivSmallFrom(a, k, Len(a), 0) IN [q |-> Norm(d.q), r |-> d.r]

\* q = floor(a / b) stated relationally: q*b <= a < (q+1)*b
IsFloorDiv(q, a, b) == Le(Mul(q, b), a) /\ Lt(a, Mul(Add(q, One), b))
\* q = ceil(a / b): (q-1)*b < a <= q*b   (q = 0 iff a = 0)
IsCeilDiv(q, a, b) == IF Len(a) = 0 THEN Len(q) = 0
                      ELSE Len(q) > 0 /\ Le(a, Mul(q, b)) /\ Lt(Mul(Sub(q, One), b), a)

\* 2^64 - 1 = 18446744073709551615, 2^63 - 1 = 9223372036854775807, 2^32 - 1 = 4294967295
MaxU64 == <<1615, 955, 737, 6744, 1844>>
MaxI64 == <<5807, 5477, 368, 3372, 922>>
MaxU32 == <<7295, 9496, 42>>
MaxI32 == <<3647, 4748, 21>>
FitsU64(a) == Le(a, MaxU64)
FitsI64(a) == Le(a, MaxI64)
FitsU32(a) == Le(a, MaxU32)

RECURSIVE SumSeq(_)
SumSeq(s) == IF Len(s) = 0 THEN << >> ELSE Add(Head(s), SumSeq(Tail(s)))
=============================================================================
