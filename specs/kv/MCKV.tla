--------------------------------- MODULE MCKV ---------------------------------
(***************************************************************************)
(* KV.tla as a state machine over a small universe, explored exhaustively: *)
(* a loaded storage always equals its file; what was added is read back    *)
(* until it is removed or overwritten, across unload / load and restarts;  *)
(* a failing operation changes nothing.                                    *)
(***************************************************************************)
EXTENDS KV, TLC
CONSTANTS AllTypes, KeySet, ValSet
VARIABLE st
Init == st = [api |-> TRUE, mem |-> [t \in Types |-> NotLoaded], disk |-> [t \in Types |-> NoFile]]
Ops == {[op |-> "load", t |-> t] : t \in AllTypes} \cup {[op |-> "unload", t |-> t] : t \in AllTypes}
       \cup {[op |-> "add", t |-> t, k |-> k, v |-> v] : t \in AllTypes, k \in KeySet, v \in ValSet}
       \cup {[op |-> "remove", t |-> t, k |-> k] : t \in AllTypes, k \in KeySet}
       \cup {[op |-> "restart", api |-> a, en |-> e] : a \in BOOLEAN, e \in SUBSET Types}
Apply(s, o) == CASE o.op = "load" -> Load(s, o.t) [] o.op = "unload" -> Unload(s, o.t) [] o.op = "add" -> Add(s, o.t, o.k, o.v)
                 [] o.op = "remove" -> Remove(s, o.t, o.k) [] o.op = "restart" -> Restart(s, o.api, o.en)
Next == \E o \in Ops : st' = Apply(st, o).st
Inv == MemEqualsDisk(st)
FailureChangesNothing == [][\A o \in Ops : Apply(st, o).res # "ok" => Apply(st, o).st = st]_st
ReadYourWrites == \A t \in Types, k \in KeySet, v \in ValSet :
   LET a == Add(st, t, k, v) IN a.res = "ok" => /\ Get(a.st, t, k).res = "ok" /\ Get(a.st, t, k).val = v
                                               /\ Get(Load(Unload(a.st, t).st, t).st, t, k).val = v          \* survives unload + load
                                               /\ Get(Restart(a.st, TRUE, {t}).st, t, k).val = v            \* and a restart
                                               /\ Remove(a.st, t, k).res = "ok" /\ Get(Remove(a.st, t, k).st, t, k).res = "no-such-key"
=============================================================================
