---------------------------------- MODULE KV ----------------------------------
(***************************************************************************)
(* The key-value storage manager (src/kvstorage) - beyond the listed       *)
(* properties.  A storage type is loaded or not; a loaded storage is a map *)
(* held in memory and flushed to its file by every change; unloading keeps *)
(* the file; a restart loads the configured types from their files.        *)
(* Each operation is a function of the abstract state: [res, st].          *)
(*   st = [api |-> BOOLEAN, mem |-> [Types -> map | NotLoaded],            *)
(*         disk |-> [Types -> map | NoFile]]      (map = set of <<k, v>>)  *)
(***************************************************************************)
EXTENDS Integers, Sequences, FiniteSets
CONSTANTS Types            \* the valid storage types ("txid", "client")
\* memory: [loaded |-> FALSE] or [loaded |-> TRUE, m |-> map]; file: [file |-> FALSE] or [file |-> TRUE, m |-> map]
NotLoaded == [loaded |-> FALSE]
NoFile == [file |-> FALSE]
Mem(m) == [loaded |-> TRUE, m |-> m]
File(m) == [file |-> TRUE, m |-> m]

Keys(m) == {p[1] : p \in m}
Val(m, k) == (CHOOSE p \in m : p[1] = k)[2]
Put(m, k, v) == {p \in m : p[1] # k} \cup {<<k, v>>}
Del(m, k) == {p \in m : p[1] # k}

Guard(st, t) == IF t \notin Types THEN "unknown-type" ELSE IF ~st.api THEN "disabled" ELSE "ok"
Loaded(st, t) == st.mem[t].loaded

Load(st, t) ==
  IF Guard(st, t) # "ok" THEN [res |-> Guard(st, t), st |-> st]
  ELSE IF Loaded(st, t) THEN [res |-> "already-loaded", st |-> st]
  ELSE LET d == IF ~st.disk[t].file THEN {} ELSE st.disk[t].m IN       \* a missing file is created empty
       [res |-> "ok", st |-> [st EXCEPT !.mem[t] = Mem(d), !.disk[t] = File(d)]]
Unload(st, t) ==
  IF Guard(st, t) # "ok" THEN [res |-> Guard(st, t), st |-> st]
  ELSE IF ~Loaded(st, t) THEN [res |-> "not-loaded", st |-> st]
  ELSE [res |-> "ok", st |-> [st EXCEPT !.mem[t] = NotLoaded]]
Get(st, t, k) ==
  IF Guard(st, t) # "ok" THEN [res |-> Guard(st, t), st |-> st]
  ELSE IF ~Loaded(st, t) THEN [res |-> "not-loaded", st |-> st]
  ELSE IF k \notin Keys(st.mem[t].m) THEN [res |-> "no-such-key", st |-> st]
  ELSE [res |-> "ok", val |-> Val(st.mem[t].m, k), st |-> st]
GetAll(st, t) ==
  IF Guard(st, t) # "ok" THEN [res |-> Guard(st, t), st |-> st]
  ELSE IF ~Loaded(st, t) THEN [res |-> "not-loaded", st |-> st]
  ELSE [res |-> "ok", all |-> st.mem[t].m, st |-> st]
Add(st, t, k, v) ==
  IF Guard(st, t) # "ok" THEN [res |-> Guard(st, t), st |-> st]
  ELSE IF ~Loaded(st, t) THEN [res |-> "not-loaded", st |-> st]
  ELSE LET m == Put(st.mem[t].m, k, v) IN [res |-> "ok", st |-> [st EXCEPT !.mem[t] = Mem(m), !.disk[t] = File(m)]]
Remove(st, t, k) ==
  IF Guard(st, t) # "ok" THEN [res |-> Guard(st, t), st |-> st]
  ELSE IF ~Loaded(st, t) THEN [res |-> "not-loaded", st |-> st]
  ELSE IF k \notin Keys(st.mem[t].m) THEN [res |-> "no-such-key", st |-> st]
  ELSE LET m == Del(st.mem[t].m, k) IN [res |-> "ok", st |-> [st EXCEPT !.mem[t] = Mem(m), !.disk[t] = File(m)]]
\* a new manager on the same directory with the given types enabled
Restart(st, api, enabled) ==
  [res |-> "ok", st |-> [api |-> api,
                         mem |-> [t \in Types |-> IF api /\ t \in enabled THEN Mem(IF ~st.disk[t].file THEN {} ELSE st.disk[t].m) ELSE NotLoaded],
                         disk |-> [t \in Types |-> IF api /\ t \in enabled /\ ~st.disk[t].file THEN File({}) ELSE st.disk[t]]]]

\* what must hold in every state: a loaded storage and its file say the same
MemEqualsDisk(st) == \A t \in Types : st.mem[t].loaded => st.disk[t].file /\ st.mem[t].m = st.disk[t].m
=============================================================================
