------------------------------ MODULE KVRecords ------------------------------
(***************************************************************************)
(* Record oracle: every line of recs.ndjson is one operation on a REAL     *)
(* kvstorage.Manager (harness/kvrec): abstract state before (what the      *)
(* manager answers, what the files hold), operation, result, state after.  *)
(* TLC evaluates KV.tla's operators on it.  Not a listed property: the     *)
(* mismatches are reported as notes.                                       *)
(***************************************************************************)
EXTENDS KV, Json, TLC

Recs == ndJsonDeserialize("recs.ndjson")
VARIABLE l
Init == l \in 1..Len(Recs)
Next == UNCHANGED l

MapOf(ps) == {<<ps[i][1], ps[i][2]>> : i \in DOMAIN ps}
St(x) == [api |-> x.api,
          mem |-> [t \in Types |-> IF x.mem[t].loaded THEN Mem(MapOf(x.mem[t].m)) ELSE NotLoaded],
          disk |-> [t \in Types |-> IF x.disk[t].file THEN File(MapOf(x.disk[t].m)) ELSE NoFile]]
Reason(r) ==
  LET pre == St(r.pre) post == St(r.post)
      e == CASE r.op = "load" -> Load(pre, r.t) [] r.op = "unload" -> Unload(pre, r.t) [] r.op = "add" -> Add(pre, r.t, r.k, r.v)
             [] r.op = "remove" -> Remove(pre, r.t, r.k) [] r.op = "get" -> Get(pre, r.t, r.k) [] r.op = "getall" -> GetAll(pre, r.t)
             [] r.op = "restart" -> Restart(pre, r.newApi, {r.enabled[i] : i \in DOMAIN r.enabled})
  IN IF ~MemEqualsDisk(post) /\ post.api THEN "memory-differs-from-file"
     ELSE IF r.res # e.res THEN "result:" \o r.op
     ELSE IF r.op = "get" /\ e.res = "ok" /\ r.val # e.val THEN "value-read"
     ELSE IF r.op = "getall" /\ e.res = "ok" /\ MapOf(r.all) # e.all THEN "values-read"
     \* with the API disabled the manager answers nothing: only the files can be compared
     ELSE IF post.api /\ post # e.st THEN "state-after:" \o r.op
     ELSE IF ~post.api /\ post.disk # e.st.disk THEN "files-after:" \o r.op
     ELSE "ok"
Conforms == LET x == Reason(Recs[l]) IN x = "ok" \/ PrintT(<<"MISMATCH", "rec", l, Recs[l].op, x>>)
=============================================================================
