CONSTANTS Types = {"txid", "client"}
  AllTypes = {"txid", "client", "bogus"}
  KeySet = {"k1", "k2"}
  ValSet = {"v1", "v2"}
INIT Init
NEXT Next
INVARIANTS Inv ReadYourWrites
PROPERTIES FailureChangesNothing
CHECK_DEADLOCK FALSE
