-------------------------------- MODULE TxPool --------------------------------
(***************************************************************************)
(* The unconfirmed pool and the publisher's block creation on top of the   *)
(* ledger rules of Ledger.tla (C05, C06, C11 and the admission clause of   *)
(* C03).                                                                   *)
(*                                                                         *)
(* A pending transaction t is described as in Ledger (hash, sigsOK, ins,   *)
(* outs with the ids they would get at the current head) plus              *)
(*   size (encoded bytes), rank (position of its hash among the hashes of  *)
(*   the record, ascending), nullOut (an output pays the null address).    *)
(* A pool is a set of [hash, valid].  Parameters p = [burn, maxSize, prec].*)
(* Functional core: Hard, Soft, Inject*, Refresh, RemoveInvalid,           *)
(* CreateBlock - pure operators over (ledger state, pool, arguments).      *)
(***************************************************************************)
EXTENDS Ledger, SequencesExt

\* ---- rule sets ----
Hard(s, t) == TxnValidSingle(s, t)

HoursIn(s, t) == SumBy(t.ins, LAMBDA id : AccruedK(s, id).r)
Fee(s, t) == Sub(HoursIn(s, t), HoursOut(t))             \* only used when Hard holds (then HoursOut <= HoursIn)

Pow10(n) == IF n = 0 THEN 1 ELSE IF n = 1 THEN 10 ELSE IF n = 2 THEN 100 ELSE IF n = 3 THEN 1000
            ELSE IF n = 4 THEN 10000 ELSE IF n = 5 THEN 100000 ELSE 1000000
\* coins is a multiple of 10^(6 - prec)
PrecisionOK(coins, prec) == LET d == Pow10(6 - prec) IN
  IF d = 1000000 THEN ModMillion(coins) = Zero ELSE DivModSmall(coins, d).r = 0

\* C11: the soft rules, for a transaction that satisfies the hard rules
Soft(s, t, p, locked) ==
  /\ t.size <= p.maxSize
  /\ VerifyFee(HoursOut(t), Fee(s, t), p.burn) = "ok"     \* fee > 0 and fee * burn >= input hours
  /\ \A i \in DOMAIN t.ins : Ux(s, t.ins[i]).addr \notin locked
  /\ \A i \in DOMAIN t.outs : PrecisionOK(t.outs[i].coins, p.prec)

\* ---- the pool ----
Hashes(pool) == { e.hash : e \in pool }
Put(pool, h, v) == { e \in pool : e.hash # h } \cup { [hash |-> h, valid |-> v] }

\* a transaction received from the network: [res, softErr, pool']
InjectForeign(s, pool, t, p, locked) ==
  IF ~Hard(s, t) THEN [res |-> "hard", softErr |-> FALSE, pool |-> pool]
  ELSE LET ok == Soft(s, t, p, locked)
       IN [res |-> IF t.hash \in Hashes(pool) THEN "known" ELSE "ok", softErr |-> ~ok, pool |-> Put(pool, t.hash, ok)]

\* a transaction submitted by the user: user rules, then hard, then soft (user parameters); any failure changes nothing
InjectUser(s, pool, t, p, locked) ==
  IF t.nullOut THEN [res |-> "user", softErr |-> FALSE, pool |-> pool]
  ELSE IF ~Hard(s, t) THEN [res |-> "hard", softErr |-> FALSE, pool |-> pool]
  ELSE IF ~Soft(s, t, p, locked) THEN [res |-> "soft", softErr |-> FALSE, pool |-> pool]
  ELSE [res |-> IF t.hash \in Hashes(pool) THEN "known" ELSE "ok", softErr |-> FALSE, pool |-> Put(pool, t.hash, TRUE)]

\* txs: hash -> description of the pooled transactions at the current head
Refreshed(s, pool, txs, p, locked) ==
  { [hash |-> e.hash, valid |-> Hard(s, txs[e.hash]) /\ Soft(s, txs[e.hash], p, locked)] : e \in pool }
BecameValid(pool, pool2) == { e.hash : e \in { x \in pool2 : x.valid /\ [hash |-> x.hash, valid |-> FALSE] \in pool } }

HardInvalid(s, pool, txs) == { e.hash : e \in { x \in pool : ~Hard(s, txs[x.hash]) } }
AfterRemoveInvalid(s, pool, txs) == { e \in pool : e.hash \notin HardInvalid(s, pool, txs) }

\* ---- C05: the publisher's choice ----
\* floor(fee * 1024 / size), saturating at 2^64-1 when the product does not fit
FeePerKB(s, t) == LET x == MulSmall(Fee(s, t), 1024) IN DivModSmall(IF FitsU64(x) THEN x ELSE MaxU64, t.size).q
\* highest fee per kB first, ties by lowest hash
Before(s, a, b) == LET fa == FeePerKB(s, a) fb == FeePerKB(s, b) IN Lt(fb, fa) \/ (fa = fb /\ a.rank < b.rank)

RECURSIVE PrefixWithin(_, _, _)
\* longest prefix whose sizes sum to at most `limit`
PrefixWithin(q, limit, used) ==
  IF q = << >> \/ used + Head(q).size > limit THEN << >> ELSE <<Head(q)>> \o PrefixWithin(Tail(q), limit, used + Head(q).size)

Conflict(a, b) == Rng(a.ins) \cap Rng(b.ins) # {} \/ Ids(Rng(a.outs)) \cap Ids(Rng(b.outs)) # {}
RECURSIVE Arbitrate(_, _)
\* a transaction is dropped exactly when it conflicts with one that is INCLUDED before it
Arbitrate(q, included) ==
  IF q = << >> THEN included
  ELSE IF \E i \in DOMAIN included : Conflict(included[i], Head(q)) THEN Arbitrate(Tail(q), included)
       ELSE Arbitrate(Tail(q), Append(included, Head(q)))

Candidates(s, txs, p, locked) == { t \in Rng(txs) : Hard(s, t) /\ Soft(s, t, p, locked) }
\* the sequence of transactions of the block the publisher makes (<< >>: no block)
CreateBlock(s, txs, p, locked, maxBlockSize, maxBlockTxns) ==
  LET c == SetToSeq(Candidates(s, txs, p, locked))
      sorted == SortSeq(c, LAMBDA a, b : Before(s, a, b))
      fit == PrefixWithin(sorted, maxBlockSize, 0)
      capped == IF Len(fit) > maxBlockTxns THEN SubSeq(fit, 1, maxBlockTxns) ELSE fit
  IN Arbitrate(capped, << >>)
=============================================================================
