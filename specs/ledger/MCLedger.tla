------------------------------- MODULE MCLedger -------------------------------
(***************************************************************************)
(* The ledger design on a small universe: every block a peer can offer     *)
(* (valid, or flawed in signature, sequence, time, parent, body hash,      *)
(* checksum, or carrying a transaction that double-spends, replays a spent *)
(* output, spends an unknown output, creates/destroys coins or has a zero  *)
(* output) in every reachable state.  Checks C01, C02 and C04 as           *)
(* invariants / action properties of Valid and Apply themselves.           *)
(***************************************************************************)
EXTENDS Ledger, TLC
CONSTANTS MaxBlocks,   \* accepted blocks per behaviour
          Volume       \* genesis volume in units

VARIABLES s,        \* the node (Ledger state)
          created,  \* history: every output id ever created by an accepted block
          spent,    \* history: every output id ever spent by an accepted block
          nextId    \* fresh output ids
mvars == <<s, created, spent, nextId>>

Init ==
  /\ s = [len |-> 1, headSeq |-> 0, headTime |-> 10, headHash |-> 100, genesisHash |-> 100, uxhash |-> 0,
          unspent |-> { [id |-> 1, addr |-> 1, coins |-> FromNat(Volume), hours |-> Zero, time |-> 10] }, pool |-> {}]
  /\ created = {1} /\ spent = {} /\ nextId = 2

\* candidate transactions: inputs are any 1..2 ids ever created (spent or not, possibly repeated) or an unknown id
InputLists == LET U == created \cup {99} IN { <<a>> : a \in U } \cup { <<a, b>> : a \in U, b \in U }
OutLists(total) ==
  { <<[id |-> nextId, addr |-> 1, coins |-> FromNat(c), hours |-> Zero]>> : c \in {total, total + 1} \cup (IF total > 0 THEN {total - 1} ELSE {}) }
  \cup { <<[id |-> nextId, addr |-> 1, coins |-> FromNat(c), hours |-> Zero], [id |-> nextId + 1, addr |-> 2, coins |-> FromNat(total - c), hours |-> Zero]>> : c \in 0..total }
InCoins(ins) == LET known == { i \in DOMAIN ins : ins[i] \in Ids(s.unspent) }
                IN ToNat(SumSeq([i \in 1..Len(ins) |-> IF i \in known THEN Ux(s, ins[i]).coins ELSE Zero]))
Txns == UNION { { [hash |-> 1000 + nextId, sigsOK |-> ok, ins |-> ins, outs |-> outs] :
                    ok \in BOOLEAN, outs \in OutLists(InCoins(ins)) } : ins \in InputLists }

Blocks ==
  \* exactly one header field may be wrong at a time (plus whatever the transaction does)
  LET good(txs) == [hash |-> 100 + s.len, sigOK |-> TRUE, bodyOK |-> TRUE, seq |-> s.headSeq + 1, time |-> s.headTime + 1,
                    prev |-> s.headHash, uxhash |-> s.uxhash, txns |-> txs]
  IN UNION { LET g == good(<<t>>) IN
             { g, [g EXCEPT !.sigOK = FALSE], [g EXCEPT !.bodyOK = FALSE], [g EXCEPT !.seq = s.headSeq], [g EXCEPT !.seq = s.headSeq + 2],
               [g EXCEPT !.time = s.headTime], [g EXCEPT !.prev = -1], [g EXCEPT !.uxhash = -1], [g EXCEPT !.hash = s.genesisHash],
               [g EXCEPT !.txns = << >>] } : t \in Txns }
    \cup { good(<<t, u>>) : t \in { x \in Txns : x.sigsOK }, u \in { x \in Txns : x.sigsOK /\ Len(x.ins) = 1 } }

Submit(b) ==
  IF Valid(s, b)
  THEN /\ s.len <= MaxBlocks
       /\ s' = Apply(s, b, s.uxhash + 1)
       /\ created' = created \cup Ids(AllOuts(b))
       /\ spent' = spent \cup AllIns(b)
       /\ nextId' = nextId + 2
  ELSE UNCHANGED mvars      \* a rejected block changes nothing

Next == \E b \in Blocks : Submit(b)
Spec == Init /\ [][Next]_mvars

\* C01
Supply == SupplyOK(s, FromNat(Volume))
\* C02: the unspent set is exactly created minus spent
CreatedMinusSpent == Ids(s.unspent) = created \ spent
\* C02: an accepted block only spends unspent outputs, each once, and creates only fresh ids
NoDoubleSpend == [][ s' # s => /\ (spent' \ spent) \subseteq Ids(s.unspent)
                               /\ (spent' \ spent) \cap spent = {}
                               /\ (created' \ created) \cap created = {} ]_mvars
\* C04: the chain only grows by a block that names the head, one at a time
ExtendsHead == [][ s' # s => s'.headSeq = s.headSeq + 1 /\ s'.headTime > s.headTime /\ s'.len = s.len + 1 ]_mvars
NoZeroOutputs == \A u \in s.unspent : u.coins # Zero
=============================================================================
