------------------------------- MODULE MCTxPool -------------------------------
(***************************************************************************)
(* The unconfirmed pool and the publisher on a small universe: every       *)
(* interleaving of foreign/user injections (admissible, soft-invalid,      *)
(* hard-invalid, conflicting), refresh, invalid-removal and block creation.*)
(* Checks, on the operators of TxPool.tla themselves, the declarative      *)
(* content of C05 and C06:                                                 *)
(*  - a transaction enters the pool only if it satisfies the hard rules    *)
(*    (user: also soft and user rules) against the current head;           *)
(*  - after invalid-removal no pooled transaction is hard-invalid, after a *)
(*    refresh every flag equals a fresh check;                             *)
(*  - every block the publisher makes is Valid for an independent node,    *)
(*    holds only hard+soft-valid transactions, fits the size limit, is     *)
(*    ordered by fee per kB then hash, and of conflicting candidates       *)
(*    exactly the first one is in it.                                      *)
(***************************************************************************)
EXTENDS TxPool, TLC
CONSTANTS MaxBlocks, MaxPool

VARIABLES s, pool, known, nblocks, okSoFar
mv == <<s, pool, known, nblocks, okSoFar>>

P == [burn |-> <<2>>, maxSize |-> 300, prec |-> 3]
Locked == {3}
MaxBlockSize == 450
Coin == Million

GH(k) == << << >>, k, TRUE, FALSE, FALSE, FALSE >>   \* ids have one shape: <<transaction hash, index>>
U(id, a, c, h) == [id |-> id, addr |-> a, coins |-> MulSmall(Coin, c), hours |-> FromNat(h), time |-> 3600]
Init ==
  /\ s = [len |-> 1, headSeq |-> 0, headTime |-> 3600, headHash |-> 100, genesisHash |-> 100, uxhash |-> 0,
          unspent |-> { U(<<GH(10), 1>>, 1, 2, 4), U(<<GH(11), 1>>, 2, 1, 3), U(<<GH(12), 1>>, 3, 1, 8) }, pool |-> {}]
  /\ pool = {} /\ known = {} /\ nblocks = 0 /\ okSoFar = TRUE

\* candidate transactions at the current head: one or two inputs, one output carrying all coins;
\* variants: fee level (0 = nothing burnt, 1 = half burnt, 2 = everything burnt, 3 = one hour too many), bad signature,
\* odd precision (one droplet moved to a second output), size class, null-address output
Ins == { <<u.id>> : u \in s.unspent } \cup UNION { { <<u.id, v.id>> : v \in { w \in s.unspent : w.addr >= u.addr } } : u \in s.unspent }
Variant == [fee : 0..3, sig : BOOLEAN, odd : BOOLEAN, big : BOOLEAN, null : BOOLEAN]
Simple(v) == ~v.big /\ (~v.sig => v.fee = 1 /\ ~v.odd /\ ~v.null) /\ (v.odd => v.fee = 1 /\ ~v.null) /\ (v.null => v.fee = 1)
Mk(ins, v) ==
  LET known2 == { i \in DOMAIN ins : ins[i] \in Ids(s.unspent) }
      cin == SumSeq([i \in DOMAIN ins |-> IF i \in known2 THEN Ux(s, ins[i]).coins ELSE Zero])
      hin == SumSeq([i \in DOMAIN ins |-> IF i \in known2 THEN AccruedK(s, ins[i]).r ELSE Zero])
      hout == IF v.fee = 0 THEN hin ELSE IF v.fee = 1 THEN DivModSmall(hin, 2).q ELSE IF v.fee = 2 THEN Zero ELSE Add(hin, One)
      h == <<ins, v.fee, v.sig, v.odd, v.big, v.null>>
      outs == IF v.odd /\ Le(<<2>>, cin)
              THEN <<[id |-> <<h, 1>>, addr |-> 1, coins |-> Sub(cin, One), hours |-> hout], [id |-> <<h, 2>>, addr |-> 2, coins |-> One, hours |-> Zero]>>
              ELSE <<[id |-> <<h, 1>>, addr |-> IF v.null THEN 0 ELSE 1, coins |-> cin, hours |-> hout]>>
  IN [hash |-> h, size |-> IF v.big THEN 350 ELSE 100 + 50 * Len(ins), rank |-> 0, sigsOK |-> v.sig, nullOut |-> v.null, ins |-> ins, outs |-> outs]
Txns == { Mk(ins, v) : ins \in Ins, v \in { x \in Variant : Simple(x) } }

\* a deterministic total order on hashes for the tie-break (any injective order will do)
Ranked(ts) == LET q == SetToSeq({ t.hash : t \in ts }) IN { [t EXCEPT !.rank = CHOOSE i \in DOMAIN q : q[i] = t.hash] : t \in ts }
TxMapOf(ts) == [h \in { t.hash : t \in ts } |-> CHOOSE t \in ts : t.hash = h]
Pooled == TxMapOf(Ranked({ t \in known : t.hash \in Hashes(pool) }))

Inject(t, user) ==
  /\ Cardinality(pool) < MaxPool \/ t.hash \in Hashes(pool)
  /\ LET x == IF user THEN InjectUser(s, pool, t, P, Locked) ELSE InjectForeign(s, pool, t, P, Locked)
     IN /\ pool' = x.pool
        /\ known' = { k \in known \cup {t} : k.hash \in Hashes(x.pool) }
        \* C06: admission implies the hard rules (user: also soft and user rules)
        /\ okSoFar' = (okSoFar /\ (t.hash \in Hashes(x.pool) \ Hashes(pool) => Hard(s, t) /\ (user => Soft(s, t, P, Locked) /\ ~t.nullOut))
                               /\ (x.res \in {"hard", "soft", "user"} => x.pool = pool))
  /\ UNCHANGED <<s, nblocks>>

RefreshA ==
  /\ pool' = Refreshed(s, pool, Pooled, P, Locked)
  /\ okSoFar' = (okSoFar /\ Hashes(pool') = Hashes(pool))
  /\ UNCHANGED <<s, known, nblocks>>

RemoveInvalidA ==
  /\ pool' = AfterRemoveInvalid(s, pool, Pooled)
  /\ okSoFar' = (okSoFar /\ \A e \in pool' : Hard(s, Pooled[e.hash]))
  /\ known' = { k \in known : k.hash \in Hashes(pool') }
  /\ UNCHANGED <<s, nblocks>>

BlockOK(c, blk, b) ==
  LET inblk == Rng(blk)
      sorted == SortSeq(SetToSeq(c), LAMBDA x, y : Before(s, x, y))
      pos(t) == CHOOSE i \in DOMAIN sorted : sorted[i] = t
      fit == { t \in c : SumSeq([i \in 1..pos(t) |-> FromNat(sorted[i].size)]) = SumSeq([i \in 1..pos(t) |-> FromNat(sorted[i].size)])
                         /\ ToNat(SumSeq([i \in 1..pos(t) |-> FromNat(sorted[i].size)])) <= MaxBlockSize }
  IN /\ Valid(s, b)                                                          \* an independent node accepts it
     /\ inblk \subseteq c                                                   \* only hard + soft valid transactions
     /\ ToNat(SumSeq([i \in DOMAIN blk |-> FromNat(blk[i].size)])) <= MaxBlockSize
     /\ \A i, j \in DOMAIN blk : i < j => Before(s, blk[i], blk[j])          \* fee per kB, then hash
     /\ \A x, y \in inblk : x # y => ~Conflict(x, y)                         \* of conflicting ones at most one
     /\ \A t \in fit \ inblk : \E w \in inblk : Conflict(w, t) /\ Before(s, w, t)   \* left out only for an earlier included one

CreateAndExec ==
  /\ nblocks < MaxBlocks
  /\ LET txs == Pooled
         blk == CreateBlock(s, txs, P, Locked, MaxBlockSize, 65535)
         b == [hash |-> 101 + nblocks, sigOK |-> TRUE, bodyOK |-> TRUE, seq |-> s.headSeq + 1, time |-> s.headTime + 3600,
               prev |-> s.headHash, uxhash |-> s.uxhash, txns |-> blk]
     IN IF Len(blk) = 0
        THEN okSoFar' = (okSoFar /\ Candidates(s, txs, P, Locked) = {}) /\ UNCHANGED <<s, pool, known, nblocks>>
        ELSE /\ okSoFar' = (okSoFar /\ BlockOK(Candidates(s, txs, P, Locked), blk, b))
             /\ s' = Apply(s, b, s.uxhash + 1)
             /\ pool' = { e \in pool : e.hash \notin { blk[i].hash : i \in DOMAIN blk } }
             /\ nblocks' = nblocks + 1
             /\ known' = { k \in known : k.hash \notin { blk[i].hash : i \in DOMAIN blk } }

Next == \/ \E t \in Txns, u \in BOOLEAN : Inject(t, u)
        \/ RefreshA \/ RemoveInvalidA \/ CreateAndExec
Spec == Init /\ [][Next]_mv

Good == okSoFar
\* C06: a confirmed transaction is no longer pooled; pooled valid flags never claim more than a fresh check after Refresh (in RefreshA)
Supply == SupplyOK(s, MulSmall(Coin, 4))
=============================================================================
