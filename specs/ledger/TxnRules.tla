------------------------------- MODULE TxnRules -------------------------------
(***************************************************************************)
(* The transaction-level contracts, as relations between what a call was   *)
(* given and what it returned (C09 well-formedness, C11 soft rules as a    *)
(* stand-alone function, C12 spend construction, C13 wallet signing).      *)
(* Amounts are exact naturals (BigNat).                                     *)
(***************************************************************************)
EXTENDS TxPool

\* ---- C09: well formed, from the raw fields of a transaction ----
\* sigKinds: what each signature is by construction: "valid" (made by a key over inner hash + input), "null",
\* or one of the never-acceptable forms (high s, recovery id >= 4, zero r, zero s)
OutKey(o) == <<o.addr, o.coins, o.hours>>
WellFormed(r) ==
  /\ Len(r.ins) > 0 /\ Len(r.outs) > 0
  /\ Len(r.sigKinds) = Len(r.ins)                                   \* one signature per input
  /\ NoDupSeq(r.ins)                                                \* no repeated input
  /\ r.type = 0
  /\ \A i \in DOMAIN r.outs : r.outs[i].coins # Zero                \* no zero-coin output
  /\ FitsU64(SumBy(r.outs, LAMBDA o : o.coins))                     \* output coins do not overflow
  /\ r.length = r.size                                              \* length field = encoded size
  /\ NoDupSeq([i \in DOMAIN r.outs |-> OutKey(r.outs[i])])          \* no two identical outputs
  /\ r.innerOK
  /\ IF r.signed THEN \A i \in DOMAIN r.sigKinds : r.sigKinds[i] = "valid"
     ELSE /\ \A i \in DOMAIN r.sigKinds : r.sigKinds[i] \in {"valid", "null"}
          /\ \E i \in DOMAIN r.sigKinds : r.sigKinds[i] = "null"

\* ---- C11: the soft rules applied on their own (inputs given, no hard check before) ----
SoftAlone(s, t, p, locked) ==
  /\ t.size <= p.maxSize
  /\ \A i \in DOMAIN t.ins : AccruedK(s, t.ins[i]).k = "ok"
  /\ LET hin == HoursIn(s, t) hout == HoursOut(t)
     IN FitsU64(hin) /\ FitsU64(hout) /\ Le(hout, hin) /\ VerifyFee(hout, Sub(hin, hout), p.burn) = "ok"
  /\ \A i \in DOMAIN t.ins : Ux(s, t.ins[i]).addr \notin locked
  /\ \A i \in DOMAIN t.outs : PrecisionOK(t.outs[i].coins, p.prec)

\* ---- C12: spend construction ----
Offered(r) == { [id |-> r.offered[i].id, addr |-> r.offered[i].addr, coins |-> r.offered[i].coins, hours |-> r.offered[i].hours, time |-> r.offered[i].time] : i \in DOMAIN r.offered }
OfferState(r) == [headTime |-> r.headTime, unspent |-> Offered(r)]
OfferedHours(r) == LET s == OfferState(r) q == SetToSeq(Offered(r)) IN SumSeq([i \in DOMAIN q |-> AccruedK(s, q[i].id).r])
OfferedCoins(r) == LET q == SetToSeq(Offered(r)) IN SumSeq([i \in DOMAIN q |-> q[i].coins])
ReqCoins(r) == SumBy(r.to, LAMBDA o : o.coins)
ReqHours(r) == SumBy(r.to, LAMBDA o : o.hours)
\* hours left after burning ceil(h / burn):  h - ceil(h/burn) = floor(h * (burn-1) / burn)
Remaining(h, burn) == LET b == ToNat(burn) IN DivModSmall(MulSmall(h, b - 1), b).q
ValidRequest(r) ==
  /\ r.change # r.nullAddr
  /\ Len(r.to) > 0
  /\ \A i \in DOMAIN r.to : r.to[i].coins # Zero /\ r.to[i].addr # r.nullAddr
  /\ NoDupSeq([i \in DOMAIN r.to |-> OutKey(r.to[i])])
  /\ (r.mode = "auto" => \A i \in DOMAIN r.to : r.to[i].hours = Zero)
  /\ FitsU64(ReqCoins(r)) /\ FitsU64(ReqHours(r))
CanCover(r) == /\ Le(ReqCoins(r), OfferedCoins(r))
               /\ OfferedHours(r) # Zero
               /\ Le(ReqHours(r), Remaining(OfferedHours(r), r.burn))

\* the first violated clause of the postcondition, or "ok"
CreateVerdict(r) ==
  LET s == OfferState(r)
      nTo == Len(r.to)
      cin == SumBy(r.ins, LAMBDA id : Ux(s, id).coins)
      hin == SumBy(r.ins, LAMBDA id : AccruedK(s, id).r)
      hout == SumBy(r.outs, LAMBDA o : o.hours)
      rem == Remaining(hin, r.burn)
      autoSum == SumSeq([i \in 1..nTo |-> r.outs[i].hours])
      Allot(h) == DivModSmall(MulSmall(Remaining(h, r.burn), r.shareNum), r.shareDen).q    \* floor(share * remaining hours)
      allot == Allot(hin)
      \* when an extra input was added only to create change, the hours were allotted before it joined
      allotBefore == Allot(SumSeq([i \in 1..(Len(r.ins) - 1) |-> AccruedK(s, r.ins[i]).r]))
      hasChange == Len(r.outs) = nTo + 1
  IN
  IF r.panic THEN "panic"
  ELSE IF r.res = "internal" THEN "internal-error"                                  \* neither a user-level error nor a transaction
  ELSE IF ~ValidRequest(r) THEN (IF r.res = "user" THEN "ok" ELSE "invalid-request-accepted")
  ELSE IF r.res = "user" THEN
       (IF r.errkind = "balance" THEN (IF Lt(OfferedCoins(r), ReqCoins(r)) THEN "ok" ELSE "refused-although-coins-suffice")
        ELSE IF r.errkind = "nounspents" THEN (IF Offered(r) = {} THEN "ok" ELSE "refused-although-outputs-offered")
        ELSE IF r.errkind \in {"hours", "nofee"} THEN (IF ~CanCover(r) THEN "ok" ELSE "refused-although-hours-suffice")
        \* the change output would be identical to a requested output: only possible when a requested output pays the change address
        ELSE IF r.errkind = "dupchange" THEN
             (IF \E i \in DOMAIN r.to : r.to[i].addr \in (IF r.change = "" THEN { u.addr : u \in Offered(r) } ELSE {r.change}) THEN "ok"
              ELSE "refused-for-a-duplicate-that-cannot-arise")
        ELSE "user-error-on-valid-request")
  ELSE \* a transaction was returned
       IF ~(r.allNull /\ r.nSigs = Len(r.ins) /\ r.lenOK /\ r.innerOK /\ Len(r.ins) > 0) THEN "not-a-wellformed-unsigned-txn"
       ELSE IF ~(NoDupSeq(r.ins) /\ \A i \in DOMAIN r.ins : r.ins[i] \in Ids(Offered(r))) THEN "inputs-not-offered-or-repeated"
       ELSE IF ~(Len(r.outs) \in {nTo, nTo + 1}) THEN "output-count"
       ELSE IF ~(\A i \in 1..nTo : r.outs[i].addr = r.to[i].addr /\ r.outs[i].coins = r.to[i].coins) THEN "requested-output-not-paid-exactly"
       ELSE IF r.mode = "manual" /\ ~(\A i \in 1..nTo : r.outs[i].hours = r.to[i].hours) THEN "requested-hours-not-paid-exactly"
       ELSE IF ~NoDupSeq([i \in DOMAIN r.outs |-> OutKey(r.outs[i])]) \/ \E i \in DOMAIN r.outs : r.outs[i].coins = Zero THEN "outputs-not-wellformed"
       ELSE IF ~Le(ReqCoins(r), cin) THEN "spends-less-than-it-pays"
       ELSE IF hasChange # (cin # ReqCoins(r)) THEN "change-output-presence"
       ELSE IF hasChange /\ r.outs[nTo + 1].coins # Sub(cin, ReqCoins(r)) THEN "change-amount"
       ELSE IF hasChange /\ r.outs[nTo + 1].addr # (IF r.change = "" THEN r.minSpentAddr ELSE r.change) THEN "change-address"
       ELSE IF r.mode = "auto" /\ ~(autoSum = allot \/ (hasChange /\ Len(r.ins) > 1 /\ autoSum = allotBefore) \/ (~hasChange /\ autoSum = rem)) THEN "auto-hours-sum"
       ELSE IF ~(Le(hout, hin) /\ VerifyFee(hout, Sub(hin, hout), r.burn) = "ok") THEN "fee-not-burned"
       ELSE "ok"

\* ---- C13: wallet signing ----
SignVerdict(r) ==
  LET n == r.nIns
      unsignedIdx == { i \in 1..n : ~r.preSigned[i] }
      idx == { r.indexes[k] + 1 : k \in DOMAIN r.indexes }            \* logged 0-based
      idxOK == /\ Len(r.indexes) <= n
               /\ \A k \in DOMAIN r.indexes : r.indexes[k] >= 0 /\ r.indexes[k] < n
               /\ NoDupSeq(r.indexes)
      targets == IF Len(r.indexes) = 0 THEN unsignedIdx ELSE idx
      expectOK == /\ r.wtype # "xpub" /\ ~r.encrypted /\ r.innerOK /\ n > 0
                  /\ unsignedIdx # {}
                  /\ idxOK
                  /\ targets \subseteq unsignedIdx                       \* never overwrites an existing signature
                  /\ \A i \in targets : r.owned[i]
  IN IF r.panic THEN "panic"
     ELSE IF ~r.inputUntouched THEN "input-transaction-modified"
     ELSE IF (r.res = "ok") # expectOK THEN (IF expectOK THEN "refused" ELSE "signed-although-it-must-fail")
     ELSE IF r.res # "ok" THEN "ok"
     ELSE IF ~(r.insSame /\ r.outsSame /\ r.innerSame) THEN "inputs-outputs-or-inner-hash-changed"
     ELSE IF ~r.existingKept THEN "existing-signature-overwritten"
     ELSE IF Len(r.sigNonNull) # n \/ \E i \in 1..n : r.sigNonNull[i] # (r.preSigned[i] \/ i \in targets) THEN "signed-set-differs-from-request"
     ELSE IF \E i \in targets : ~r.sigVerifies[i] THEN "signature-does-not-verify"
     ELSE "ok"
=============================================================================
