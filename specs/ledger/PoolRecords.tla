------------------------------ MODULE PoolRecords ------------------------------
(***************************************************************************)
(* Record oracle for the unconfirmed pool and block creation (record ->    *)
(* validate): every line of pool.ndjson is one operation on a REAL visor   *)
(* (inject foreign/user, refresh, remove_invalid, create).  Each record is *)
(* one initial state; Conforms evaluates TxPool's own operators on the     *)
(* logged pre-state and compares result and post pool.                     *)
(***************************************************************************)
EXTENDS TxPool, Json, TLC

Recs == ndJsonDeserialize("pool.ndjson")
VARIABLE l
Init == l \in 1..Len(Recs)
Next == UNCHANGED l

UxSet(p) == { [id |-> p.unspent[i].id, addr |-> p.unspent[i].addr, coins |-> p.unspent[i].coins, hours |-> p.unspent[i].hours, time |-> p.unspent[i].time] : i \in DOMAIN p.unspent }
StateOf(p) == [len |-> p.len, headSeq |-> p.headSeq, headTime |-> p.headTime, headHash |-> p.headHash,
               genesisHash |-> p.genesisHash, uxhash |-> p.uxhash, unspent |-> UxSet(p), pool |-> Rng(p.pool)]
PoolOf(q) == { [hash |-> q[i].hash, valid |-> q[i].valid] : i \in DOMAIN q }
TxMap(q) == [h \in { q[i].hash : i \in DOMAIN q } |-> LET i == CHOOSE j \in DOMAIN q : q[j].hash = h IN q[i]]
Par(r) == [burn |-> r.p.burn, maxSize |-> r.p.maxSize, prec |-> r.p.prec]

\* the first disagreement, or "ok".  The prefix names the property that owns the clause.
Reason(r) ==
  LET s == StateOf(r.st)
      pre == PoolOf(r.pre)
      post == PoolOf(r.post)
      locked == Rng(r.locked)
  IN
  CASE r.ev = "inject" ->
        LET t == r.txns[1]
            x == IF r.kind = "user" THEN InjectUser(s, pre, t, Par(r), locked) ELSE InjectForeign(s, pre, t, Par(r), locked)
            admitted == r.res \in {"ok", "known"}
        IN IF r.res # x.res THEN
              (IF admitted /\ x.res = "hard" /\ ~HoursValidSingle(s, t) /\ TxnShapeValid(s, t) THEN "C03:admitted-hours"     \* the hours rule alone decides
               ELSE IF admitted /\ x.res = "hard" /\ r.kind = "foreign" /\ r.softErr          \* pooled, and the verdict was "soft": both properties
                    THEN "C06:hard-invalid-transaction-admitted+C11:hard-violation-reported-as-soft"
               ELSE IF admitted /\ x.res = "hard" THEN "C06:hard-invalid-transaction-admitted"
               ELSE IF admitted /\ x.res = "user" THEN "C06:user-rule-violating-transaction-admitted"
               ELSE IF admitted /\ x.res = "soft" THEN "C06:soft-invalid-user-transaction-admitted"
               ELSE IF x.res \in {"ok", "known"} /\ r.res = "soft" THEN "C11:admissible-refused-as-soft"
               ELSE IF x.res \in {"ok", "known"} THEN "C06:admission"
               ELSE "C11:class")                                                                                                \* refused, but for the wrong kind of reason
           ELSE IF r.kind = "foreign" /\ r.softErr # x.softErr THEN
                  (IF post # x.pool THEN "C11:soft-verdict+C06:valid-flag" ELSE "C11:soft-verdict")     \* the wrong verdict is also stored as the pool's flag
           ELSE IF post # x.pool THEN (IF Hashes(post) # Hashes(x.pool) THEN "C06:pool-membership" ELSE "C06:valid-flag")
           ELSE "ok"
    [] r.ev = "refresh" ->
        LET x == Refreshed(s, pre, TxMap(r.txns), Par(r), locked)
        IN IF post # x THEN "C06:refresh-flags"
           ELSE IF Rng(r.hashes) # BecameValid(pre, x) THEN "C06:refresh-returned"
           ELSE "ok"
    [] r.ev = "remove_invalid" ->
        LET txs == TxMap(r.txns)
        IN IF Rng(r.hashes) # HardInvalid(s, pre, txs) THEN "C06:removed-set"
           ELSE IF post # AfterRemoveInvalid(s, pre, txs) THEN "C06:remove-post"
           ELSE IF \E e \in post : ~Hard(s, txs[e.hash]) THEN "C06:hard-invalid-left"
           ELSE "ok"
    [] r.ev = "create" ->
        LET blk == CreateBlock(s, TxMap(r.txns), Par(r), locked, r.maxBlock, r.maxTxns)
            exp == [i \in DOMAIN blk |-> blk[i].hash]
        IN IF r.res = "panic" THEN "C05:block-creation-panics"
           ELSE IF (r.res = "ok") # (Len(exp) > 0) THEN "C05:block-or-none"
           ELSE IF r.res = "ok" /\ r.hashes # exp THEN
                  (IF Rng(r.hashes) = Rng(exp) THEN "C05:order"
                   ELSE IF Rng(r.hashes) \subseteq Rng(exp) THEN "C05:conflict-choice-dropped"
                   ELSE "C05:selection")
           ELSE IF post # pre THEN "C05:create-changed-pool"
           ELSE "ok"
    [] r.ev = "create_execute" ->      \* Visor.CreateAndExecuteBlock: the same selection, executed in the same commit
        LET blk == CreateBlock(s, TxMap(r.txns), Par(r), locked, r.maxBlock, r.maxTxns)
            exp == [i \in DOMAIN blk |-> blk[i].hash]
        IN IF r.res = "panic" THEN "C05:block-creation-panics"
           ELSE IF (r.res = "ok") # (Len(exp) > 0) THEN "C05:block-or-none"
           ELSE IF r.res = "ok" /\ r.hashes # exp THEN
                  (IF Rng(r.hashes) = Rng(exp) THEN "C05:order"
                   ELSE IF Rng(r.hashes) \subseteq Rng(exp) THEN "C05:conflict-choice-dropped"
                   ELSE "C05:selection")
           ELSE IF r.res = "ok" /\ post # { e \in pre : e.hash \notin Rng(exp) } THEN "C06:pool-after-own-block"    \* what the block holds leaves the pool, nothing else changes
           ELSE IF r.res # "ok" /\ post # pre THEN "C05:create-changed-pool"
           ELSE "ok"
    [] OTHER -> "unknown-event"

Conforms == LET r == Reason(Recs[l]) IN r = "ok" \/ PrintT(<<"MISMATCH", "rec", l, Recs[l].ev, r>>)
=============================================================================
