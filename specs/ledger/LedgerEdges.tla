------------------------------ MODULE LedgerEdges ------------------------------
(***************************************************************************)
(* Edge oracle (record -> validate): every line of edges.ndjson is one     *)
(* block offered to a REAL follower visor: the projection of its state     *)
(* before, the block, the verdict, the projection after.  The post of one  *)
(* edge is the pre of the next edge of the same history (same observation),*)
(* so per-edge conformance chains into whole-history conformance.          *)
(***************************************************************************)
EXTENDS Ledger, Json, TLC

Edges == ndJsonDeserialize("edges.ndjson")
VARIABLE l
Init == l \in 1..Len(Edges)
Next == UNCHANGED l

UxSet(p) == { [id |-> p.unspent[i].id, addr |-> p.unspent[i].addr, coins |-> p.unspent[i].coins, hours |-> p.unspent[i].hours, time |-> p.unspent[i].time] : i \in DOMAIN p.unspent }
StateOf(p) == [len |-> p.len, headSeq |-> p.headSeq, headTime |-> p.headTime, headHash |-> p.headHash,
               genesisHash |-> p.genesisHash, uxhash |-> p.uxhash, unspent |-> UxSet(p), pool |-> Rng(p.pool)]

\* the first component of conformance that fails, or "ok"
Reason(e) ==
  LET s == StateOf(e.pre)
      t == StateOf(e.post)
      ok == Valid(s, e.blk)
  IN IF Len(e.pre.unspent) # Cardinality(UxSet(e.pre)) THEN "duplicate-ids"             \* the real set has no duplicate ids
     ELSE IF (e.res = "accepted") # ok THEN (IF ok THEN "valid-rejected" ELSE "invalid-accepted")   \* C04 (and C01/C02 by the flaw)
     ELSE IF ~SupplyOK(t, e.volume) THEN "supply"                                       \* C01
     ELSE IF ok /\ t.unspent # Apply(s, e.blk, e.post.uxhash).unspent THEN "unspent"    \* C02: unspent' = unspent - spent + created
     ELSE IF ok /\ t.pool # Apply(s, e.blk, e.post.uxhash).pool THEN "pool"                 \* C06: a confirmed transaction leaves the pool
     ELSE IF ok /\ t # Apply(s, e.blk, e.post.uxhash) THEN "head"
     ELSE IF ok /\ ~(e.stored.sigOK /\ e.stored.hash = e.blk.hash) THEN "stored"       \* C04: the signature covers the stored header
     ELSE IF ok /\ e.post.ntxns # e.pre.ntxns + Len(e.blk.txns) THEN "history"
     ELSE IF ~ok /\ (t # s \/ e.post.ntxns # e.pre.ntxns) THEN "rejected-but-changed"   \* C04: a rejected block changes nothing
     ELSE IF t.len # t.headSeq + 1 THEN "length"
     ELSE "ok"

Conforms == LET r == Reason(Edges[l]) IN r = "ok" \/ PrintT(<<"MISMATCH", "rec", l, Edges[l].mut, r>>)
=============================================================================
