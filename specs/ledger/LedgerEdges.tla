------------------------------ MODULE LedgerEdges ------------------------------
(***************************************************************************)
(* Edge oracle (record -> validate): every line of edges.ndjson is one     *)
(* block offered to a REAL follower visor: the projection of its state     *)
(* before, the block, the verdict, the projection after.  The post of one  *)
(* edge is the pre of the next edge of the same history (same observation),*)
(* so per-edge conformance chains into whole-history conformance.          *)
(***************************************************************************)
EXTENDS Ledger, Json, TLC, Sequences

Edges == ndJsonDeserialize("edges.ndjson")
VARIABLE l
Init == l \in 1..Len(Edges)
Next == UNCHANGED l

UxSet(p) == { [id |-> p.unspent[i].id, addr |-> p.unspent[i].addr, coins |-> p.unspent[i].coins, hours |-> p.unspent[i].hours, time |-> p.unspent[i].time] : i \in DOMAIN p.unspent }
StateOf(p) == [len |-> p.len, headSeq |-> p.headSeq, headTime |-> p.headTime, headHash |-> p.headHash,
               genesisHash |-> p.genesisHash, uxhash |-> p.uxhash, unspent |-> UxSet(p), pool |-> Rng(p.pool)]

\* every component of conformance that fails (one edge can violate several properties)
Reasons(e) ==
  LET s == StateOf(e.pre)
      t == StateOf(e.post)
      ok == Valid(s, e.blk)
      C(bad, name) == IF bad THEN name ELSE "ok"
  IN IF Len(e.pre.unspent) # Cardinality(UxSet(e.pre)) THEN <<"duplicate-ids">>             \* the real set has no duplicate ids
     ELSE IF (e.res = "accepted") # ok THEN <<IF ok THEN "valid-rejected" ELSE "invalid-accepted">> \o
             SelectSeq(<<C(~SupplyOK(t, e.volume), "supply"), C(~ok /\ e.res = "rejected" /\ (t # s \/ e.post.ntxns # e.pre.ntxns), "rejected-but-changed")>>, LAMBDA x : x # "ok")
     ELSE SelectSeq(<<
       C(~SupplyOK(t, e.volume), "supply"),                                                   \* C01
       C(ok /\ t.unspent # Apply(s, e.blk, e.post.uxhash).unspent, "unspent"),                \* C02: unspent' = unspent - spent + created
       C(ok /\ t.pool # Apply(s, e.blk, e.post.uxhash).pool, "pool"),                         \* C06: a confirmed transaction leaves the pool
       C(ok /\ [t EXCEPT !.unspent = {}, !.pool = {}] # [Apply(s, e.blk, e.post.uxhash) EXCEPT !.unspent = {}, !.pool = {}], "head"),
       C(ok /\ ~(e.stored.sigOK /\ e.stored.hash = e.blk.hash), "stored"),                   \* C04: the signature covers the stored header
       C(ok /\ e.post.ntxns # e.pre.ntxns + Len(e.blk.txns), "history"),
       C(~ok /\ (t # s \/ e.post.ntxns # e.pre.ntxns), "rejected-but-changed"),              \* C04: a rejected block changes nothing
       C(t.len # t.headSeq + 1, "length")
     >>, LAMBDA x : x # "ok")

Conforms == LET rs == Reasons(Edges[l]) IN rs = << >> \/ \A i \in DOMAIN rs : PrintT(<<"MISMATCH", "rec", l, Edges[l].mut, rs[i]>>)
=============================================================================
