------------------------------ MODULE ViewRecords ------------------------------
(***************************************************************************)
(* C07 (and the paging of C29 on a real node): every query view is DERIVED *)
(* here from the accepted chain (as read back block by block), the unspent *)
(* projection and the unconfirmed pool, and compared with what the real    *)
(* node answered.  Every line of views.ndjson is one observation point     *)
(* (one initial state); the same derivations must hold after the derived   *)
(* data was dropped and rebuilt at a restart (phase "rebuilt-...").        *)
(***************************************************************************)
EXTENDS Ledger, SequencesExt, Json, TLC

Recs == ndJsonDeserialize("views.ndjson")
VARIABLE l
Init == l \in 1..Len(Recs)
Next == UNCHANGED l

UxSet(p) == { [id |-> p.unspent[i].id, addr |-> p.unspent[i].addr, coins |-> p.unspent[i].coins, hours |-> p.unspent[i].hours, time |-> p.unspent[i].time] : i \in DOMAIN p.unspent }

\* ---- what follows directly from the chain ----
ChainTxns(r) == UNION { { [seq |-> r.chain[b].seq, t |-> r.chain[b].txns[i]] : i \in DOMAIN r.chain[b].txns } : b \in DOMAIN r.chain }
Created(r) == UNION { { [id |-> x.t.outs[i].id, addr |-> x.t.outs[i].addr, coins |-> x.t.outs[i].coins, hours |-> x.t.outs[i].hours] : i \in DOMAIN x.t.outs } : x \in ChainTxns(r) }
SpentBy(r, id) == { x \in ChainTxns(r) : id \in Rng(x.t.ins) }
OwnerOf(r, id) == LET c == { o \in Created(r) : o.id = id } IN IF c = {} THEN "?" ELSE (CHOOSE o \in c : TRUE).addr
Touches(r, t, addrs) == (\E i \in DOMAIN t.outs : t.outs[i].addr \in addrs) \/ (\E i \in DOMAIN t.ins : OwnerOf(r, t.ins[i]) \in addrs)
ConfirmedFor(r, addrs) == { x.t.hash : x \in { y \in ChainTxns(r) : Touches(r, y.t, addrs) } }
PoolFor(r, addrs) == { r.pool[i].hash : i \in { j \in DOMAIN r.pool : Touches(r, r.pool[j], addrs) } }
PoolPaying(r, addrs) == { r.pool[i].hash : i \in { j \in DOMAIN r.pool : \E k \in DOMAIN r.pool[j].outs : r.pool[j].outs[k].addr \in addrs } }
SeqOfHash(r, h) == LET c == { x \in ChainTxns(r) : x.t.hash = h } IN IF c = {} THEN 1000000 ELSE (CHOOSE x \in c : TRUE).seq

\* the unspent set is what the chain created minus what it spent
ExpectedUnspentIds(r) == { o.id : o \in { c \in Created(r) : SpentBy(r, c.id) = {} } }

\* balances: confirmed = outputs of the address; predicted = confirmed - spent by pending + paid by pending
Accr(s, u) == CoinHoursK(u.coins, u.hours, FromNat(u.time), FromNat(s.headTime))
SumCoinsOf(us) == LET q == SetToSeq(us) IN SumSeq([i \in DOMAIN q |-> q[i].coins])
SumHoursOf(s, us) == LET q == SetToSeq(us) IN SumSeq([i \in DOMAIN q |-> Accr(s, q[i]).r])
\* a pending transaction counts in predictions only while all its inputs are still unspent
Live(r, s) == { i \in DOMAIN r.pool : Rng(r.pool[i].ins) \subseteq Ids(s.unspent) }
PoolIns(r) == LET s == [unspent |-> UxSet(r.st)] IN UNION { Rng(r.pool[i].ins) : i \in Live(r, s) }
Incoming(r, s, a) == UNION { { [id |-> r.pool[i].outs[k].id, addr |-> a, coins |-> r.pool[i].outs[k].coins, hours |-> r.pool[i].outs[k].hours, time |-> s.headTime]
                               : k \in { j \in DOMAIN r.pool[i].outs : r.pool[i].outs[j].addr = a } } : i \in Live(r, s) }

PagesOK(pg) ==
  LET n == Len(pg.unpaged)
      np == (n + pg.size - 1) \div pg.size
  IN /\ Len(pg.pages) = np + 2
     /\ FlattenSeq(pg.pages) = pg.unpaged                                  \* pages 1..N cover the list exactly once, in order
     /\ \A k \in 1..np : Len(pg.pages[k]) = (IF k < np THEN pg.size ELSE n - (np - 1) * pg.size)
     /\ pg.pages[np + 1] = << >> /\ pg.pages[np + 2] = << >>                \* pages beyond N are empty
     /\ \A k \in DOMAIN pg.totals : pg.totals[k] = np                      \* the reported page count is N
     /\ NoDupSeq(pg.unpaged)

\* every clause that fails (so that one recorded finding does not hide another clause)
Reasons(r) ==
  LET s == [headTime |-> r.st.headTime, unspent |-> UxSet(r.st)]
      addrsQ == Rng(r.addrs)
      Mine(a) == { u \in s.unspent : u.addr = a }
      Pred(a) == { u \in Mine(a) : u.id \notin PoolIns(r) } \cup Incoming(r, s, a)
      lastK == IF r.lastN < Len(r.chain) THEN r.lastN ELSE Len(r.chain)
      C(bad, name) == IF bad THEN name ELSE "ok"
  IN
  IF Len(r.errs) > 0 THEN [i \in DOMAIN r.errs |-> "C07:query-failed:" \o r.errs[i]]
  ELSE SelectSeq(<<
    C(Len(r.chain) # r.st.headSeq + 1 \/ \E b \in DOMAIN r.chain : r.chain[b].seq # b - 1, "C07:block-by-seq"),
    C(Ids(s.unspent) # ExpectedUnspentIds(r), "C07:unspent-vs-chain"),
    C(\E i \in DOMAIN r.unspentsOf : Rng(r.unspentsOf[i].ids) # { u.id : u \in Mine(r.unspentsOf[i].addr) }, "C07:address-index"),
    C(r.addrCount # Cardinality({ u.addr : u \in s.unspent }), "C07:address-count"),
    C(~r.uxhashOK, "C07:unspent-checksum"),
    C(\E i \in DOMAIN r.uxouts :
        LET x == r.uxouts[i] sp == SpentBy(r, x.id) IN
          \/ x.known # (x.id \in { c.id : c \in Created(r) })
          \/ (x.known /\ sp = {} /\ (x.spentSeq # 0 \/ x.spentTxn # ""))
          \/ (x.known /\ sp # {} /\ (x.spentSeq # (CHOOSE y \in sp : TRUE).seq \/ x.spentTxn # (CHOOSE y \in sp : TRUE).t.hash)), "C07:history-spent-by"),
    C(Rng(r.txAddrConf) # ConfirmedFor(r, addrsQ), "C07:history-address-transactions"),
    C(Rng(r.txAll) # { x.t.hash : x \in ChainTxns(r) } \cup { r.pool[i].hash : i \in DOMAIN r.pool }, "C07:transactions-all"),
    C(Rng(r.txAddrUnc) # PoolFor(r, addrsQ),
      IF Rng(r.txAddrUnc) = PoolPaying(r, addrsQ) THEN "C07:pending-spends-of-address-not-listed" ELSE "C07:pending-address-transactions"),
    C(Rng(r.txAddr) # ConfirmedFor(r, addrsQ) \cup Rng(r.txAddrUnc), "C07:address-transactions-union"),
    C(\E i \in DOMAIN r.balances : LET b == r.balances[i] IN b.cc # SumCoinsOf(Mine(b.addr)) \/ b.ch # SumHoursOf(s, Mine(b.addr)), "C07:balance-confirmed"),
    C(\E i \in DOMAIN r.balances : LET b == r.balances[i] IN Mine(b.addr) # {} /\ (b.pc # SumCoinsOf(Pred(b.addr)) \/ b.ph # SumHoursOf(s, Pred(b.addr))), "C07:balance-predicted"),
    C(\E i \in DOMAIN r.balances : LET b == r.balances[i] IN Mine(b.addr) = {} /\ (b.pc # SumCoinsOf(Pred(b.addr)) \/ b.ph # SumHoursOf(s, Pred(b.addr))),
      "C07:balance-predicted-of-address-without-confirmed-outputs"),
    C(r.blocksLast # [k \in 1..lastK |-> r.chain[Len(r.chain) - lastK + k].hash], "C07:last-blocks"),
    C(Rng(r.blocksRange) # { r.chain[b].hash : b \in { c \in DOMAIN r.chain : r.chain[c].seq >= r.rangeFrom /\ r.chain[c].seq <= r.rangeTo } }, "C07:blocks-in-range"),
    C(\E i \in DOMAIN r.paged : ~PagesOK(r.paged[i]), "C29:pages")
  >>, LAMBDA x : x # "ok")

Conforms == LET xs == Reasons(Recs[l]) IN xs = << >> \/ \A i \in DOMAIN xs : PrintT(<<"MISMATCH", "rec", l, Recs[l].phase, xs[i]>>)
=============================================================================
