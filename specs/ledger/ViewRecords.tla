------------------------------ MODULE ViewRecords ------------------------------
(***************************************************************************)
(* C07 (and the paging of C29 on a real node): every query view is DERIVED *)
(* here from the accepted chain (as read back block by block), the unspent *)
(* projection and the unconfirmed pool, and compared with what the real    *)
(* node answered.  Every line of views.ndjson is one observation point     *)
(* (one initial state); the same derivations must hold after the derived   *)
(* data was dropped and rebuilt at a restart (phase "rebuilt-...").        *)
(***************************************************************************)
EXTENDS Ledger, SequencesExt, Json, TLC

Recs == ndJsonDeserialize("views.ndjson")
VARIABLE l
Init == l \in 1..Len(Recs)
Next == UNCHANGED l

UxSet(p) == { [id |-> p.unspent[i].id, addr |-> p.unspent[i].addr, coins |-> p.unspent[i].coins, hours |-> p.unspent[i].hours, time |-> p.unspent[i].time] : i \in DOMAIN p.unspent }

\* ---- what follows directly from the chain ----
ChainTxns(r) == UNION { { [seq |-> r.chain[b].seq, t |-> r.chain[b].txns[i]] : i \in DOMAIN r.chain[b].txns } : b \in DOMAIN r.chain }
Created(r) == UNION { { [id |-> x.t.outs[i].id, addr |-> x.t.outs[i].addr, coins |-> x.t.outs[i].coins, hours |-> x.t.outs[i].hours] : i \in DOMAIN x.t.outs } : x \in ChainTxns(r) }
SpentBy(r, id) == { x \in ChainTxns(r) : id \in Rng(x.t.ins) }
OwnerOf(r, id) == LET c == { o \in Created(r) : o.id = id } IN IF c = {} THEN "?" ELSE (CHOOSE o \in c : TRUE).addr
Touches(r, t, addrs) == (\E i \in DOMAIN t.outs : t.outs[i].addr \in addrs) \/ (\E i \in DOMAIN t.ins : OwnerOf(r, t.ins[i]) \in addrs)
ConfirmedFor(r, addrs) == { x.t.hash : x \in { y \in ChainTxns(r) : Touches(r, y.t, addrs) } }
PoolFor(r, addrs) == { r.pool[i].hash : i \in { j \in DOMAIN r.pool : Touches(r, r.pool[j], addrs) } }
PoolPaying(r, addrs) == { r.pool[i].hash : i \in { j \in DOMAIN r.pool : \E k \in DOMAIN r.pool[j].outs : r.pool[j].outs[k].addr \in addrs } }
SeqOfHash(r, h) == LET c == { x \in ChainTxns(r) : x.t.hash = h } IN IF c = {} THEN 1000000 ELSE (CHOOSE x \in c : TRUE).seq

\* the unspent set is what the chain created minus what it spent
ExpectedUnspentIds(r) == { o.id : o \in { c \in Created(r) : SpentBy(r, c.id) = {} } }

\* balances: confirmed = outputs of the address; predicted = confirmed - spent by pending + paid by pending
Accr(s, u) == CoinHoursK(u.coins, u.hours, FromNat(u.time), FromNat(s.headTime))
SumCoinsOf(us) == LET q == SetToSeq(us) IN SumSeq([i \in DOMAIN q |-> q[i].coins])
SumHoursOf(s, us) == LET q == SetToSeq(us) IN SumSeq([i \in DOMAIN q |-> Accr(s, q[i]).r])
\* a pending transaction counts in predictions only while all its inputs are still unspent
Live(r, s) == { i \in DOMAIN r.pool : Rng(r.pool[i].ins) \subseteq Ids(s.unspent) }
PoolIns(r) == LET s == [unspent |-> UxSet(r.st)] IN UNION { Rng(r.pool[i].ins) : i \in Live(r, s) }
Incoming(r, s, a) == UNION { { [id |-> r.pool[i].outs[k].id, addr |-> a, coins |-> r.pool[i].outs[k].coins, hours |-> r.pool[i].outs[k].hours, time |-> s.headTime]
                               : k \in { j \in DOMAIN r.pool[i].outs : r.pool[i].outs[j].addr = a } } : i \in Live(r, s) }

\* ---- further views: verbose block queries, single-transaction status, pool queries, outputs summary, rich list ----
CreatorSeq(r, id) == (CHOOSE x \in ChainTxns(r) : \E i \in DOMAIN x.t.outs : x.t.outs[i].id = id).seq
CreatedRec(r, id) == CHOOSE o \in Created(r) : o.id = id
\* an input as the verbose queries resolve it: the output it spends, with its hours as of time t
ExpIn(r, id, t) == LET o == CreatedRec(r, id)
                   IN [id |-> id, addr |-> o.addr, coins |-> o.coins, hours |-> o.hours,
                       calc |-> CoinHoursK(o.coins, o.hours, FromNat(r.chain[CreatorSeq(r, id) + 1].time), FromNat(t)).r]
ExpIns(r, ins, t) == [i \in DOMAIN ins |-> ExpIn(r, ins[i], t)]
\* a confirmed transaction's inputs are valued at the time of the block BEFORE its own (the head it was judged against)
ExpVBlock(r, b) == [hash |-> b.hash,
                    txns |-> [i \in DOMAIN b.txns |-> [hash |-> b.txns[i].hash,
                                                        ins |-> IF b.seq = 0 THEN << >> ELSE ExpIns(r, b.txns[i].ins, r.chain[b.seq].time)]]]
ExpVBlocks(r, bs) == [i \in DOMAIN bs |-> ExpVBlock(r, bs[i])]
PoolHashes(r) == { r.pool[i].hash : i \in DOMAIN r.pool }
PoolTxn(r, h) == r.pool[CHOOSE i \in DOMAIN r.pool : r.pool[i].hash = h]
ChainTxn(r, h) == CHOOSE x \in ChainTxns(r) : x.t.hash = h
StatusOK(r, st) ==
  LET inPool == st.hash \in PoolHashes(r)
      inChain == \E x \in ChainTxns(r) : x.t.hash = st.hash
  IN /\ st.found = (inPool \/ inChain)
     /\ inPool => /\ ~st.confirmed /\ st.height = 0 /\ st.blockSeq = 0
                   /\ st.verbose => st.ins = ExpIns(r, PoolTxn(r, st.hash).ins, r.st.headTime)
     /\ (~inPool /\ inChain) =>
           LET x == ChainTxn(r, st.hash)
           IN /\ st.confirmed /\ st.blockSeq = x.seq /\ st.height = r.st.headSeq - x.seq + 1 /\ st.time = r.chain[x.seq + 1].time
              /\ st.verbose => st.ins = (IF x.seq = 0 THEN << >> ELSE ExpIns(r, x.t.ins, r.chain[x.seq].time))
CoinsOfAddr(s, a) == SumCoinsOf({ u \in s.unspent : u.addr = a })
RichOK(rl, s, excluded, locked) ==
  /\ { rl[i].addr : i \in DOMAIN rl } = { u.addr : u \in s.unspent } \ excluded
  /\ NoDupSeq([i \in DOMAIN rl |-> rl[i].addr])
  /\ \A i \in DOMAIN rl : rl[i].coins = CoinsOfAddr(s, rl[i].addr) /\ rl[i].locked = (rl[i].addr \in locked)
  /\ \A i \in DOMAIN rl : i > 1 => Le(rl[i].coins, rl[i - 1].coins)                 \* richest first
  /\ \A i \in DOMAIN rl : i > 1 /\ rl[i].coins = rl[i - 1].coins /\ rl[i].locked => rl[i - 1].locked   \* ties: locked first

PagesOK(pg) ==
  LET n == Len(pg.unpaged)
      np == (n + pg.size - 1) \div pg.size
  IN /\ Len(pg.pages) = np + 2
     /\ FlattenSeq(pg.pages) = pg.unpaged                                  \* pages 1..N cover the list exactly once, in order
     /\ \A k \in 1..np : Len(pg.pages[k]) = (IF k < np THEN pg.size ELSE n - (np - 1) * pg.size)
     /\ pg.pages[np + 1] = << >> /\ pg.pages[np + 2] = << >>                \* pages beyond N are empty
     /\ \A k \in DOMAIN pg.totals : pg.totals[k] = np                      \* the reported page count is N
     /\ NoDupSeq(pg.unpaged)

\* every clause that fails (so that one recorded finding does not hide another clause)
Reasons(r) ==
  LET s == [headTime |-> r.st.headTime, unspent |-> UxSet(r.st)]
      addrsQ == Rng(r.addrs)
      Mine(a) == { u \in s.unspent : u.addr = a }
      Pred(a) == { u \in Mine(a) : u.id \notin PoolIns(r) } \cup Incoming(r, s, a)
      lastK == IF r.lastN < Len(r.chain) THEN r.lastN ELSE Len(r.chain)
      C(bad, name) == IF bad THEN name ELSE "ok"
      m == r.more
  IN
  IF Len(r.errs) > 0 THEN [i \in DOMAIN r.errs |-> "C07:query-failed:" \o r.errs[i]]
  ELSE IF Len(r.more.errs) > 0 THEN [i \in DOMAIN r.more.errs |-> "C07:query-failed:" \o r.more.errs[i]]
  ELSE SelectSeq(<<
    C(Len(r.chain) # r.st.headSeq + 1 \/ \E b \in DOMAIN r.chain : r.chain[b].seq # b - 1, "C07:block-by-seq"),
    C(Ids(s.unspent) # ExpectedUnspentIds(r), "C07:unspent-vs-chain"),
    C(\E i \in DOMAIN r.unspentsOf : Rng(r.unspentsOf[i].ids) # { u.id : u \in Mine(r.unspentsOf[i].addr) }, "C07:address-index"),
    C(r.addrCount # Cardinality({ u.addr : u \in s.unspent }), "C07:address-count"),
    C(~r.uxhashOK, "C07:unspent-checksum"),
    C(\E i \in DOMAIN r.uxouts :
        LET x == r.uxouts[i] sp == SpentBy(r, x.id) IN
          \/ x.known # (x.id \in { c.id : c \in Created(r) })
          \/ (x.known /\ sp = {} /\ (x.spentSeq # 0 \/ x.spentTxn # ""))
          \/ (x.known /\ sp # {} /\ (x.spentSeq # (CHOOSE y \in sp : TRUE).seq \/ x.spentTxn # (CHOOSE y \in sp : TRUE).t.hash)), "C07:history-spent-by"),
    C(Rng(r.txAddrConf) # ConfirmedFor(r, addrsQ), "C07:history-address-transactions"),
    C(Rng(r.txAll) # { x.t.hash : x \in ChainTxns(r) } \cup { r.pool[i].hash : i \in DOMAIN r.pool }, "C07:transactions-all"),
    C(Rng(r.txAddrUnc) # PoolFor(r, addrsQ),
      IF Rng(r.txAddrUnc) = PoolPaying(r, addrsQ) THEN "C07:pending-spends-of-address-not-listed" ELSE "C07:pending-address-transactions"),
    C(Rng(r.txAddr) # ConfirmedFor(r, addrsQ) \cup Rng(r.txAddrUnc), "C07:address-transactions-union"),
    C(\E i \in DOMAIN r.balances : LET b == r.balances[i] IN b.cc # SumCoinsOf(Mine(b.addr)) \/ b.ch # SumHoursOf(s, Mine(b.addr)), "C07:balance-confirmed"),
    C(\E i \in DOMAIN r.balances : LET b == r.balances[i] IN Mine(b.addr) # {} /\ (b.pc # SumCoinsOf(Pred(b.addr)) \/ b.ph # SumHoursOf(s, Pred(b.addr))), "C07:balance-predicted"),
    C(\E i \in DOMAIN r.balances : LET b == r.balances[i] IN Mine(b.addr) = {} /\ (b.pc # SumCoinsOf(Pred(b.addr)) \/ b.ph # SumHoursOf(s, Pred(b.addr))),
      "C07:balance-predicted-of-address-without-confirmed-outputs"),
    C(r.blocksLast # [k \in 1..lastK |-> r.chain[Len(r.chain) - lastK + k].hash], "C07:last-blocks"),
    C(Rng(r.blocksRange) # { r.chain[b].hash : b \in { c \in DOMAIN r.chain : r.chain[c].seq >= r.rangeFrom /\ r.chain[c].seq <= r.rangeTo } }, "C07:blocks-in-range"),
    C(\E i \in DOMAIN r.paged : ~PagesOK(r.paged[i]), "C29:pages"),
    \* block queries
    C(m.bySeqs # [i \in DOMAIN m.seqs |-> r.chain[m.seqs[i] + 1].hash], "C07:blocks-by-sequence-list"),
    C(~m.missingSeqErr, "C07:block-beyond-the-head-answered"),
    C(m.since # [k \in 1..(IF m.sinceSeq >= r.st.headSeq THEN 0 ELSE IF r.st.headSeq - m.sinceSeq < m.sinceCt THEN r.st.headSeq - m.sinceSeq ELSE m.sinceCt)
                   |-> r.chain[m.sinceSeq + 1 + k].hash], "C07:blocks-since"),
    C(m.metaHeadSeq # r.st.headSeq \/ m.metaHeadHash # r.chain[Len(r.chain)].hash, "C07:head-block-query"),
    C(m.vRange # ExpVBlocks(r, SelectSeq(r.chain, LAMBDA b : b.seq >= m.vFrom /\ b.seq <= m.vTo)), "C07:blocks-in-range-verbose"),
    C(m.vLast # ExpVBlocks(r, LET k == IF m.vLastN < Len(r.chain) THEN m.vLastN ELSE Len(r.chain) IN SubSeq(r.chain, Len(r.chain) - k + 1, Len(r.chain))),
      "C07:last-blocks-verbose"),
    C(\E i \in DOMAIN m.byHash :
        LET x == m.byHash[i] c == { b \in Rng(r.chain) : b.hash = x.asked } IN
          \/ x.found # (c # {})
          \/ (x.found /\ x.block # (IF x.verbose THEN ExpVBlock(r, CHOOSE b \in c : TRUE) ELSE [hash |-> x.asked, txns |-> << >>])), "C07:block-by-hash"),
    C(\E i \in DOMAIN m.bySeqV :
        LET x == m.bySeqV[i] IN
          \/ x.found # (x.seq <= r.st.headSeq)
          \/ (x.found /\ x.block # ExpVBlock(r, r.chain[x.seq + 1])), "C07:block-by-seq-verbose"),
    C(\E i \in DOMAIN m.oneBySeq :
        LET x == m.oneBySeq[i] IN
          IF x.seq <= r.st.headSeq THEN ~x.found \/ x.refused \/ x.block.hash # r.chain[x.seq + 1].hash ELSE x.found, "C07:get-block"),
    C(m.seqsV # ExpVBlocks(r, [i \in DOMAIN m.seqs |-> r.chain[m.seqs[i] + 1]]), "C07:blocks-by-sequence-list-verbose"),
    C(\E i \in DOMAIN m.lookup :
        LET x == m.lookup[i] IN
          \/ x.confirmed # (\E y \in ChainTxns(r) : y.t.hash = x.hash)
          \/ x.pending # (x.hash \in PoolHashes(r)), "C07:transaction-lookup"),
    \* transaction history: the status of single transactions
    C(\E i \in DOMAIN m.status : ~StatusOK(r, m.status[i]), "C07:transaction-status"),
    \* not views of a listed property (NOTE lines only)
    C(m.metaUnspents # Cardinality(s.unspent) \/ m.metaPool # Len(r.pool), "X:metadata-counts"),
    C(Rng(m.validPool) # { e.hash : e \in { f \in Rng(m.poolFlags) : f.valid } } \/ ~NoDupSeq(m.validPool), "X:valid-pool-hashes"),
    C({ e.hash : e \in Rng(m.poolFlags) } # PoolHashes(r), "X:pool-listing"),
    C(Rng(m.known) # Rng(m.knownQ) \cap PoolHashes(r) \/ Rng(m.unknown) # Rng(m.knownQ) \ PoolHashes(r), "X:known-unknown-of-pool"),
    C(m.sumOK /\ (LET keep(a) == m.sumFilter = << >> \/ a \in Rng(m.sumFilter)
                   IN \/ Rng(m.sumConfirmed) # { u.id : u \in { v \in s.unspent : keep(v.addr) } }
                      \/ Rng(m.sumOutgoing) # { u.id : u \in { v \in s.unspent : keep(v.addr) /\ \E i \in DOMAIN r.pool : v.id \in Rng(r.pool[i].ins) } }
                      \/ Rng(m.sumIncoming) # UNION { { r.pool[i].outs[k].id : k \in { j \in DOMAIN r.pool[i].outs : keep(r.pool[i].outs[j].addr) } } : i \in DOMAIN r.pool }),
      "X:outputs-summary"),
    C(~m.sumOK /\ \A i \in DOMAIN r.pool : Rng(r.pool[i].ins) \subseteq Ids(s.unspent), "X:outputs-summary-failed-without-a-stale-pending-transaction"),
    C(m.poolVerboseOK /\ { [hash |-> m.poolVerbose[i].hash, ins |-> m.poolVerbose[i].ins] : i \in DOMAIN m.poolVerbose }
                          # { [hash |-> r.pool[i].hash, ins |-> ExpIns(r, r.pool[i].ins, r.st.headTime)] : i \in DOMAIN r.pool }, "X:pool-verbose"),
    C(Rng(m.paying) # PoolPaying(r, Rng(m.payQ)), "X:pending-paying-addresses"),
    C(Rng(m.recv) # UNION { { r.pool[i].outs[k].id : k \in { j \in DOMAIN r.pool[i].outs : r.pool[i].outs[j].addr \in Rng(m.recvQ) } } : i \in DOMAIN r.pool }
      \/ ~NoDupSeq(m.recv), "X:pending-outputs-to-addresses"),
    C(m.spendsOK /\ Rng(m.spends) # { u.id : u \in { v \in s.unspent : v.addr \in Rng(m.payQ) /\ \E i \in DOMAIN r.pool : v.id \in Rng(r.pool[i].ins) } }, "X:pending-spends-of-addresses"),
    C(m.richOK /\ (~RichOK(m.richAll, s, {}, Rng(m.lockedAddrs)) \/ ~RichOK(m.richNoDist, s, Rng(m.distAddrs), Rng(m.lockedAddrs))), "X:rich-list")
  >>, LAMBDA x : x # "ok")

Conforms == LET xs == Reasons(Recs[l]) IN xs = << >> \/ \A i \in DOMAIN xs : PrintT(<<"MISMATCH", "rec", l, Recs[l].phase, xs[i]>>)
=============================================================================
