SPECIFICATION Spec
CONSTANTS MaxBlocks = 3
  Volume = 3
INVARIANTS Supply CreatedMinusSpent NoZeroOutputs
PROPERTIES NoDoubleSpend ExtendsHead
CHECK_DEADLOCK FALSE
