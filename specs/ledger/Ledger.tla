-------------------------------- MODULE Ledger --------------------------------
(***************************************************************************)
(* The ledger of one node: a chain of signed blocks and the unspent output *)
(* set they induce (C01, C02, C03, C04).                                   *)
(*                                                                         *)
(* Abstract state s:                                                       *)
(*   len, headSeq, headTime, headHash, genesisHash, uxhash                 *)
(*   unspent : set of [id, addr, coins, hours, time] (coins/hours: BigNat) *)
(*   pool    : set of transaction hashes in the unconfirmed pool            *)
(* A submitted block b is described by what it IS (hash, seq, time, prev,  *)
(* uxhash, transactions with their inputs/outputs) and by what the harness *)
(* did to it by construction (sigOK: signed with the publisher key over    *)
(* this header; bodyOK: header's body hash is the hash of the body;        *)
(* txn.sigsOK: every input signed by its owner over the inner hash).       *)
(* Functional core:  Valid(s, b)  and  Apply(s, b).                        *)
(***************************************************************************)
EXTENDS Fn, FiniteSets

Ids(rs) == { r.id : r \in rs }
Rng(f) == { f[i] : i \in DOMAIN f }
\* exact sum of field values over a sequence
SumBy(seq, F(_)) == SumSeq([i \in DOMAIN seq |-> F(seq[i])])
NoDupSeq(q) == \A i, j \in DOMAIN q : i # j => q[i] # q[j]

Ux(s, id) == CHOOSE u \in s.unspent : u.id = id

\* hours an input has accrued at the head time: [k |-> "ok" | "add" | "mult", r]
AccruedK(s, id) == LET u == Ux(s, id) IN CoinHoursK(u.coins, u.hours, FromNat(u.time), FromNat(s.headTime))

\* everything but the coin-hour rule (the same inside a block and for a single transaction)
TxnShapeValid(s, t) ==
  /\ t.sigsOK
  /\ Len(t.ins) > 0 /\ Len(t.outs) > 0
  /\ NoDupSeq(t.ins)
  /\ \A i \in DOMAIN t.ins : t.ins[i] \in Ids(s.unspent)                 \* every input is unspent at the head
  /\ NoDupSeq([i \in DOMAIN t.outs |-> t.outs[i].id])
  /\ \A i \in DOMAIN t.outs : t.outs[i].coins # Zero
  /\ \A i \in DOMAIN t.outs : t.outs[i].id \notin Ids(s.unspent)         \* a new output never collides
  /\ LET cin  == SumBy(t.ins, LAMBDA id : Ux(s, id).coins)
         cout == SumBy(t.outs, LAMBDA o : o.coins)
     IN FitsU64(cout) /\ cin = cout                                      \* coins are neither created nor destroyed

HoursOut(t) == SumBy(t.outs, LAMBDA o : o.hours)                         \* exact, never wrapping

\* C03 inside a block: the outputs' hours do not exceed what the inputs have accrued at the previous block's
\* time; the one documented legacy exception: an input whose final addition overflows counts as zero
HoursValidInBlock(s, t) ==
  /\ \A i \in DOMAIN t.ins : AccruedK(s, t.ins[i]).k # "mult"
  /\ LET hin == SumBy(t.ins, LAMBDA id : AccruedK(s, id).r)
     IN FitsU64(hin) /\ Le(HoursOut(t), hin)

\* C03 for a new unconfirmed transaction: no legacy exception, and output hours that overflow are refused
HoursValidSingle(s, t) ==
  /\ \A i \in DOMAIN t.ins : AccruedK(s, t.ins[i]).k = "ok"
  /\ LET hin == SumBy(t.ins, LAMBDA id : AccruedK(s, id).r)
     IN FitsU64(hin) /\ FitsU64(HoursOut(t)) /\ Le(HoursOut(t), hin)

TxnValid(s, t) == TxnShapeValid(s, t) /\ HoursValidInBlock(s, t)
TxnValidSingle(s, t) == TxnShapeValid(s, t) /\ HoursValidSingle(s, t)

AllIns(b) == UNION { Rng(b.txns[i].ins) : i \in DOMAIN b.txns }
AllOuts(b) == UNION { Rng(b.txns[i].outs) : i \in DOMAIN b.txns }

Valid(s, b) ==
  /\ b.sigOK                                     \* signed by the publisher over exactly this header
  /\ b.hash # s.genesisHash                      \* a second genesis is refused
  /\ b.seq = s.headSeq + 1
  /\ b.time > s.headTime
  /\ b.prev = s.headHash                         \* names the current head as its parent
  /\ b.bodyOK
  /\ Len(b.txns) > 0
  /\ \A i \in DOMAIN b.txns : TxnValid(s, b.txns[i])
  /\ \A i, j \in DOMAIN b.txns : i # j => Rng(b.txns[i].ins) \cap Rng(b.txns[j].ins) = {}   \* no output spent twice in a block
  /\ \A i, j \in DOMAIN b.txns : i # j => Ids(Rng(b.txns[i].outs)) \cap Ids(Rng(b.txns[j].outs)) = {}
  /\ b.uxhash = s.uxhash                         \* unspent-set checksum of the current head

\* the successor (the new checksum is an opaque hash: taken from the observation)
Apply(s, b, newUxHash) ==
  [s EXCEPT !.len = s.len + 1, !.headSeq = b.seq, !.headTime = b.time, !.headHash = b.hash, !.uxhash = newUxHash,
            !.unspent = { u \in s.unspent : u.id \notin AllIns(b) }
                         \cup { [id |-> o.id, addr |-> o.addr, coins |-> o.coins, hours |-> o.hours, time |-> b.time] : o \in AllOuts(b) },
            !.pool = s.pool \ { b.txns[i].hash : i \in DOMAIN b.txns }]

RECURSIVE SumCoins(_)
SumCoins(us) == IF us = {} THEN Zero ELSE LET u == CHOOSE x \in us : TRUE IN Add(u.coins, SumCoins(us \ {u}))
\* C01: the unspent set always holds exactly the genesis coin volume
SupplyOK(s, volume) == SumCoins(s.unspent) = volume
=============================================================================
