SPECIFICATION Spec
CONSTANTS MaxBlocks = 1
  MaxPool = 2
INVARIANTS Good Supply
CHECK_DEADLOCK FALSE
