SPECIFICATION Spec
CONSTANTS MaxBlocks = 2
  MaxPool = 2
INVARIANTS Good Supply
CHECK_DEADLOCK FALSE
