------------------------------ MODULE TxnRecords ------------------------------
(***************************************************************************)
(* Record oracle for the transaction-level functions: every line of        *)
(* recs.ndjson is one call of a REAL function (harness/txnrec); each       *)
(* record is one initial state and Conforms evaluates TxnRules on it.      *)
(***************************************************************************)
EXTENDS TxnRules, Json, TLC

Recs == ndJsonDeserialize("recs.ndjson")
VARIABLE l
Init == l \in 1..Len(Recs)
Next == UNCHANGED l

UxSetOf(q) == { [id |-> q[i].id, addr |-> q[i].addr, coins |-> q[i].coins, hours |-> q[i].hours, time |-> q[i].time] : i \in DOMAIN q }

Reason(r) ==
  CASE r.fn = "verify" ->
         IF r.panic THEN "panic"
         ELSE IF (r.res = "ok") # WellFormed(r) THEN (IF WellFormed(r) THEN "wellformed-rejected" ELSE "malformed-accepted")
         ELSE "ok"
    [] r.fn = "decode" ->
         IF r.panic THEN "panic" ELSE IF r.decoded /\ ~r.reencEq THEN "decoded-but-not-canonical" ELSE "ok"
    [] r.fn = "soft" ->
         LET s == [headTime |-> r.st.headTime, unspent |-> UxSetOf(r.st.unspent)]
             t == [size |-> r.size, ins |-> r.ins, outs |-> r.outs]
             ok == SoftAlone(s, t, [burn |-> r.p.burn, maxSize |-> r.p.maxSize, prec |-> r.p.prec], Rng(r.locked))
         IN IF r.panic THEN "panic"
            ELSE IF r.res \notin {"ok", "soft"} THEN "soft-failure-reported-as-" \o r.res
            ELSE IF (r.res = "ok") # ok THEN (IF ok THEN "admissible-rejected" ELSE "inadmissible-accepted")
            ELSE "ok"
    \* C10: a third party (no keys) changed the bytes of a valid signed object: it must not be accepted in the same role
    [] r.fn = "malleate" -> IF r.panic THEN "panic" ELSE IF r.accepted /\ r.changed THEN "changed-object-accepted"
                            ELSE IF ~r.changed /\ ~r.accepted /\ r.how = "none" THEN "unchanged-object-refused" ELSE "ok"
    \* C10: only low-s signatures with a recovery id below 4 are ever produced
    [] r.fn = "produced" -> IF r.lowS /\ r.recid >= 0 /\ r.recid < 4 THEN "ok" ELSE "non-canonical-signature-produced"
    [] r.fn = "create" -> CreateVerdict(r)
    [] r.fn = "sign" -> SignVerdict(r)
    [] OTHER -> "unknown-record"

Conforms == LET x == Reason(Recs[l]) IN x = "ok" \/ PrintT(<<"MISMATCH", "rec", l, Recs[l].fn, x>>)
=============================================================================
