-------------------------------- MODULE MCPaging --------------------------------
(***************************************************************************)
(* C29 on the definitions themselves: for every list length and page size  *)
(* in the bounds, pages 1..N of PageBounds concatenate to the list exactly *)
(* once, N is the reported page count, and pages beyond N are empty.       *)
(* A cursor walks the pages (one action per page fetch, as a client does). *)
(***************************************************************************)
EXTENDS Fn, TLC
CONSTANTS MaxN, MaxSize

VARIABLES n, size, page, got
vars == <<n, size, page, got>>

Total(nn, sz) == (nn + sz - 1) \div sz
Slice(nn, sz, p) == LET b == PageBounds(FromNat(nn), FromNat(sz), FromNat(p))
                    IN [i \in 1..(ToNat(b.end) - ToNat(b.start)) |-> ToNat(b.start) + i]

Init == n \in 0..MaxN /\ size \in 1..MaxSize /\ page = 1 /\ got = << >>
Fetch == /\ page <= Total(n, size) + 2
         /\ got' = got \o Slice(n, size, page)
         /\ page' = page + 1
         /\ UNCHANGED <<n, size>>
Next == Fetch
Spec == Init /\ [][Next]_vars

TotalAgrees == TotalPagesIs(FromNat(Total(n, size)), FromNat(n), FromNat(size))
\* what has been fetched so far is a prefix of the list, in order, without repeats
PrefixSoFar == got = [i \in 1..Len(got) |-> i] /\ Len(got) <= n
\* after page N everything has been delivered; later pages add nothing
CoveredAfterN == page > Total(n, size) => got = [i \in 1..n |-> i]
FullPagesBeforeN == page <= Total(n, size) => Len(got) = size * (page - 1)
=============================================================================
