------------------------------- MODULE FnRecords -------------------------------
(***************************************************************************)
(* Record oracle: every line of recs.ndjson is one call of the REAL Go     *)
(* function with its arguments and its result (64-bit values as BigNat     *)
(* limb arrays).  Every record is one initial state; the invariant         *)
(* compares the logged result with the definition in Fn.tla.               *)
(***************************************************************************)
EXTENDS Fn, Json, TLC

Recs == ndJsonDeserialize("recs.ndjson")
VARIABLE l
Init == l \in 1..Len(Recs)
Next == UNCHANGED l

Same(x, r) == x.err = r.err /\ (~x.err => x.r = r.r)

RecOK(r) ==
  CASE r.fn = "add64"  -> Same(AddU64(r.a, r.b), r)
    [] r.fn = "mul64"  -> Same(MulU64(r.a, r.b), r)
    [] r.fn = "add32"  -> Same(AddU32(r.a, r.b), r)
    [] r.fn = "u2i"    -> Same(U64ToI64(r.a), r)
    [] r.fn = "i2u"    -> Same(I64ToU64(r.neg, r.a), r)
    [] r.fn = "int2u32" -> Same(IntToU32(r.neg, r.a), r)
    [] r.fn = "reqfee" -> IsRequiredFee(r.r, r.a, r.b)
    [] r.fn = "remaining" -> IsRemaining(r.r, r.a, r.b)
    [] r.fn = "verifyfee" -> VerifyFee(r.a, r.fee, r.b) = r.res
    [] r.fn = "coinhours" -> Same(CoinHours(r.coins, r.hours, r.uxtime, r.t), r)
    [] r.fn = "cal" ->
         IF r.size = Zero \/ r.page = Zero THEN r.err
         ELSE /\ ~r.err
              /\ TotalPagesIs(r.total, r.n, r.size)
              /\ LET b == PageBounds(r.n, r.size, r.page) IN r.start = b.start /\ r.end = b.end
    [] r.fn = "paginate" ->
         \* items are 1..n in list order; the page must be the consecutive slice
         LET b == PageBounds(r.n, r.size, r.page)
             s == ToNat(b.start)
             e == ToNat(b.end)
         IN /\ ~r.err
            /\ r.items = [i \in 1..(e - s) |-> s + i]
            /\ TotalPagesIs(r.total, r.n, r.size)
    [] OTHER -> FALSE

Conforms == RecOK(Recs[l]) \/ PrintT(<<"MISMATCH", "rec", l, Recs[l].fn>>)
=============================================================================
