SPECIFICATION Spec
CONSTANTS MaxN = 25
  MaxSize = 7
INVARIANTS TotalAgrees PrefixSoFar CoveredAfterN FullPagesBeforeN
CHECK_DEADLOCK FALSE
