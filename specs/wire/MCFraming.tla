------------------------------- MODULE MCFraming -------------------------------
(* Every well-formed stream (up to MaxMsgs messages over a small byte alphabet), optionally     *)
(* followed by a frame with an invalid length, under EVERY way of splitting it into reads.      *)
EXTENDS FramingSM, TLC
CONSTANTS MaxMsgs, Bodies
VARIABLES msgs, bad      \* history: the messages that were framed; whether a bad frame follows

MCBodies == { <<1, 2, 3, 4>>, <<5, 6, 7, 8, 0>>, <<4, 0, 0, 0, 1, 1>> }   \* the last body looks like a frame itself
RECURSIVE Concat(_)
Concat(ss) == IF Len(ss) = 0 THEN << >> ELSE Frame(Head(ss)) \o Concat(Tail(ss))

BadTails == { << >>, Prefix(3) \o <<9, 9>>, Prefix(MaxLen + 1) \o <<9>>, <<0, 0, 0, 1, 9>> }
SeqsUpTo(S, n) == UNION { [1..k -> S] : k \in 0..n }

Init ==
  /\ msgs \in SeqsUpTo(Bodies, MaxMsgs)
  /\ bad \in BadTails
  /\ rest = Concat(msgs) \o bad
  /\ buf = << >> /\ delivered = << >> /\ closed = FALSE
Next == (\E k \in 1..Len(rest) : Read(k)) /\ UNCHANGED <<msgs, bad>>
Spec == Init /\ [][Next]_<<fvars, msgs, bad>>

IsPrefixOf(a, b) == Len(a) <= Len(b) /\ a = SubSeq(b, 1, Len(a))
\* delivered messages are always a prefix of what was sent, in order
InOrder == IsPrefixOf(delivered, msgs)
\* a well-formed stream never disconnects, and when it has been read completely everything was delivered
WellFormedDelivered == (bad = << >>) => (~closed /\ (rest = << >> => delivered = msgs /\ buf = << >>))
\* a bad length disconnects as soon as the bad frame's prefix and one more byte have been read
BadDisconnects == (bad # << >> /\ rest = << >>) => closed
\* nothing of a message is delivered twice or lost while the connection is open
Conservation == ~closed => Concat(delivered) \o buf \o rest = Concat(msgs) \o bad
=============================================================================
