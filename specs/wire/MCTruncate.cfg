INIT Init
NEXT Next
CONSTANTS MaxItems = 5
  Sizes = {0, 1, 3}
  MaxLimit = 20
  Empty = 4
INVARIANTS ScanIsDefinition ScanLen Fits Longest
CHECK_DEADLOCK FALSE
