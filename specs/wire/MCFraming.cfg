SPECIFICATION Spec
CONSTANTS MaxLen = 6
  MaxMsgs = 3
  Bodies <- MCBodies
INVARIANTS InOrder WellFormedDelivered BadDisconnects Conservation
CHECK_DEADLOCK FALSE
