------------------------------- MODULE FramingSM -------------------------------
(* State machine of one connection's receive side; Read(k) is one socket read of k bytes. *)
EXTENDS Framing
\* ---- state machine of one connection ----
CONSTANT MaxLen
VARIABLES buf, delivered, closed, rest
fvars == <<buf, delivered, closed, rest>>

Read(k) ==
  /\ ~closed /\ k \in 1..Len(rest)
  /\ LET s == Step(buf, SubSeq(rest, 1, k), MaxLen) IN
       /\ rest' = SubSeq(rest, k + 1, Len(rest))
       /\ IF s.err = "none"
          THEN buf' = s.buf /\ delivered' = delivered \o s.out /\ closed' = FALSE
          ELSE buf' = s.buf /\ delivered' = delivered /\ closed' = TRUE
=============================================================================
