------------------------------- MODULE MCTruncate -------------------------------
(* C23 on the definitions: for every small item-size list, limit and item cap, the scan used by   *)
(* the record oracle equals the declarative "longest fitting prefix, capped", the result fits,   *)
(* and one more item would not (or there is none / the cap is reached).                          *)
EXTENDS Framing, TLC
CONSTANTS MaxItems, Sizes, MaxLimit, Empty
VARIABLES sizes, max, cap
Init == /\ sizes \in UNION { [1..n -> Sizes] : n \in 0..MaxItems }
        /\ max \in (4 + Empty)..MaxLimit
        /\ cap \in 0..MaxItems
Next == UNCHANGED <<sizes, max, cap>>
ScanIsDefinition == KeptScan(sizes, Empty, max, cap).k = KeptCount(sizes, Empty, max, cap)
ScanLen == LET s == KeptScan(sizes, Empty, max, cap) IN s.len = EncLen(sizes, Empty, s.k)
Fits == SendFits(KeptScan(sizes, Empty, max, cap).len, max)
Longest == LET k == KeptScan(sizes, Empty, max, cap).k IN
           k = MinOf(Len(sizes), cap) \/ ~SendFits(EncLen(sizes, Empty, k + 1), max)
=============================================================================
