-------------------------------- MODULE Framing --------------------------------
(***************************************************************************)
(* C22: the receiver side of the wire protocol (gnet readLoop/decodeData   *)
(* and convertToMessage).  A connection owns a byte buffer; every socket   *)
(* read appends a chunk and then extracts every complete frame             *)
(*     <4-byte little-endian length n> <n bytes: 4-byte id + body>         *)
(* A length below MinLen or above the configured maximum disconnects.      *)
(* Functional core Step(buf, chunk, max) is shared by the state machine    *)
(* in FramingSM.tla, the model-checking module and the record oracle.                  *)
(***************************************************************************)
EXTENDS Integers, Sequences

MinLen == 4          \* a message is at least its 4-byte id
PrefixSize == 4
Huge == 16777216     \* any length with a non-zero top byte is above every configured maximum (< 2^24)

PrefixVal(b) == IF b[4] > 0 THEN Huge ELSE b[1] + 256 * b[2] + 65536 * b[3]
Prefix(n) == <<n % 256, (n \div 256) % 256, (n \div 65536) % 256, 0>>
Frame(msg) == Prefix(Len(msg)) \o msg

RECURSIVE Extract(_, _, _)
Extract(buf, out, max) ==
  IF Len(buf) <= PrefixSize THEN [buf |-> buf, out |-> out, err |-> "none"]
  ELSE LET n == PrefixVal(buf) IN
       IF n < MinLen \/ n > max THEN [buf |-> buf, out |-> out, err |-> "invalid-length"]
       ELSE IF Len(buf) - PrefixSize < n THEN [buf |-> buf, out |-> out, err |-> "none"]
       ELSE Extract(SubSeq(buf, PrefixSize + n + 1, Len(buf)), Append(out, SubSeq(buf, PrefixSize + 1, PrefixSize + n)), max)

\* one socket read: every complete frame is delivered, in order; the incomplete rest stays buffered
Step(buf, chunk, max) == Extract(buf \o chunk, << >>, max)

\* a whole stream cut into reads of the given sizes: [delivered, err]
RECURSIVE RunStream(_, _, _, _, _)
RunStream(buf, stream, cuts, delivered, max) ==
  IF Len(cuts) = 0 \/ Len(stream) = 0 THEN [delivered |-> delivered, err |-> "none", buf |-> buf]
  ELSE LET k == IF Head(cuts) > Len(stream) THEN Len(stream) ELSE Head(cuts)
           s == Step(buf, SubSeq(stream, 1, k), max)
       IN IF s.err # "none" THEN [delivered |-> delivered, err |-> s.err, buf |-> s.buf]
          ELSE RunStream(s.buf, SubSeq(stream, k + 1, Len(stream)), Tail(cuts), delivered \o s.out, max)

\* dispatch of one delivered message (convertToMessage): what the harness built -> what must happen
\*   "valid"      a registered id followed by exactly one encoding of that message type
\*   "trailing"   valid followed by extra bytes            "truncated"  a strict prefix of valid that cuts the body
\*   "unknown-id" an id that is not registered             "short-id"   fewer than 4 bytes
Dispatch(kind) == IF kind = "valid" THEN "message" ELSE "disconnect"

\* ---- C23: building an outgoing list message under a size limit ----
\* id (4 bytes) + the empty message + the first k items
RECURSIVE SumFirst(_, _)
SumFirst(sizes, k) == IF k = 0 THEN 0 ELSE sizes[k] + SumFirst(sizes, k - 1)
EncLen(sizes, empty, k) == 4 + empty + SumFirst(sizes, k)
\* a message may be sent iff the receiver's length check (Extract) accepts it
SendFits(n, max) == n <= max
MinOf(a, b) == IF a <= b THEN a ELSE b
\* the longest prefix of the items that fits, capped by the message's item limit
KeptCount(sizes, empty, max, cap) ==
  CHOOSE k \in 0..MinOf(Len(sizes), cap) :
     /\ SendFits(EncLen(sizes, empty, k), max)
     /\ \A j \in (k + 1)..MinOf(Len(sizes), cap) : ~SendFits(EncLen(sizes, empty, j), max)

\* the same count computed by one left-to-right scan (sizes are naturals, so fitting is monotone in k);
\* MCTruncate checks KeptScan = KeptCount on every small case, the record oracle uses the scan
RECURSIVE Scan(_, _, _, _, _)
Scan(sizes, k, acc, budget, lim) ==
  IF k < lim /\ acc + sizes[k + 1] <= budget THEN Scan(sizes, k + 1, acc + sizes[k + 1], budget, lim)
  ELSE [k |-> k, len |-> acc]
KeptScan(sizes, empty, max, cap) == Scan(sizes, 0, 4 + empty, max, MinOf(Len(sizes), cap))
=============================================================================
