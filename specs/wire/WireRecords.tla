------------------------------ MODULE WireRecords ------------------------------
(* Record oracle for C22/C23: one record per call of the real code (see overlay/daemon/gnet). *)
EXTENDS Framing, Json, TLC

Recs == ndJsonDeserialize("recs.ndjson")
VARIABLE l
Init == l \in 1..Len(Recs)
Next == UNCHANGED l

RecOK(r) ==
  CASE r.fn = "decode" ->
         LET s == Step(r.pre, r.chunk, r.max) IN
         /\ s.err = r.err
         /\ (r.err = "none" => r.out = s.out /\ r.post = s.buf)
    [] r.fn = "stream" ->
         LET s == RunStream(<< >>, r.bytes, r.cuts, << >>, r.max) IN
         /\ s.err = r.err
         /\ (r.err = "none" => r.delivered = s.delivered)
    [] r.fn = "convert" -> r.res = Dispatch(r.kind)
    [] r.fn = "fuzz" -> r.res \in {"message", "disconnect"} /\ (r.res = "message" => r.canonical)
    [] r.fn = "trunc" ->
         LET s == KeptScan(r.sizes, r.empty, r.max, r.cap) IN
         /\ r.kept = s.k
         /\ r.enc = s.len
         /\ SendFits(r.enc, r.max)
    [] r.fn = "send" -> (r.res = "sent") = SendFits(r.len, r.max)
    \* a new connection on a real pool: its two frames arrive as two messages, whatever an earlier connection left unfinished
    [] r.fn = "conns" -> r.delivered = r.sent
    [] OTHER -> FALSE

Conforms == RecOK(Recs[l]) \/ PrintT(<<"MISMATCH", "rec", l, Recs[l].fn>>)
=============================================================================
