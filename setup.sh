#!/bin/sh
# Run once after a fresh restore, offline.  Nothing is fetched: checks the tools are present
# (by actually parsing a specification with SANY and running TLC on it) and warms the Go build cache.
set -e
cd "$(dirname "$0")"
export GOFLAGS=-mod=mod GOPROXY=off GOSUMDB=off GOTOOLCHAIN=local
CP=/opt/veriftools/tla/tla2tools.jar:/opt/veriftools/tla/CommunityModules-deps.jar
[ -f /opt/veriftools/tla/tla2tools.jar ] || { echo "tla2tools.jar missing"; exit 1; }
command -v java >/dev/null || { echo "java missing"; exit 1; }
command -v go >/dev/null || { echo "go missing"; exit 1; }
command -v python3 >/dev/null || { echo "python3 missing"; exit 1; }
mkdir -p .work .cache evidence
# TLC smoke test (note: `tlc2.TLC -h` exits 1 by design, so run a real, tiny model instead)
T=.work/setup-smoke
rm -rf "$T"; mkdir -p "$T"
cp specs/shared/BigNat.tla specs/shared/MCBigNat.tla specs/shared/MCBigNat.cfg "$T"/
if ! (cd "$T" && timeout 300 java -XX:+UseParallelGC -cp "$CP" tlc2.TLC -metadir md -workers 2 -config MCBigNat.cfg MCBigNat >tlc.out 2>&1); then
  tail -20 "$T/tlc.out"; echo "TLC smoke test failed"; exit 1
fi
rm -rf "$T"
REPO="${VERIF_REPO:-/repo}"
(cd "$REPO" && go build ./src/... >/dev/null 2>&1 || true)
echo "setup ok"
