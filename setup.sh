#!/bin/sh
# Run once after a fresh restore, offline.  Nothing is fetched: checks the tools are present
# and warms the Go build cache for the harness and the overlaid packages.
set -e
cd "$(dirname "$0")"
export GOFLAGS=-mod=mod GOPROXY=off GOSUMDB=off GOTOOLCHAIN=local
java -cp /opt/veriftools/tla/tla2tools.jar tlc2.TLC -h >/dev/null 2>&1 || { echo "TLC missing"; exit 1; }
go version >/dev/null
mkdir -p .work .cache evidence
REPO="${VERIF_REPO:-/repo}"
(cd "$REPO" && go build ./src/... >/dev/null 2>&1 || true)
echo "setup ok"
